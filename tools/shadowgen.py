#!/usr/bin/env python3
"""shadowgen.py <repo> <outfile>: rewrite the CURRENT internal/field/field_u64.go of <repo> for the limb-bound shadow
execution (C04, word level): the struct gets a `bnd [5]uint64` field, every operation gets one hook call as its first
statement, NewElement51 is renamed (the hook file provides the wrapper).  Bodies are not touched, so a changed body is
what runs.  Exit 3 (and a message) when a signature the hooks rely on is no longer there."""
import re
import sys

HOOKS = [
    (r"func \(fe \*Element\) Add\(a, b \*Element\) \*Element \{", 'defer vsBin("add", fe, a, b)()'),
    (r"func \(fe \*Element\) Sub\(a, b \*Element\) \*Element \{", 'defer vsBin("sub", fe, a, b)()'),
    (r"func \(fe \*Element\) Mul\(a, b \*Element\) \*Element \{", 'defer vsBin("mul", fe, a, b)()'),
    (r"func \(fe \*Element\) Mul121666\(t \*Element\) \*Element \{", 'defer vsUn("mul121666", fe, t, 0)()'),
    (r"func \(fe \*Element\) Neg\(t \*Element\) \*Element \{", 'defer vsUn("neg", fe, t, 0)()'),
    (r"func \(fe \*Element\) ConditionalSelect\(a, b \*Element, choice int\) \{", 'defer vsBin("join", fe, a, b)()'),
    (r"func \(fe \*Element\) ConditionalSwap\(other \*Element, choice int\) \{", 'defer vsSwap(fe, other)()'),
    (r"func \(fe \*Element\) ConditionalAssign\(other \*Element, choice int\) \{", 'defer vsBin("join", fe, fe, other)()'),
    (r"func \(fe \*Element\) SetBytes\(in \[\]byte\) \(\*Element, error\) \{", 'defer vsSrc("setbytes", fe, len(in), ElementSize)()'),
    (r"func \(fe \*Element\) SetBytesWide\(in \[\]byte\) \(\*Element, error\) \{", 'defer vsSrc("setbyteswide", fe, len(in), ElementWideSize)()'),
    (r"func \(fe \*Element\) ToBytes\(out \[\]byte\) error \{", 'vsSink("tobytes", fe)'),
    (r"func \(fe \*Element\) Pow2k\(t \*Element, k uint\) \*Element \{", 'defer vsUn("pow2k", fe, t, k)()'),
    (r"func \(fe \*Element\) Square\(t \*Element\) \*Element \{", 'defer vsUn("square", fe, t, 1)()'),
    (r"func \(fe \*Element\) Square2\(t \*Element\) \*Element \{", 'defer vsUn("square2", fe, t, 1)()'),
]


def transform(src):
    missing = []
    s, n = re.subn(r"(type Element struct \{[^}]*?\binner\s+\[5\]uint64\n)", r"\1\tbnd [5]uint64\n", src, count=1)
    if n != 1:
        missing.append("type Element struct{... inner [5]uint64}")
    for pat, hook in HOOKS:
        s, n = re.subn("(" + pat + ")", lambda m: m.group(1) + "\n\t" + hook, s, count=1)
        if n != 1:
            missing.append(pat)
    s, n = re.subn(r"func NewElement51\(", "func verifNewElement51raw(", s, count=1)
    if n != 1:
        missing.append("func NewElement51(")
    return s, missing


if __name__ == "__main__":
    repo, out = sys.argv[1], sys.argv[2]
    s, missing = transform(open(repo + "/internal/field/field_u64.go").read())
    if missing:
        print("shadowgen: signatures not found: " + "; ".join(missing))
        sys.exit(3)
    open(out, "w").write(s)
