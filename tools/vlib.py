"""Shared machinery of the curve25519-voi verification driver.

One Run object per invocation of ./check <id>: it owns a scratch directory
(outside /repo and /verif, removed at exit), builds recorders from the current
/repo tree, runs TLC (toy-scale model checking, behaviour generation, real-scale
trace validation), collects what was covered, and writes the evidence file.

Exit codes: 0 property held on everything explored; 1 violation observed on the
real code (a VIOLATION line was printed); 2 inconclusive (build failure, TLC
error/timeout, specification inconsistency) - never reported as a violation.
"""
import json
import os
import re
import shutil
import subprocess
import sys
import tempfile
import time
from concurrent.futures import ThreadPoolExecutor

ROOT = os.path.dirname(os.path.dirname(os.path.abspath(__file__)))
REPO = os.environ.get("VERIF_REPO", "/repo")
# where evidence and replay files go (the self-test on scratch copies of the repository redirects them)
OUTDIR = os.environ.get("VERIF_OUTDIR", ROOT)
JAR = "/opt/veriftools/tla/tla2tools.jar:/opt/veriftools/tla/CommunityModules-deps.jar"
NCPU = os.cpu_count() or 4
MODPATH = "github.com/oasisprotocol/curve25519-voi"


def goenv(extra=None):
    env = dict(os.environ)
    env.update({"GOFLAGS": "-mod=mod", "GOPROXY": "off", "GOSUMDB": "off", "GOTOOLCHAIN": "local",
                "CGO_ENABLED": env.get("CGO_ENABLED", "1")})
    if extra:
        env.update(extra)
    return env


class Inconclusive(Exception):
    pass


class Run:
    def __init__(self, prop, tier, seed, level="model_checking"):
        self.prop = prop
        self.tier = tier
        self.seed = seed
        self.level = level
        self.t0 = time.time()
        base = os.environ.get("VERIF_TMP") or tempfile.gettempdir()
        self.scratch = tempfile.mkdtemp(prefix="verif-%s-" % prop, dir=base)
        self.specdir = os.path.join(self.scratch, "spec")
        os.makedirs(self.specdir)
        for sub in sorted(os.listdir(os.path.join(ROOT, "spec"))):
            d = os.path.join(ROOT, "spec", sub)
            if os.path.isdir(d):
                for f in os.listdir(d):
                    if f.endswith(".tla") or f.endswith(".cfg"):
                        shutil.copy(os.path.join(d, f), self.specdir)
        self.cov = {"states": 0, "transitions": 0, "traces_validated_against_impl": 0,
                    "evaluations": 0, "distinct_nontrivial": 0, "samples": [], "tlc_runs": [],
                    "events_by_op": {}, "configs": []}
        self.distinct = set()
        self.violations = []
        self.known = []
        self.notes = []
        self.assumptions = []
        self.rule = ""
        self.findings = load_known_findings()
        self.tlcn = 0

    # ------------------------------------------------------------------ building
    def harness_dir(self):
        h = os.path.join(ROOT, "harness")
        # the harness module resolves the library through `replace => /repo`; when the
        # driver is pointed at another tree (self-test on a scratch copy) rewrite it
        if REPO != "/repo":
            h2 = os.path.join(self.scratch, "harness")
            if not os.path.isdir(h2):
                shutil.copytree(h, h2)
                gm = open(os.path.join(h2, "go.mod")).read().replace("=> /repo", "=> " + REPO)
                open(os.path.join(h2, "go.mod"), "w").write(gm)
            h = h2
        shutil.copy(os.path.join(REPO, "go.sum"), os.path.join(h, "go.sum"))
        return h

    def build(self, cmd="rec", tags=(), race=False, name=None, overlay=None):
        """go build one of the harness commands against the current /repo tree (overlay: {path in the tree: replacement})."""
        h = self.harness_dir()
        out = os.path.join(self.scratch, name or (cmd + "-" + ("_".join(tags) or "default") + ("-race" if race else "")))
        args = ["go", "build", "-o", out]
        if overlay:
            ovp = os.path.join(self.scratch, "overlay-b%d.json" % len(os.listdir(self.scratch)))
            json.dump({"Replace": overlay}, open(ovp, "w"))
            args += ["-overlay", ovp]
        if tags:
            args += ["-tags", ",".join(tags)]
        if race:
            args += ["-race"]
        args += ["./cmd/" + cmd]
        p = subprocess.run(args, cwd=h, env=goenv(), capture_output=True, text=True)
        if p.returncode != 0:
            raise Inconclusive("go build %s failed (tags=%s):\n%s" % (cmd, tags, p.stdout + p.stderr))
        return out

    def overlay_test(self, pkg, files, run, tags=(), env=None, timeout=1200, race=False, extra_args=(), extra_replace=None):
        """Run in-package test files kept under /verif/overlay/<pkg>/ inside /repo/<pkg> with
        `go test -overlay` (nothing is written under /repo)."""
        ov = {"Replace": {}}
        for rel in files:
            src = os.path.join(ROOT, "overlay", rel)
            ov["Replace"][os.path.join(REPO, rel)] = src
        if extra_replace:
            ov["Replace"].update(extra_replace)
        ovp = os.path.join(self.scratch, "overlay-%d.json" % len(os.listdir(self.scratch)))
        json.dump(ov, open(ovp, "w"))
        args = ["go", "test", "-vet=off", "-count=1", "-overlay", ovp, "-run", run, "-timeout", "%ds" % timeout]
        if tags:
            args += ["-tags", ",".join(tags)]
        if race:
            args += ["-race"]
        args += list(extra_args)
        args += ["./" + pkg]
        p = subprocess.run(args, cwd=REPO, env=goenv(env), capture_output=True, text=True, timeout=timeout + 60)
        if p.returncode != 0:
            out = p.stdout + p.stderr
            kind, detail = classify_go_failure(out)
            if kind:
                # the library itself panicked / did not return on the recorder's well-formed calls: behaviour of the code
                self.violation("%s while the in-package recorder %s (%s, tags=%s) was running: %s"
                               % ("the library panicked" if kind == "panic" else "a library call did not return (test timed out after %d s)" % timeout,
                                  run, pkg, ",".join(tags) or "-", detail),
                               event={"op": "lib" + kind, "pkg": pkg, "test": run, "tags": list(tags), "detail": detail[:1500]}, key=None)
                return ""
            raise Inconclusive("overlay test %s failed (tags=%s):\n%s" % (pkg, tags, out[-4000:]))
        return p.stdout

    def record(self, binary, prop=None, n=0, cfg="default", shards=None, env=None, extra="", outdir=None, seed=None):
        outdir = outdir or tempfile.mkdtemp(prefix="tr-", dir=self.scratch)
        args = [binary, "-prop", prop or self.prop, "-seed", str(self.seed if seed is None else seed), "-tier", self.tier,
                "-out", outdir, "-shards", str(shards or NCPU), "-cfg", cfg]
        if n:
            args += ["-n", str(n)]
        if extra:
            args += ["-extra", extra]
        p = subprocess.run(args, env=goenv(env), capture_output=True, text=True, timeout=3600)
        if p.returncode != 0:
            raise Inconclusive("recorder failed: %s\n%s" % (" ".join(args), (p.stdout + p.stderr)[-4000:]))
        files = sorted(os.path.join(outdir, f) for f in os.listdir(outdir) if f.endswith(".ndjson"))
        files = [f for f in files if os.path.getsize(f) > 0]
        self.cov["configs"].append(cfg)
        return files

    # ------------------------------------------------------------------ TLC
    def _java(self, workers, heap=None):
        if workers == 1:
            return ["java", "-Xss1g", "-XX:+UseSerialGC"] + (["-Xmx%s" % heap] if heap else []) + ["-cp", JAR, "tlc2.TLC", "-workers", "1"]
        return ["java", "-Xss512m", "-XX:+UseParallelGC", "-XX:ParallelGCThreads=4"] + (["-Xmx%s" % heap] if heap else []) + ["-cp", JAR, "tlc2.TLC", "-workers", str(workers)]

    def tlc(self, module, cfg, workers=1, timeout=600, env=None, extra=(), heap=None):
        # timeouts only protect against a hung tool; on a loaded machine runs take several times their usual time, and a
        # timeout on the unchanged tree would make the check exit 2
        timeout = max(timeout, 3600)
        self.tlcn += 1
        md = os.path.join(self.scratch, "md-%d-%d" % (os.getpid(), self.tlcn))
        args = self._java(workers, heap) + ["-metadir", md, "-config", cfg] + list(extra) + [module + ".tla"]
        e = dict(os.environ)
        if env:
            e.update(env)
        t0 = time.time()
        try:
            p = subprocess.run(args, cwd=self.specdir, env=e, capture_output=True, text=True, timeout=timeout)
            out = p.stdout + p.stderr
            rc = p.returncode
        except subprocess.TimeoutExpired as ex:
            out = (ex.stdout or b"").decode("utf8", "replace") if isinstance(ex.stdout, bytes) else (ex.stdout or "")
            rc = -9
        shutil.rmtree(md, ignore_errors=True)
        res = parse_tlc(out)
        res.update({"rc": rc, "wall": round(time.time() - t0, 2), "module": module, "cfg": cfg, "out": out})
        return res

    def mc(self, module, cfg, workers=NCPU, timeout=900, expect_ok=True, coverage=False, heap=None):
        """Exhaustive toy-scale model checking. A failure here is a specification/model
        inconsistency, not a verdict about the code: inconclusive."""
        extra = ["-coverage", "1"] if coverage else []
        r = self.tlc(module, cfg, workers=workers, timeout=timeout, extra=extra, heap=heap)
        self.cov["tlc_runs"].append({k: r[k] for k in ("module", "cfg", "generated", "distinct", "depth", "wall", "rc")})
        if expect_ok:
            if r["rc"] != 0 or not r["completed"]:
                raise Inconclusive("TLC model checking of %s/%s did not complete cleanly (rc=%s):\n%s" % (module, cfg, r["rc"], tail(r["out"])))
            self.cov["states"] += r["distinct"]
            self.cov["transitions"] += r["generated"]
        return r

    def apalache(self, module, cinit, init, inv, length, expect_error=False, timeout=900):
        """Symbolic (bounded) model checking with Apalache; used for inductive invariants:
        Init => Inv at length 0 and Inv /\\ Next => Inv' at length 1 from a generated arbitrary state.
        Anything but the expected outcome is inconclusive (a statement about the specification, not the code)."""
        self.tlcn += 1
        od = os.path.join(self.scratch, "apa-%d" % self.tlcn)
        args = ["apalache-mc", "check", "--out-dir=" + od, "--cinit=" + cinit, "--init=" + init, "--inv=" + inv, "--length=%d" % length,
                module + ".tla"]
        t0 = time.time()
        try:
            p = subprocess.run(args, cwd=self.specdir, capture_output=True, text=True, timeout=timeout)
        except subprocess.TimeoutExpired:
            raise Inconclusive("apalache timed out: " + " ".join(args))
        out = p.stdout + p.stderr
        ok = "The outcome is: NoError" in out and p.returncode == 0
        err = "The outcome is: Error" in out and p.returncode == 12
        self.cov.setdefault("apalache_runs", []).append({"module": module, "cinit": cinit, "init": init, "inv": inv, "length": length,
                                                         "outcome": "NoError" if ok else ("Error" if err else "failed"),
                                                         "wall": round(time.time() - t0, 2)})
        if (expect_error and not err) or (not expect_error and not ok):
            raise Inconclusive("apalache %s: expected %s, got:\n%s" % (" ".join(args[2:]), "a counterexample" if expect_error else "NoError", tail(out)))
        shutil.rmtree(od, ignore_errors=True)

    def validate(self, module, files, timeout=900, cfg="Trace.cfg", env=None, label=None, parallel=None):
        """Real-scale trace validation: one single-worker JVM per shard file. Returns the list of
        rejected events [(file, line, event)]. TLC errors/timeouts are inconclusive."""
        rejected = []
        total = 0

        def one(f):
            e = {"TRACE": f}
            if env:
                e.update(env)
            return f, self.tlc(module, cfg, workers=1, timeout=timeout, env=e)

        with ThreadPoolExecutor(max_workers=parallel or NCPU) as ex:
            results = list(ex.map(one, files))
        for f, r in results:
            lines = open(f).read().splitlines()
            total += len(lines)
            for ln in r["rejects"]:
                rejected.append((f, ln, json.loads(lines[ln - 1])))
            if r["rc"] == -9:
                raise Inconclusive("TLC trace validation timed out on %s (%s)" % (f, module))
            consumed = r["depth"] - 1 if r["depth"] else 0
            if r["rejects"] and r["posterr"] and not r["evalerr"]:
                # resynchronising trace specs skip the rest of a rejected history: fewer states than lines is expected
                pass
            elif not r["completed"] or r["posterr"] or consumed != len(lines):
                if r["evalerr"] or r["rc"] not in (0, 13) and not r["posterr"]:
                    raise Inconclusive("TLC error while validating %s with %s:\n%s" % (f, module, tail(r["out"])))
                # stateful trace: Next disabled at the first unconsumed line
                if consumed < len(lines):
                    rejected.append((f, consumed + 1, json.loads(lines[consumed])))
            self.cov["states"] += r["distinct"]
            self.cov["transitions"] += r["generated"]
        self.cov["traces_validated_against_impl"] += len(files)
        self.cov["evaluations"] += total
        self.cov["tlc_runs"].append({"module": module, "cfg": cfg, "shards": len(files), "events": total,
                                     "rejected": len(rejected), "wall": round(max([r["wall"] for _, r in results] or [0]), 2),
                                     "label": label or ""})
        return rejected

    # ------------------------------------------------------------------ bookkeeping
    def count_events(self, files, key=lambda e: e.get("op", "?"), nontrivial=None, sample_every=0):
        for f in files:
            for i, line in enumerate(open(f)):
                e = json.loads(line)
                k = key(e)
                self.cov["events_by_op"][k] = self.cov["events_by_op"].get(k, 0) + 1
                if nontrivial is None or nontrivial(e):
                    d = dict(e)
                    d.pop("seq", None)
                    self.distinct.add(hash(json.dumps(d, sort_keys=True)))
                if len(self.cov["samples"]) < 6 and (i % 97 == 0):
                    self.cov["samples"].append(shrink(e))

    def sample(self, x):
        if len(self.cov["samples"]) < 12:
            self.cov["samples"].append(x)

    def violation(self, what, event=None, replay=None, key=None):
        """Report a violation observed on the real code, unless it is a listed known finding."""
        k = key or what
        for kf in self.findings.get("known", []):
            if kf.get("property") == self.prop and kf.get("key") == k:
                line = "KNOWN-FINDING: property=%s %s" % (self.prop, kf.get("what", k))
                if line not in self.known:
                    self.known.append(line)
                    print(line)
                return
        self.nviol = getattr(self, "nviol", 0) + 1
        if len(self.violations) >= 5:
            return      # the first five are written out; the count is kept in the evidence
        os.makedirs(os.path.join(OUTDIR, "replays"), exist_ok=True)
        path = os.path.join(OUTDIR, "replays", "%s-%d-%d.json" % (self.prop, self.seed, len(self.violations) + 1))
        body = {"property": self.prop, "what": what, "key": k, "tier": self.tier, "seed": self.seed}
        if event is not None:
            body["event"] = event
        if replay is not None:
            body["replay"] = replay
        json.dump(body, open(path, "w"), indent=1)
        self.violations.append((what, path))
        print("VIOLATION property=%s replay=%s" % (self.prop, path))
        print("  " + what[:2000])
        sys.stdout.flush()

    def finish(self, rc=None):
        c = self.cov
        c["distinct_nontrivial"] = max(c["distinct_nontrivial"], len(self.distinct))
        c["rule"] = self.rule
        c["notes"] = self.notes
        c["known_findings_reported"] = self.known
        if not c["samples"]:
            c["samples"] = ["(no sample collected)"]
        ev = {"property_id": self.prop, "tier": self.tier, "seed": self.seed, "level": self.level,
              "coverage": c, "assumptions": self.assumptions, "wall_s": round(time.time() - self.t0, 2),
              "violations": getattr(self, "nviol", 0)}
        os.makedirs(os.path.join(OUTDIR, "evidence"), exist_ok=True)
        json.dump(ev, open(os.path.join(OUTDIR, "evidence", self.prop + ".json"), "w"), indent=1)
        shutil.rmtree(self.scratch, ignore_errors=True)
        if rc is None:
            rc = 1 if self.violations else 0
        print("%s %s tier=%s seed=%d: states=%d transitions=%d traces=%d events=%d distinct=%d violations=%d wall=%.1fs" % (
            self.prop, "FAIL" if rc == 1 else ("INCONCLUSIVE" if rc else "ok"), self.tier, self.seed, c["states"],
            c["transitions"], c["traces_validated_against_impl"], c["evaluations"], c["distinct_nontrivial"],
            len(self.violations), time.time() - self.t0))
        return rc


def shrink(e):
    """Shorten long byte lists in a sample event for the evidence file."""
    def s(v):
        if isinstance(v, list) and len(v) >= 8 and all(isinstance(x, int) and 0 <= x < 256 for x in v):
            h = "".join("%02x" % x for x in v)
            return "hex:" + (h if len(h) <= 160 else h[:64] + "...(%d bytes)" % len(v))
        if isinstance(v, list) and len(v) > 40:
            return v[:16] + ["...(%d)" % len(v)]
        if isinstance(v, list):
            return [s(x) for x in v]
        if isinstance(v, dict):
            return {k: s(x) for k, x in v.items()}
        return v
    return s(e)


def tail(s, n=3000):
    s = "\n".join(l for l in s.splitlines() if not re.match(r"^(Semantic processing|Parsing file|Linting of)", l))
    return s[-n:]


def classify_go_failure(out):
    """Tell a library panic / hang from a harness failure in the output of a failed `go test`: the innermost frame
    outside the Go runtime and the testing package decides. Frames in zz_verif* files are the recorder's own."""
    m = re.search(r"^panic: (.*)$", out, re.M)
    timed_out = "panic: test timed out" in out
    if not m:
        return None, ""
    if timed_out:
        # goroutine dump: look at the running goroutines
        secs = re.split(r"\n(?=goroutine \d+ \[)", out)
        secs = [x for x in secs if re.match(r"goroutine \d+ \[(running|runnable)", x)]
    else:
        i = out.find("goroutine ", m.end())
        secs = [out[i:] if i >= 0 else ""]
    for sec in secs:
        for fm in re.finditer(r"^\s+(/\S+\.(?:go|s)):(\d+)", sec, re.M):
            path = fm.group(1)
            if "/go/src/" in path or "/libexec/" in path or "/usr/lib/go" in path or "/opt/veriftools/go" in path or "/src/runtime/" in path or "/src/testing/" in path:
                continue
            base = os.path.basename(path)
            if base.startswith("zz_verif") or "/verif/overlay/" in path:
                break   # the recorder's own frame comes first: not the library's doing
            return ("hang" if timed_out else "panic"), "%s at %s:%s" % (m.group(1)[:300], path, fm.group(2))
    return None, ""


def parse_tlc(out):
    r = {"generated": 0, "distinct": 0, "depth": 0, "completed": False, "rejects": [], "posterr": False,
         "evalerr": False, "invariant": None, "prints": []}
    m = re.findall(r"(\d+) states generated, (\d+) distinct states found", out)
    if m:
        r["generated"], r["distinct"] = int(m[-1][0]), int(m[-1][1])
    m = re.search(r"The depth of the complete state graph search is (\d+)", out)
    if m:
        r["depth"] = int(m.group(1))
    r["completed"] = "Model checking completed. No error has been found." in out
    flat = re.sub(r"\s+", " ", out)
    for m in re.finditer(r'<<\s*"REJECT",\s*(\d+)', flat):
        r["rejects"].append(int(m.group(1)))
    r["rejects"] = sorted(set(r["rejects"]))
    if re.search(r"Postcondition \S+ .*is false", out) or ("POSTCONDITION" in out and "violated" in out):
        r["posterr"] = True
    # with several workers either an invariant or an action property may be reported first
    m = re.search(r"Invariant (\S+) is violated", out) or re.search(r"Action property (\S+) is violated", out)
    if m:
        r["invariant"] = m.group(1)
    elif "Temporal properties were violated" in out:
        r["invariant"] = "(temporal property)"
    if re.search(r"Error: (TLC threw|Evaluating|The first argument|Attempted|In evaluation|TLC encountered|An|Overflow)", out) and not r["invariant"] and not r["posterr"]:
        r["evalerr"] = True
    for m in re.finditer(r'<<\s*"OUT",(.*?)>>\s*(?=<<\s*"OUT"|$|[A-Z])', flat):
        r["prints"].append(m.group(1))
    return r


def load_known_findings():
    p = os.path.join(ROOT, "known_findings.json")
    if os.path.exists(p):
        return json.load(open(p))
    return {"known": [], "fixed": []}


def seed_from_env(default=1):
    try:
        return int(os.environ.get("VERIF_SEED", default))
    except ValueError:
        return default
