#!/usr/bin/env python3
"""Regenerates /verif/MANIFEST.json from the table below (one source of truth for the interface)."""
import json
import os

ROOT = os.path.dirname(os.path.dirname(os.path.abspath(__file__)))
BASELINE = ("cd /repo && GOFLAGS=-mod=mod GOPROXY=off GOSUMDB=off GOTOOLCHAIN=local go build ./... && "
            "go test -json -vet=off -count=1 -timeout 25m ./...")

# id -> (category, text, note, technique, design_ref)
CHECKS = {
    "C05": ("model_checking",
            "TLC checks the word-wise minimality algorithm against value<l for every string of a toy word size; every "
            "recorded curve/scalar API call (boundary families: kL+e, per-word compare classes against L, 2^k+-1, digit "
            "patterns, long unreduced sums; plus seeded random) on the 52-bit and 29-bit backends must be accepted by the "
            "real-scale Z/L specification evaluated by TLC over a TLA+ bignum layer. Exhaustive only over the finite "
            "boundary families; sampled elsewhere.",
            "Trusts TLC/SANY, CommunityModules overrides, spec/lib/BigNat.tla, L as written in RFC 8032. Inputs reach the "
            "code through SetBits/decoders of the public API.",
            "TLA+ spec of Z/L; TLC trace validation of recorded API calls at real scale + TLC exhaustive toy model of ScMinimal",
            "5/C05"),
    "C17": ("model_checking",
            "TLC checks the recoders (NonAdjacentForm, ToRadix16, ToRadix2w transcribed with their word-window extraction) "
            "for every scalar of two toy word layouts: value reconstruction and digit bounds; the recorded digit arrays of "
            "the real API on the carry-chain/word-seam boundary family and seeded random 255-bit scalars must satisfy the "
            "same postcondition module (Recoding.tla) with exact BigNat reconstruction.",
            "Trusts TLC/SANY, CommunityModules overrides, BigNat. Real scale is exhaustive only over the boundary families.",
            "TLA+ postconditions checked by TLC on recorded digit arrays + exhaustive toy model of the recoding algorithms",
            "5/C17"),
    "C04": ("model_checking",
            "Trace validation at real scale: an in-package recorder builds field elements from raw limbs (every corner pair "
            "of the admissible limb box for sub/mul, canonicalisation boundaries, one-past-nominal limbs, carry extremes of the "
            "small-constant multiplication, operation chains, seeded random limbs in the whole headroom) and runs every "
            "internal/field operation on the amd64-assembly, portable 64-bit and 32-bit backends, and the AVX2 vector lanes "
            "(fieldElement2625x4 operations from raw lanes, in package curve) when the CPU has AVX2; TLC evaluates the F_p "
            "specification on each event and the canonical encoding of each output. The oracle's own sqrt_ratio_i/inversion "
            "algorithms are model-checked against their declarative definitions on a complete toy field. Exhaustive over the "
            "corner families, sampled inside the box (the monotonicity argument of DESIGN.md 5/C04 explains why corners decide overflow). "
            "Word level (radix-2^51 backend): FieldWords.tla gives, per operation, the precondition under which no 64/128-bit intermediate "
            "wraps for any element under a limb-bound vector, and the bound of the result; MC_C04w proves this calculus sound against "
            "word semantics WITH wrap-around on complete toy instances (the weakened variant must fail); a shadow execution of limb bounds "
            "through the mechanically rewritten CURRENT field_u64.go (purego build, under the recorders of eleven other properties) yields "
            "every distinct bound-transfer instance of the executed paths, each judged by FieldWords.tla at real scale (Trace_C04w), and the "
            "derived bound vectors are replayed as concrete limbs into the real operations (assembly and portable code).",
            "Trusts TLC/SANY, CommunityModules overrides, BigNat/F25519, go test -overlay. Vector-lane bit excess is taken as 1.5 (the repository "
            "does not document the bound; dalek documents 1.5-2.5).",
            "TLA+ spec of F_p and of the word-level bound calculus (FieldWords.tla); TLC model checking of the calculus on toy instances; TLC trace "
            "validation of limb-level recorded executions on four backends and of the shadow-executed bound transfers; spec-derived extremal replay",
            "5/C04"),
    "C20": ("model_checking",
            "Exhaustive over the finite space: every embedded constant and every table entry (32x8 fixed-base entries, two 64-entry "
            "odd-multiple tables - packed bytes and the unpacked form -, the vector tables generated at start-up when AVX2 is live, the "
            "eight torsion points, field/scalar/Montgomery/lattice/Elligator constants) is dumped by in-package overlay tests on the "
            "default, purego and force32bit builds and recomputed by TLC from the definitions (d, B=(x,4/5), L, defining equations of the "
            "square-root constants) with the Edwards module that is model-checked against the affine group law on toy curves.",
            "Trusts TLC/SANY, BigNat/F25519/Edwards, Element.ToBytes for reading values (C04), the sign conventions of RFC 9496 / dalek for "
            "square-root constants. RISTRETTO_BASEPOINT_COMPRESSED is checked under C11.",
            "TLA+ definitions recomputed by TLC and compared with every dumped constant/table entry on three builds",
            "5/C20"),
    "C10": ("model_checking",
            "TLC checks on complete toy curves (every string, every point in several projective scalings, every scalar) that the "
            "decompression / compression / equality / identity / small-order algorithms of Edwards.tla equal the affine definitions; the "
            "same module at real scale judges executions recorded inside package curve: complete finite families (every y in [p-3,2^255), "
            "per-byte compare classes against p, x=0 sign cases, torsion encodings, lengths 0..1000, special u-coordinates with both "
            "settings of bit 255) and seeded random strings / mixed-order points in random projective scalings, on two (quick) or four "
            "(thorough) backends; UnmarshalBinary error and receiver state included.",
            "Trusts TLC/SANY, BigNat/F25519, Element.ToBytes for reading coordinates (C04). Square roots and inversions use untrusted "
            "certificates that the spec verifies (falls back to its own algorithm). IsTorsionFree is sampled (16 quick / 200 thorough).",
            "TLA+ Edwards module: exhaustive TLC on toy curves + TLC trace validation of in-package recorded executions at real scale",
            "5/C10"),
    "C03": ("model_checking",
            "TLC checks on complete toy curves that every formula variant of Edwards.tla (extended/projective-Niels/affine-Niels add and "
            "sub, doubling, negation, x8, double-and-add) equals the affine group law for every point pair in several projective "
            "scalings and every (unreduced) scalar string; the same module at real scale recomputes sum [s_i]P_i for executions recorded "
            "inside package curve: all torsion pairs, mixed-order points in random scalings, every scalar-multiplication entry point "
            "(variable-base, fixed-base with the live / packed generic / run-time built table, double-base, CT and vartime multiscalar, "
            "expanded variants) with boundary and unreduced 255-bit scalars, term counts 0..8 and the Straus/Pippenger thresholds, on "
            "AVX2 and serial backends (quick) or all four configurations (thorough).",
            "Trusts TLC/SANY, BigNat/F25519, Element.ToBytes for reading coordinates (C04). Sampled at real scale except for the finite "
            "torsion families; each real-scale scalar multiplication costs ~4 s of TLC time, which bounds the sample (tens quick, ~1000 thorough).",
            "TLA+ Edwards group law: exhaustive TLC on toy curves + TLC trace validation of recorded scalar multiplications at real scale",
            "5/C03"),
    "C01": ("model_checking",
            "TLC decides on a complete toy universe (every A string x R string x S string x reduced challenge x all 32 option vectors x "
            "length flag; 131k states, ~20 M predicate evaluations) that the implementation-shaped verification (ordered admission checks, "
            "lazy R decompression, delta-scaled equation for every admissible short vector, byte compare) equals the declarative predicate, "
            "that the predicate is a function of the request's class, and the StdLib / FIPS 186-5 / ZIP-215 equivalences. The class function "
            "is then bound to the code: a Go replayer builds ~12k real requests of known class (all torsion index pairs, all 32 option "
            "vectors, encoding kinds, S boundary family, lengths, pure/ctx/ph; plain and expanded-key paths; crypto/ed25519 under StdLib) and "
            "TLC checks every recorded decision; a stratified sample is re-decided from the bytes by the same predicate at real scale.",
            "Trusts TLC/SANY, BigNat/F25519/Edwards, SHA-512 of the Go standard library (the spec rebuilds the hash input), and the "
            "replayer's construction of [a]B+[i]T8 for the class layer (cross-checked by the real-scale sample: 32 quick / 640 thorough).",
            "TLA+ Ed25519 predicate: exhaustive TLC at toy scale; class verdicts and real-scale re-decision by TLC trace validation",
            "5/C01"),
    "C02": ("model_checking",
            "TLC checks on toy curves, for every key x nonce x challenge, that the Schnorr signature has canonical R, S < l, is accepted by "
            "the declarative predicate under every legal option vector (all four presets unconditionally) and rejected for any other S, "
            "challenge or length. Bound to the code: the COMPLETE option-validation lattice (9216 tuples incl. entropy failure) is replayed "
            "and judged by OptionError; recorded key pairs and signatures (pure/ctx/ph, with and without added randomness) are recomputed "
            "byte for byte at real scale from the seed by TLC (RFC 8032 framing, fixed-base multiplications, wide reductions) and compared "
            "with crypto/ed25519; each is verified under every preset, in a mixed batch, and rejected after flips.",
            "Trusts TLC/SANY, BigNat/F25519/Edwards, SHA-512 of the standard library as a table (inputs rebuilt by the spec). Real-scale "
            "signatures: 16 per configuration quick (two configurations), 400 thorough (four).",
            "TLA+ RFC 8032 signing spec evaluated by TLC on recorded signatures; exhaustive option lattice; toy-scale exhaustive TLC",
            "5/C02"),
    "C09": ("model_checking",
            "Batch.tla models the BatchVerifier as the code is shaped (three sticky flags, key expansion exactly when precomputeOk(), batch "
            "fast path, serial fallback) next to the declarative results; TLC explores every history up to 3/4 additions over all 36 abstract "
            "entry kinds x {plain, expanded, nil key} with Force/Reset/Verify/VerifyBatchOnly anywhere (expansion limit 2) and checks outputs = "
            "declarative, flags exact, no nil key on the precomputed path. Histories recorded from real BatchVerifier objects (12 entry "
            "classes x option vectors, sizes 93..96 and 188..191, reuse after Reset, forced non-expansion, caching verifier, nil/seeded "
            "entropy) are validated step by step against the same machine with the real limit 94; every entry's kind must agree with real "
            "single verification; cached single verification must equal plain.",
            "Trusts TLC/SANY; treats the 2^-128 batch soundness error as never; the recorder's entry-class construction is cross-checked "
            "against real single verification inside the trace spec (single verification itself is decided by C01).",
            "TLA+ state machine of the batch verifier: exhaustive TLC + trace validation of recorded operation histories",
            "5/C09"),
    "C18": ("model_checking",
            "Cache.tla models cache.Verifier.upsertPublicKey as Get / expand / Put with the mutex released in between, N clients over one "
            "LRU; TLC explores all interleavings (3 clients x 2 upserts, capacities 1 and 2; 1.4 M states) for boundedness, no duplicates, "
            "index consistency, right key stored and used, and refinement of the sequential LRU; the non-atomic-Put variant is checked to "
            "fail; Apalache additionally proves these invariants inductive (any number of operations, fixed small parameters). Both the "
            "AVX2 and the serial (purego) backend are exercised. Binding: (G) every lock-level schedule TLC generates for 2 clients x 2 upserts is enforced on real goroutines through the "
            "pre-lock gate hook and the recorded critical sections must equal it; (R) critical sections recorded under the mutex by the "
            "verif hook from 8 free-running goroutines per cache are validated against LRU.tla state by state (list, index, stored values); "
            "a concurrent API workload must reproduce the sequential results; everything runs under the Go race detector and any report "
            "is a violation.",
            "Trusts TLC/SANY, the hook placement (under the mutex, after the change), the Go race detector for the race half - it sees only "
            "the schedules that were executed, so absence of races is observed, not proved.",
            "TLA+ model of the cache: exhaustive TLC over interleavings and an Apalache inductive invariant; TLC-generated schedules replayed via gate hook; trace validation of hook-recorded critical sections; race detector",
            "5/C18"),
    "C13": ("model_checking",
            "Strobe.tla/Merlin.tla are parametric in the state cells and the permutation. Toy instance with an UNINTERPRETED permutation "
            "(symbolic cells, the state carries its sponge transcript): TLC checks that history -> transcript is injective over all 6481 "
            "Merlin histories of a toy universe with lengths around the rate boundary (so differing histories give different challenges "
            "under an ideal permutation), the cursor invariants, and clone independence. Real instance with Keccak-f[1600] written out in "
            "TLA+: TLC replays histories recorded through the public merlin API (appends, extractions, clones, RNG builders, witness "
            "re-keying, finalisation, reads; a complete sweep of the cursor position in front of cipher operations plus lengths biased to "
            "the block boundaries) and raw STROBE histories recorded inside internal/strobe (`more` continuations, cursor and full state "
            "after every call) and the permutation alone, on both the assembly and the Go Keccak; every extracted byte must be equal.",
            "Trusts TLC/SANY and the Bitwise Java overrides; injectivity is relative to the ideal-permutation assumption.",
            "TLA+ STROBE/Merlin/Keccak spec: symbolic toy model checked by TLC + real-scale trace validation of recorded operation histories",
            "5/C13"),
    "C07": ("model_checking",
            "Montgomery.tla holds the RFC 7748 ladder verbatim (the definition) and the code's Costello-Smith ladder; TLC checks on the "
            "Montgomery form of complete toy curves, for every u string (u >= p, ignored top bit, twist, low order) and every scalar string, "
            "that both ladders agree, equal u([clamp(s)]P) through the Edwards group law, give zero on low-order inputs, and that the "
            "fixed-base route and Diffie-Hellman symmetry hold for all key pairs. At real scale TLC evaluates the RFC ladder on recorded "
            "calls: the complete family of special u values (low order, every u in [p,2^255), bit 255 set, non-canonical forms), length "
            "errors, clamping-sensitive scalars, X25519 / ScalarMult / ScalarBaseMult / DiffieHellman / Public and the Ed25519 conversions, "
            "on two (quick) or four (thorough) backends.",
            "Trusts TLC/SANY, BigNat/F25519, RFC 7748 pseudo-code as definition, SHA-512 table for the private-key conversion. Field-level "
            "carry defects that need a crafted u (probability ~2^-47 on random input) are the business of C04's carry-extreme families.",
            "TLA+ RFC 7748 ladder: exhaustive TLC on toy Montgomery curves + real-scale TLC trace validation of recorded X25519 calls",
            "5/C07"),
    "C16": ("model_checking",
            "Lattice.tla is Pornin's algorithm 4 as a state machine over exact integers; TLC explores it for toy orders 67 / 509 / 4093 and "
            "EVERY k below 2^8 / 2^10 / 2^13: exact norms and inner product, lattice membership of both vectors, determinant, step bound, "
            "termination (liveness under weak fairness) and the postcondition Short; MC_C01 proves on a complete toy curve that ANY vector "
            "satisfying Short makes the delta-scaled equation equivalent to the declarative one. At real scale FindShortVector is recorded "
            "inside internal/lattice under a watchdog on a structured family (all 2^j, 1/2^j, 2^j/3, L-2^j, r/q with r ~ 2^128..2^130 and q "
            "of 40..90 bits, balanced splits, unreduced kL+e, random) and judged by Short with BigNat (plus the magnitudes/signs handed to "
            "the multiplication); TripleScalarMulBasepointVartime and its expanded variant are recorded on torsion-laden A, C with extreme a "
            "and the E[8] equivalence is recomputed by TLC.",
            "Trusts TLC/SANY, BigNat/F25519/Edwards; a 5 s / 10 s watchdog stands for non-termination; the code's 512/384-bit and 128-bit "
            "machine widths are modelled only through the toy width invariant and observed through the real-scale postcondition.",
            "TLA+ state machine of the lattice reduction: exhaustive TLC at toy scale + real-scale TLC trace validation of recorded short vectors and triple multiplications",
            "5/C16"),
    "C11": ("model_checking",
            "Ristretto.tla is RFC 9496 section 4.3 verbatim, parametric in the curve. TLC checks on complete toy curves (all of which carry "
            "Ristretto) that exactly l strings decode and each re-encodes to itself, that all four coset representatives of every element "
            "in every projective scaling encode identically and compare Equal while different cosets never do, and that MAP yields a valid "
            "point of 2E for every field element. The same module with edwards25519 judges executions recorded inside package curve: "
            "non-canonical / negative s, bit 255 on valid encodings, lengths, the identity coset, random and mutated encodings, all four "
            "representatives with random scalings (cross-event equality of their bytes), Equal, SetUniformBytes on boundary strings, group "
            "operations through the Ristretto wrappers, and the embedded base-point encoding.",
            "Trusts TLC/SANY, BigNat/F25519, RFC 9496 formulas as definition; square-root certificates are untrusted and verified.",
            "TLA+ transcription of RFC 9496: exhaustive TLC on toy curves + real-scale TLC trace validation of in-package recorded executions",
            "5/C11"),
    "C19": ("exploration",
            "Monitor specification: Robustness.tla is the API contract table (admissible length range per argument, failure signal, the two "
            "documented panics, neutral receiver state after failure) for 43 byte-taking entry points across curve, scalar, ed25519 (single, "
            "batch, expanded, cached), ecvrf, sr25519, x25519, h2c and merlin. The recorder calls each with every length 0..130 plus large "
            "ones at every argument position (zero / random / truncated-valid contents), nil slices, bit-flipped valid tuples and the valid "
            "tuple under recover(); TLC checks every recorded call (26k in quick) against the table. The exploration is the recorder's; the "
            "specification contributes the precise contract. Both genuine defects found this way were repaired by fix: commits and the "
            "check flags them again when the fixes are reverted.",
            "Trusts TLC/SANY; coverage of 'every function that takes bytes' is the recorder's explicit list of entry points; contents are "
            "sampled, lengths are exhaustive up to 130.",
            "TLA+ contract table checked by TLC against recorded API calls over all input lengths",
            "5/C19"),
    "C06": ("exploration",
            "Monitor specification: Backends.tla admits a workload step only if every configuration reports the same digest of the "
            "caller-observable part of the event. The deterministic workloads are the recorders of C01 C02 C03 C05 C07 C09 C10 C11 C13 "
            "(merlin, raw STROBE, Keccak-f alone) C17 C19 - every exported operation family on boundary and seeded inputs, incl. accept/"
            "reject decisions and error classes - run with one seed under {default, GODEBUG=cpu.avx2=off, -tags purego, -tags force32bit}; "
            "79k steps x 4 configurations in quick. A workload that completes under the default configuration but crashes under another is "
            "reported as a divergence. Agreement with the specification (not merely mutual) is decided per backend by the other checks.",
            "Trusts TLC/SANY; the exploration is the recorders'; if the host CPU has no AVX2 the first two configurations coincide (the "
            "evidence records whether the vector backend was live).",
            "TLA+ configuration-equivalence monitor checked by TLC over merged per-step observations from four builds",
            "5/C06"),
    "C08": ("exploration",
            "PARTIAL (observed executions; source level and machine level). Monitor specification ConstTime.tla (2-safety non-interference over observed runs): an "
            "observation build - an AST rewriter applied through go -overlay, regenerated from the current tree on every run - reports every "
            "non-constant index, slice bound and if/for/tagless-switch condition of 13 packages (indices, bounds, conditions, short-circuit operands, switch tags); 41 secret-dependent operations "
            "x 24 (quick) / 96 (thorough) secrets of one public shape on the purego, force32bit and default builds must each yield ONE "
            "signature of the (site, value) stream; variable-time routines run as sensitivity controls and must yield several. A toy model "
            "(MC_C08) states the intended control skeletons for all 8-bit secrets and its leaky variants are checked to fail. Machine level: "
            "the uninstrumented library (assembly included) runs under valgrind/lackey; instruction-address and data-address signatures of "
            "library code per (operation, secret) on the default (AVX2) and noavx2 (SSE2) builds (thorough: purego too), two runs in "
            "opposite secret orders, go to the same monitor.",
            "NOT covered: the standard library and x/crypto (keccakf_amd64.s), variable-latency instructions, micro-architecture; secrets "
            "and operations are sampled; machine-level deviations that do not reproduce in both runs of a pair, and in a confirmation pair "
            "for the same secrets, are filtered; runtime routines the compiler substitutes for source operators (runtime.memequal for == on "
            "arrays: seeded defect C08-j is not detected) are outside the observation. Trusts TLC/SANY, the rewriter, valgrind.",
            "TLA+ non-interference monitor checked by TLC over branch/index signatures from an AST-instrumented observation build and over "
            "instruction/data-address signatures of the compiled library traced with valgrind",
            "5/C08 and 9"),
    "C14": ("model_checking",
            "H2C.tla holds RFC 9380 expand_message_xmd/xof with their loop structure, oversize-DST path and abort conditions; Elligator.tla "
            "the straight-line Elligator 2 definition plus the rational map with its exceptional cases. TLC checks on toy fields that the "
            "map is well defined for EVERY field element (on both curves, prime-order after x8) and the expansion's length/abort logic. At "
            "real scale TLC recomputes recorded expansions (DST length classes incl. 255/256/oversize x output length classes incl. 255b, "
            "255b+1, 65535, 65536 x SHA-224/256/384/512, SHAKE128/256), the six suites on random inputs, and internal/elligator on "
            "exceptional field inputs, with the hash functions as tables from the trace.",
            "Trusts TLC/SANY, BigNat/F25519, SHA-2/SHAKE implementations (tables; the spec rebuilds every input). Suite outputs are sampled "
            "(12 per configuration quick, 240 thorough).",
            "TLA+ transcription of RFC 9380: TLC on toy fields + real-scale TLC trace validation with hash-table oracles",
            "5/C14"),
    "C15": ("model_checking",
            "Ecvrf.tla states the algebra of RFC 9381 proving/verifying with the hashes as arguments; TLC checks on toy curves for EVERY key x "
            "input point x nonce x challenge value: completeness whatever the hash, the exact effect of a torsion-shifted Gamma, uniqueness "
            "of the output point, refusal of s + l and of small-order keys. At real scale TLC recomputes recorded proofs byte for byte from "
            "the seed (both challenge formats, added randomness) and re-decides recorded verifications from the bytes: honest, cross-version, "
            "bit flips, s+L, other key/alpha, short, torsion-shifted Gamma built with the secret, small-order-key forgeries for all 8 torsion "
            "points under both formats, non-canonical Gamma/key; verify's output must equal proof_to_hash.",
            "Trusts TLC/SANY, BigNat/F25519/Edwards, the H2C/Elligator modules (C14), SHA-512 as a table (inputs rebuilt by the spec). "
            "Each real-scale proof/verification costs 10-16 s of TLC time: 2 proof families per run quick, 32 x 4 configurations thorough.",
            "TLA+ RFC 9381 spec: exhaustive TLC at toy scale + real-scale TLC trace validation of recorded proofs and verifications",
            "5/C15"),
    "C12": ("model_checking",
            "TLC checks toy Schnorr in the Ristretto quotient for EVERY key x nonce x challenge (honest signatures verify under every coset "
            "representative, any other s or challenge is rejected, canonical key encodings). At real scale the specification composes "
            "Merlin.tla (Keccak-f written out), Ristretto.tla and the scalar field: TLC recomputes byte for byte recorded key expansions "
            "(uniform and Ed25519-style), public keys and signatures on the four transcript sources made with one reused signing context, "
            "re-decides verifications from the bytes (honest, bit flip, other message, s+L, other key, unmarked), judges the five decoders "
            "on boundary scalars / marker bit / invalid and non-canonical points / mismatched pairs / wrong lengths incl. "
            "marshal(unmarshal(b)) = b, and validates batch-verifier histories against Batch.tla.",
            "Trusts TLC/SANY and the composed modules (each bound to the code separately by C05, C11, C13), SHA-512 table for the "
            "Ed25519-style expansion; schnorrkel's definition is transcribed from the package's labels and checked against the repository's "
            "schnorrkel vector only indirectly (the unchanged tree passes both).",
            "TLA+ schnorrkel spec over Merlin/Keccak/Ristretto: toy-scale TLC + real-scale TLC trace validation of recorded keys, signatures, verifications, decoders and batch histories",
            "5/C12"),
}

NOT_YET = "check not built yet in this round (planned, see DESIGN.md section 11); not claimed until its machinery exists"


def main():
    props = [json.loads(l) for l in open(os.path.join(ROOT, "properties.jsonl"))]
    checks, na = [], []
    for p in props:
        i = p["id"]
        if i in CHECKS:
            cat, text, note, tech, ref = CHECKS[i]
            checks.append({
                "property_id": i,
                "quick_cmd": "./check %s --tier quick" % i,
                "thorough_cmd": "./check %s --tier thorough" % i,
                "evidence_file": "/verif/evidence/%s.json" % i,
                "replay_cmd_template": "./check %s --replay {path}" % i,
                "engine": "tlc-spec",
                "level_claimed": {"category": cat, "text": text, "design_ref": "DESIGN.md section " + ref},
                "level_note": note,
                "technique": tech,
            })
        else:
            na.append({"property_id": i, "reason": NA.get(i, NOT_YET)})
    hooks_commits = []
    hc = os.path.join(ROOT, "hook_commits.txt")
    if os.path.exists(hc):
        hooks_commits = [l.strip() for l in open(hc) if l.strip()]
    m = {
        "version": 1,
        "setup_cmd": "./check --setup",
        "hooks": {"guard": "verif", "enable": "go build/test -tags verif (only the LRU cache of primitives/ed25519/extra/cache has hooks)",
                  "baseline_off_cmd": BASELINE, "source_commits": hooks_commits, "add_only": True},
        "engines": [{"name": "tlc-spec", "path": "/verif/spec",
                     "serves_properties": [c["property_id"] for c in checks],
                     "kind_free_text": "explicit TLA+ specification: TLC exhaustive model checking at toy scale, TLC trace "
                                       "validation of recorded executions at real scale (BigNat layer), TLC-generated "
                                       "behaviours replayed into the Go code"}],
        "checks": checks,
        "not_applicable": na,
        "notes": "Driver: ./check <id> [--tier quick|thorough] [--replay path]; VERIF_SEED seeds every random choice. "
                 "Exit 2 = inconclusive (build/TLC failure), never a violation. Known findings: /verif/known_findings.json.",
    }
    json.dump(m, open(os.path.join(ROOT, "MANIFEST.json"), "w"), indent=1)
    print("MANIFEST.json: %d checks, %d not_applicable" % (len(checks), len(na)))


NA = {}

if __name__ == "__main__":
    main()
