#!/usr/bin/env python3
"""confirm_seed.py <srcdir> <name>: confirm a seeded defect produced by a sub-agent in a scratch
worktree of /repo (outside /repo and /verif): the patch applies, the library builds, the existing test
suite passes with it, the demonstration fails with it and passes without it. On success the defect is
stored as /verif/seeded/<name>/ (patch.diff, demo, meta.json)."""
import json, os, shutil, subprocess, sys, tempfile

src, name = sys.argv[1], sys.argv[2]
env = dict(os.environ, GOFLAGS="-mod=mod", GOPROXY="off", GOSUMDB="off", GOTOOLCHAIN="local")
wt = tempfile.mkdtemp(prefix="verif-confirm-")
os.rmdir(wt)
def sh(cmd, cwd=None, e=None):
    p = subprocess.run(cmd, shell=True, cwd=cwd, env=e or env, capture_output=True, text=True)
    return p.returncode, (p.stdout + p.stderr)[-3000:]
rc, out = sh("git -C /repo worktree add --detach %s HEAD" % wt)
assert rc == 0, out
try:
    meta = json.load(open(os.path.join(src, "meta.json")))
    demo_rel = open(os.path.join(src, "demo_path.txt")).read().strip()
    demo_file = os.path.join(src, os.path.basename(demo_rel))
    demo_cmd = meta["demo_cmd"]
    log = {}
    # demo passes without the change
    shutil.copy(demo_file, os.path.join(wt, demo_rel))
    rc, out = sh(demo_cmd, cwd=wt); log["demo_clean_rc"] = rc
    assert rc == 0, "demo fails on the clean tree:\n" + out
    os.remove(os.path.join(wt, demo_rel))
    rc, out = sh("git apply %s" % os.path.join(src, "patch.diff"), cwd=wt); assert rc == 0, out
    rc, out = sh("go build ./... && go test -vet=off -count=1 ./...", cwd=wt); log["suite_with_patch_rc"] = rc
    assert rc == 0, "suite fails with the patch:\n" + out
    shutil.copy(demo_file, os.path.join(wt, demo_rel))
    rc, out = sh(demo_cmd, cwd=wt); log["demo_patched_rc"] = rc
    assert rc != 0, "demo passes with the patch"
    dst = os.path.join("/verif/seeded", name)
    os.makedirs(dst, exist_ok=True)
    shutil.copy(os.path.join(src, "patch.diff"), dst)
    shutil.copy(demo_file, dst)
    meta["demo_path"] = demo_rel
    meta["confirmed"] = {"ran": ["demo on clean tree: pass", "go build ./... && go test -vet=off -count=1 ./... with patch: pass",
                                 "demo with patch: FAIL (as required)"], "log": log}
    json.dump(meta, open(os.path.join(dst, "meta.json"), "w"), indent=1)
    print("CONFIRMED", name, "-", meta.get("summary", "")[:150])
except AssertionError as ex:
    print("REJECTED", name, str(ex)[:1500])
finally:
    sh("git -C /repo worktree remove --force %s" % wt)
