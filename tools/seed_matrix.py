#!/usr/bin/env python3
"""seed_matrix.py [name ...]: run the quick checks against every seeded defect under /verif/seeded on a scratch
worktree of /repo (outside /repo and /verif, removed afterwards) and write /verif/seeded/RESULTS.md.
For each defect the checks of its own property run first; if they stay quiet, every other property's check named in
EXTRA below runs as well (some defects are visible through a neighbouring property)."""
import json, os, subprocess, sys, tempfile, time

ROOT = os.path.dirname(os.path.dirname(os.path.abspath(__file__)))
EXTRA = {"C07-a": ["C04"], "C08-b": [], "C02-b": ["C20", "C06"], "C06-b": ["C03"], "C11-b": ["C03"], "C19-b": ["C10"], "C09-b": ["C18"],
         "C12-c": ["C13"], "C12-d": ["C13"], "C15-d": ["C05"], "C19-c": ["C10"], "C19-d": ["C09"], "C18-d": ["C16", "C01"], "C16-d": ["C03"], "C11-c": ["C03"], "C02-d": ["C16", "C01"], "C03-e": ["C17"], "C03-f": ["C06"], "C01-e": ["C16"], "C01-f": ["C16", "C18"], "C06-e": ["C03"], "C06-f": ["C04", "C07"], "C07-f": ["C03", "C20"], "C19-e": ["C09", "C18"], "C19-f": ["C05"], "C12-e": ["C05"], "C18-f": ["C05"], "C11-e": ["C04"], "C20-e": ["C14"], "C03-g": ["C16"], "C10-h": ["C03"], "C04-g": ["C11"], "C01-h": ["C02"], "C06-g": ["C03"], "C06-h": ["C03"], "C12-h": ["C13"], "C19-h": ["C14"], "C20-h": ["C18"], "C17-h": ["C03"], "C11-g": ["C20"], "C18-g": ["C16"], "C19-g": ["C07"], "C02-i": ["C06"], "C06-i": ["C18"], "C11-j": ["C03"], "C19-i": ["C13"], "C19-j": ["C01"], "C02-j": ["C19"], "C14-j": ["C04"], "C18-i": ["C02"], "C20-i": ["C06", "C11"], "C02-k": ["C18"]}
NOWRITE = "--no-write" in sys.argv
sys.argv = [a for a in sys.argv if a != "--no-write"]
names = sys.argv[1:] or sorted(d for d in os.listdir(os.path.join(ROOT, "seeded")) if os.path.isdir(os.path.join(ROOT, "seeded", d)))
rows = []
for name in names:
    prop = name.split("-")[0]
    wt = tempfile.mkdtemp(prefix="verif-mut-")
    os.rmdir(wt)
    out = tempfile.mkdtemp(prefix="verif-mutout-")
    subprocess.run(["git", "-C", "/repo", "worktree", "add", "--detach", wt, "HEAD"], capture_output=True)
    try:
        p = subprocess.run(["git", "apply", os.path.join(ROOT, "seeded", name, "patch.diff")], cwd=wt, capture_output=True, text=True)
        if p.returncode != 0:
            rows.append((name, "patch does not apply", "", 0))
            continue
        env = dict(os.environ, VERIF_REPO=wt, VERIF_OUTDIR=out)
        caught_by, detail, t0 = [], "", time.time()
        for chk in [prop] + EXTRA.get(name, []):
            q = subprocess.run([os.path.join(ROOT, "check"), chk, "--tier", "quick"], cwd=ROOT, env=env, capture_output=True, text=True)
            if q.returncode == 1 and "VIOLATION property=" in q.stdout:
                caught_by.append(chk)
                if not detail:
                    lines = q.stdout.splitlines()
                    i = [k for k, l in enumerate(lines) if l.startswith("VIOLATION")][0]
                    detail = lines[i + 1].strip()[:220] if i + 1 < len(lines) else ""
            elif q.returncode == 2:
                detail = detail or "inconclusive: " + q.stdout.strip().splitlines()[-1][:160]
        meta = json.load(open(os.path.join(ROOT, "seeded", name, "meta.json")))
        rows.append((name, ", ".join(caught_by) if caught_by else "NOT CAUGHT", detail, round(time.time() - t0)))
        print(rows[-1], flush=True)
    finally:
        subprocess.run(["git", "-C", "/repo", "worktree", "remove", "--force", wt], capture_output=True)
        subprocess.run(["rm", "-rf", out])
if NOWRITE:
    sys.exit(0)
with open(os.path.join(ROOT, "seeded", "RESULTS.md"), "w") as f:
    f.write("# Seeded defects versus the quick checks\n\nEach defect was produced by a fresh sub-agent that saw only the property text, confirmed by "
            "tools/confirm_seed.py (applies, builds, existing suite passes, demonstration fails with it and passes without it), and run here "
            "with tools/seed_matrix.py on a scratch worktree.\n\n| defect | caught by (quick tier) | first report | s |\n|---|---|---|---|\n")
    for r in rows:
        f.write("| %s | %s | %s | %d |\n" % (r[0], r[1], r[2].replace("|", "/"), r[3]))
print("written", len(rows))
