"""./check --setup: offline preparation after a fresh restore. Parses every specification module with
SANY and warms the Go build cache for the harness; builds nothing that a check would not rebuild itself."""
import os
import shutil
import subprocess
import sys
import tempfile

import vlib


def main():
    d = tempfile.mkdtemp(prefix="verif-setup-")
    bad = 0
    try:
        for sub in sorted(os.listdir(os.path.join(vlib.ROOT, "spec"))):
            p = os.path.join(vlib.ROOT, "spec", sub)
            if os.path.isdir(p):
                for f in os.listdir(p):
                    if f.endswith(".tla"):
                        shutil.copy(os.path.join(p, f), d)
        # modules for Apalache (spec/apalache) extend Apalache.tla, which ships with Apalache, not with tla2tools
        apa = set(os.listdir(os.path.join(vlib.ROOT, "spec", "apalache"))) if os.path.isdir(os.path.join(vlib.ROOT, "spec", "apalache")) else set()
        mods = sorted(f for f in os.listdir(d) if f.endswith(".tla"))
        for f in mods:
            if f in apa:
                p = subprocess.run(["apalache-mc", "parse", "--out-dir=" + os.path.join(d, "_apa"), f], cwd=d, capture_output=True, text=True)
                if p.returncode != 0:
                    print("APALACHE PARSE FAILED", f, (p.stdout + p.stderr)[-800:])
                    bad += 1
                continue
            p = subprocess.run(["java", "-cp", vlib.JAR, "tla2sany.SANY", f], cwd=d, capture_output=True, text=True)
            if p.returncode != 0 or "*** Errors" in p.stdout or "Fatal" in p.stdout:
                print("SANY FAILED", f, p.stdout[-800:])
                bad += 1
        print("setup: %d specification modules parsed, %d failed" % (len(mods), bad))
        h = os.path.join(vlib.ROOT, "harness")
        shutil.copy(os.path.join(vlib.REPO, "go.sum"), os.path.join(h, "go.sum"))
        p = subprocess.run(["go", "build", "-o", os.devnull, "./cmd/rec"], cwd=h, env=vlib.goenv(), capture_output=True, text=True)
        if p.returncode != 0:
            print("setup: harness build failed\n" + p.stderr[-2000:])
            bad += 1
    finally:
        shutil.rmtree(d, ignore_errors=True)
    return 1 if bad else 0


if __name__ == "__main__":
    sys.exit(main())
