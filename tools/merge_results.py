#!/usr/bin/env python3
"""merge_results.py <log ...>: merge the rows printed by tools/seed_matrix.py runs (later logs override earlier ones) into
seeded/RESULTS.md, keeping the rows that are already there for defects the logs do not mention."""
import ast
import os
import re
import sys

ROOT = os.path.dirname(os.path.dirname(os.path.abspath(__file__)))
path = os.path.join(ROOT, "seeded", "RESULTS.md")
head, rows = [], {}
for line in open(path):
    m = re.match(r"\| (C\d\d-[a-z]) \| (.*?) \| (.*) \| (\d+) \|$", line.rstrip("\n"))
    if m:
        rows[m.group(1)] = (m.group(2), m.group(3), int(m.group(4)))
    elif not rows:
        head.append(line)
for log in sys.argv[1:]:
    for line in open(log):
        if line.startswith("('C"):
            try:
                name, caught, detail, secs = ast.literal_eval(line.strip())
            except Exception:
                continue
            rows[name] = (caught, detail.replace("|", "/"), secs)
with open(path, "w") as f:
    f.writelines(head)
    for name in sorted(rows):
        if not os.path.isdir(os.path.join(ROOT, "seeded", name)):
            continue
        f.write("| %s | %s | %s | %d |\n" % ((name,) + rows[name]))
print(len(rows), "rows;", sum(1 for r in rows.values() if r[0] == "NOT CAUGHT"), "not caught")
