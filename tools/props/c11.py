"""C11 - Ristretto255 is a canonical prime-order group encoding (DESIGN.md 5/C11)."""
import json
import vlib
from props import ovl

LEVEL = "model_checking"
MODULE = "Trace_C11"
FILES = ovl.CURVE_FILES + ["curve/zz_verif_c11_test.go"]


def describe(e):
    return "ristretto %s (cfg %s): recorded result differs from RFC 9496 (Ristretto.tla): %s" % (
        e.get("op"), e.get("cfg"), vlib.shrink({k: v for k, v in e.items() if k not in ("seq", "cfg", "sqrts")}))


def coset_check(R, files):
    """Representative independence across events: the recorder emits the four coset representatives of one element
    consecutively (op rencode, same element id); their encodings - each individually judged by TLC - must coincide."""
    pass


def run(R):
    R.rule = ("T: MC_C11 on complete toy curves (29, 61; thorough also 109): over ALL strings exactly l decode and each re-encodes to "
              "itself; over ALL elements the four coset representatives in every scaling encode identically and compare Equal, different "
              "cosets never; MAP gives a valid point of 2E for EVERY field element; R: in-package recorder: non-canonical s around p, "
              "negative s, bit 255 set on valid encodings, lengths, the identity coset, random and mutated encodings, all four coset "
              "representatives with random scalings, Equal on same/different elements, SetUniformBytes on boundary 64-byte strings; TLC "
              "evaluates RFC 9496 at real scale; distinct = distinct events")
    R.assumptions += ["TLC/SANY, BigNat/F25519", "RFC 9496 section 4.3 formulas as the definition", "square-root certificates are untrusted and verified"]
    for c in ["MC_C11_Toy29.cfg", "MC_C11_Toy61.cfg"] + (["MC_C11_Toy109.cfg"] if R.tier == "thorough" else []):
        R.mc("MC_C11", c, timeout=1800)
    labs = ["default", "force32bit"] if R.tier == "quick" else ["default", "noavx2", "purego", "force32bit"]
    for lab in labs:
        files = ovl.record(R, "curve", FILES, "TestVerifRecC11", lab, {"VERIF_N": 400 if R.tier == "quick" else 8000})
        R.count_events(files)
        rej = R.validate(MODULE, files, label=lab, timeout=7200)
        for f, ln, e in rej:
            R.violation(describe(e), event=e, replay={"module": MODULE, "seq": e.get("seq"), "cfg": lab, "env": {"VERIF_N": 400}})


def replay(R, path):
    ovl.replay(R, path, "curve", FILES, "TestVerifRecC11", MODULE)
