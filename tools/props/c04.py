"""C04 - field arithmetic exact modulo 2^255-19 for every representable input (DESIGN.md 5/C04)."""
import json
import os
import tempfile

import vlib
from props.common import CONFIGS, report_rejects

LEVEL = "model_checking"
MODULE = "Trace_C04"
FILES = ["internal/field/zz_verif_rec_test.go", "internal/field/zz_verif_u64_test.go", "internal/field/zz_verif_u32_test.go"]


def describe(e):
    return "internal/field %s on backend %s (cfg %s): result is not the exact value mod 2^255-19 (or not canonical); event=%s" % (
        e.get("op"), e.get("bk"), e.get("cfg"), vlib.shrink({k: v for k, v in e.items() if k not in ("seq",)}))


def record(R, lab, n):
    tags, env = CONFIGS[lab]
    out = tempfile.mkdtemp(prefix="c04-", dir=R.scratch)
    e = dict(env, VERIF_OUT=out, VERIF_SEED=str(R.seed), VERIF_CFG=lab, VERIF_N=str(n), VERIF_SHARDS=str(vlib.NCPU))
    R.overlay_test("internal/field", FILES, "TestVerifRecC04", tags=tags, env=e)
    R.cov["configs"].append(lab)
    return sorted(os.path.join(out, f) for f in os.listdir(out) if os.path.getsize(os.path.join(out, f)) > 0)


def run(R):
    R.rule = ("R: in-package recorder (go test -overlay) builds field elements from raw limbs: all 2^5 x 2^5 corners of the "
              "admissible box (limb in {0, max headroom}) for sub/mul, canonicalisation boundaries (p-1..2^255-1 in two "
              "representations), one-past-nominal limbs, carry extremes of the 121666 multiplication, operation chains, "
              "seeded random limbs anywhere in the headroom; every operation of internal/field on the amd64 assembly, the "
              "portable 64-bit code (feMulGeneric/fePow2kGeneric directly and the purego build), the 32-bit backend and the AVX2 vector "
              "lanes (fieldElement2625x4 Mul / SquareAndNegateD / Reduce / Neg / ConditionalSelect / Split from raw lanes with bit excess 1.5); "
              "TLC evaluates the F_p specification (BigNat) on every event; distinct = distinct (op, backend, inputs)")
    if os.environ.get("VERIF_C04_ONLY") == "word":     # development aid: the word-level layer alone
        return word_level(R)
    R.assumptions += ["TLC/SANY, CommunityModules overrides", "BigNat/F25519 layer", "go test -overlay",
                      "sqrt_ratio_i judged by its certificate form, proved equivalent to the declarative contract on the toy fields (MC_Edwards)"]
    # the field-level algorithms of the oracle (sqrt_ratio_i, its certificate form, inversion) against their
    # declarative definitions on a complete toy field
    R.mc("MC_Edwards", "MC_Edwards_Toy29.cfg", timeout=900)
    n = 2000 if R.tier == "quick" else 40000
    for lab in (["default", "purego", "force32bit"]):
        files = record(R, lab, n)
        R.count_events(files, key=lambda e: e.get("bk", "?") + ":" + e.get("op", "?"))
        rej = R.validate(MODULE, files, label=lab, timeout=3000)
        report_rejects(R, rej, describe, {"module": MODULE, "n": n})
    # fourth backend: AVX2 vector lanes (only when the CPU has AVX2; recorded in the evidence)
    from props import ovl
    files = ovl.record(R, "curve", ovl.CURVE_FILES + ["curve/zz_verif_c04_amd64_test.go"], "TestVerifRecC04Vec", "default",
                       {"VERIF_N": 600 if R.tier == "quick" else 12000})
    R.cov["avx2_lanes_live"] = bool(files)
    if files:
        R.count_events(files, key=lambda e: "avx2:" + e.get("op", "?"))
        rej = R.validate(MODULE, files, label="default/avx2-lanes", timeout=3000)
        report_rejects(R, rej, describe, {"module": MODULE, "n": n})
    else:
        R.notes.append("AVX2 not available on this host: vector lanes not exercised limb by limb")
    word_level(R)


SHADOW_RECS = ["C01", "C02", "C05", "C07", "C09", "C12", "C13", "C14", "C15"]


def word_level(R):
    """The word-level layer: toy-scale soundness of the bound calculus (MC_C04w), shadow execution of limb bounds through the
    real radix-2^51 code (purego build: the rewritten CURRENT field_u64.go + overlay/shadow hooks) under the recorders of the
    other properties, every distinct transfer instance judged by FieldWords.tla at real scale (Trace_C04w), and the bound
    vectors replayed as concrete limbs into the real operations (all three 64-bit code paths) for the value-level check."""
    import subprocess
    import sys
    from concurrent.futures import ThreadPoolExecutor
    from props import ovl
    quick = R.tier == "quick"
    r = R.mc("MC_C04w", "MC_C04w_2x3q.cfg" if quick else "MC_C04w_2x3.cfg", timeout=1800)
    if not quick:
        R.mc("MC_C04w", "MC_C04w_3x3.cfg", timeout=3600)
    w = R.mc("MC_C04w", "MC_C04w_weak.cfg", timeout=900, expect_ok=False)
    if w["invariant"] != "Inv":
        raise vlib.Inconclusive("self-test: MC_C04w with the carry conditions dropped from Pre must violate Inv:\n" + vlib.tail(w["out"]))
    nv = R.mc("MC_C04w", "MC_C04w_nonvac.cfg", timeout=900, expect_ok=False)
    if nv["invariant"] != "NonVac":
        raise vlib.Inconclusive("self-test: MC_C04w must reach states with Pre true and every limb beyond the nominal width:\n" + vlib.tail(nv["out"]))
    # shadow build from the current tree
    gen = os.path.join(R.scratch, "shadow_field_u64.go")
    p = subprocess.run([sys.executable, os.path.join(vlib.ROOT, "tools", "shadowgen.py"), vlib.REPO, gen], capture_output=True, text=True)
    if p.returncode != 0:
        raise vlib.Inconclusive("shadowgen: " + p.stdout + p.stderr)
    repl = {os.path.join(vlib.REPO, "internal/field/field_u64.go"): gen,
            os.path.join(vlib.REPO, "internal/field/zz_verif_shadow.go"): os.path.join(vlib.ROOT, "overlay/shadow/internal/field/zz_verif_shadow.go")}
    binary = R.build("rec", tags=("purego",), name="rec-shadow", overlay=repl)
    sdir = tempfile.mkdtemp(prefix="shadow-", dir=R.scratch)
    senv = {"VERIF_SHADOW_OUT": os.path.join(sdir, "sh")}

    def one(prop):
        od = tempfile.mkdtemp(prefix="shrec-", dir=R.scratch)
        R.record(binary, prop=prop, cfg="purego", env=senv, shards=1, outdir=od)
        return prop
    with ThreadPoolExecutor(max_workers=len(SHADOW_RECS)) as ex:
        list(ex.map(one, SHADOW_RECS))
    # in-package recorders of package curve (projective scalings, torsion, every scalar multiplication routine, Ristretto, tables)
    tags, env = CONFIGS["purego"]
    for test, files, envx in [("TestVerifRecC03", ovl.CURVE_FILES, {"VERIF_N": 40 if quick else 300, "VERIF_BIG": 1}),
                              ("TestVerifRecC10", ovl.CURVE_FILES, {"VERIF_N": 300 if quick else 3000, "VERIF_NTF": 2}),
                              ("TestVerifRecC11", ovl.CURVE_FILES + ["curve/zz_verif_c11_test.go"], {"VERIF_N": 200 if quick else 2000})]:
        od = tempfile.mkdtemp(prefix="shovl-", dir=R.scratch)
        e = dict(env, VERIF_OUT=od, VERIF_SEED=str(R.seed), VERIF_CFG="purego", VERIF_SHARDS="1", **senv)
        e.update({k: str(v) for k, v in envx.items()})
        R.overlay_test("curve", files, test, tags=tags, env=e, extra_replace=repl)
    inst = {}
    for f in sorted(os.listdir(sdir)):
        for line in open(os.path.join(sdir, f)):
            ev = json.loads(line)
            key = json.dumps([ev["op"], ev["k"], ev["a"], ev["b"], ev["out"], ev.get("what")])
            inst.setdefault(key, ev)
    evs = list(inst.values())
    if len(evs) < 100:
        raise vlib.Inconclusive("shadow execution produced only %d transfer instances" % len(evs))
    shards = [[] for _ in range(vlib.NCPU)]
    for i, ev in enumerate(evs):
        ev["seq"] = i + 1
        ev["cfg"] = "purego-shadow"
        shards[i % vlib.NCPU].append(ev)
    files = []
    for i, sh in enumerate(shards):
        if sh:
            fp = os.path.join(sdir, "inst-%02d.ndjson" % i)
            open(fp, "w").write("".join(json.dumps(x) + "\n" for x in sh))
            files.append(fp)

    def val(limb):
        return sum(b << (8 * j) for j, b in enumerate(limb))
    maxbits = {}
    for ev in evs:
        m = max([val(l) for l in ev["a"]] + [val(l) for l in ev["b"]])
        maxbits[ev["op"]] = max(maxbits.get(ev["op"], 0), m.bit_length())
        k = "shadow:" + ev["op"]
        R.cov["events_by_op"][k] = R.cov["events_by_op"].get(k, 0) + 1
    R.cov["word_level"] = {"transfer_instances": len(evs), "max_operand_limb_bits_by_op": maxbits,
                           "workloads": SHADOW_RECS + ["curve:C03", "curve:C10", "curve:C11"]}
    for ev in evs:
        R.distinct.add(hash(json.dumps([ev["op"], ev["k"], ev["a"], ev["b"]])))
    rej = R.validate("Trace_C04w", files, label="purego/shadow", timeout=3000)
    for f, ln, ev in rej:
        if ev["op"] == "exceed":
            what = ("internal/field (radix 2^51): at %s a concrete limb exceeds the bound derived for it by the word-level specification "
                    "(limbs %s, bounds %s)" % (ev.get("what"), [val(l) for l in ev["a"]], [val(l) for l in ev["b"]]))
        else:
            what = ("internal/field (radix 2^51) %s: on an executed path the operands' limb bounds %s / %s (k=%s) leave the region in which "
                    "FieldWords.tla shows that no 64/128-bit intermediate wraps (or the result bound %s is below the derived one)" % (
                        ev["op"], [val(l).bit_length() for l in ev["a"]], [val(l).bit_length() for l in ev["b"]], ev["k"],
                        [val(l).bit_length() for l in ev["out"]]))
        R.violation(what, event=vlib.shrink(ev), replay={"module": "Trace_C04w", "word_level": True}, key=None)
    # G: the bound vectors as concrete limbs through the real operations (assembly, portable 64-bit twice)
    ext = os.path.join(sdir, "extremal.ndjson")
    open(ext, "w").write("".join(json.dumps(x) + "\n" for x in evs if x["op"] in ("mul", "add", "sub", "square", "square2", "mul121666", "neg", "tobytes", "pow2k")))
    for lab in ["default", "purego"]:
        tags, env = CONFIGS[lab]
        out = tempfile.mkdtemp(prefix="c04x-", dir=R.scratch)
        e = dict(env, VERIF_OUT=out, VERIF_SEED=str(R.seed), VERIF_CFG=lab, VERIF_SHARDS=str(vlib.NCPU), VERIF_EXTREMAL=ext)
        R.overlay_test("internal/field", FILES, "TestVerifRecC04", tags=tags, env=e)
        xfiles = sorted(os.path.join(out, f) for f in os.listdir(out) if os.path.getsize(os.path.join(out, f)) > 0)
        R.count_events(xfiles, key=lambda e: "extremal:" + e.get("bk", "?") + ":" + e.get("op", "?"))
        rej = R.validate(MODULE, xfiles, label=lab + "/extremal", timeout=3000)
        report_rejects(R, rej, describe, {"module": MODULE, "extremal": True})


def replay(R, path):
    body = json.load(open(path))
    rp = body.get("replay", {})
    R.seed = body.get("seed", R.seed)
    if rp.get("word_level") or rp.get("extremal"):
        word_level(R)
        return
    lab = rp.get("cfg") or "default"
    files = record(R, lab, rp.get("n", 2000))
    one = os.path.join(R.scratch, "replay.ndjson")
    found = None
    for f in files:
        for line in open(f):
            if json.loads(line).get("seq") == rp.get("seq"):
                found = line
    if found is None:
        raise vlib.Inconclusive("replay: event not reproduced by the recorder")
    open(one, "w").write(found)
    for f, ln, e in R.validate(MODULE, [one]):
        R.violation(body.get("what", "replayed event rejected"), event=e, replay=rp, key=body.get("key"))
