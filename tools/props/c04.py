"""C04 - field arithmetic exact modulo 2^255-19 for every representable input (DESIGN.md 5/C04)."""
import json
import os
import tempfile

import vlib
from props.common import CONFIGS, report_rejects

LEVEL = "model_checking"
MODULE = "Trace_C04"
FILES = ["internal/field/zz_verif_rec_test.go", "internal/field/zz_verif_u64_test.go", "internal/field/zz_verif_u32_test.go"]


def describe(e):
    return "internal/field %s on backend %s (cfg %s): result is not the exact value mod 2^255-19 (or not canonical); event=%s" % (
        e.get("op"), e.get("bk"), e.get("cfg"), vlib.shrink({k: v for k, v in e.items() if k not in ("seq",)}))


def record(R, lab, n):
    tags, env = CONFIGS[lab]
    out = tempfile.mkdtemp(prefix="c04-", dir=R.scratch)
    e = dict(env, VERIF_OUT=out, VERIF_SEED=str(R.seed), VERIF_CFG=lab, VERIF_N=str(n), VERIF_SHARDS=str(vlib.NCPU))
    R.overlay_test("internal/field", FILES, "TestVerifRecC04", tags=tags, env=e)
    R.cov["configs"].append(lab)
    return sorted(os.path.join(out, f) for f in os.listdir(out) if os.path.getsize(os.path.join(out, f)) > 0)


def run(R):
    R.rule = ("R: in-package recorder (go test -overlay) builds field elements from raw limbs: all 2^5 x 2^5 corners of the "
              "admissible box (limb in {0, max headroom}) for sub/mul, canonicalisation boundaries (p-1..2^255-1 in two "
              "representations), one-past-nominal limbs, carry extremes of the 121666 multiplication, operation chains, "
              "seeded random limbs anywhere in the headroom; every operation of internal/field on the amd64 assembly, the "
              "portable 64-bit code (feMulGeneric/fePow2kGeneric directly and the purego build), the 32-bit backend and the AVX2 vector "
              "lanes (fieldElement2625x4 Mul / SquareAndNegateD / Reduce / Neg / ConditionalSelect / Split from raw lanes with bit excess 1.5); "
              "TLC evaluates the F_p specification (BigNat) on every event; distinct = distinct (op, backend, inputs)")
    R.assumptions += ["TLC/SANY, CommunityModules overrides", "BigNat/F25519 layer", "go test -overlay",
                      "sqrt_ratio_i judged by its certificate form, proved equivalent to the declarative contract on the toy fields (MC_Edwards)"]
    # the field-level algorithms of the oracle (sqrt_ratio_i, its certificate form, inversion) against their
    # declarative definitions on a complete toy field
    R.mc("MC_Edwards", "MC_Edwards_Toy29.cfg", timeout=900)
    n = 2000 if R.tier == "quick" else 40000
    for lab in (["default", "purego", "force32bit"]):
        files = record(R, lab, n)
        R.count_events(files, key=lambda e: e.get("bk", "?") + ":" + e.get("op", "?"))
        rej = R.validate(MODULE, files, label=lab, timeout=3000)
        report_rejects(R, rej, describe, {"module": MODULE, "n": n})
    # fourth backend: AVX2 vector lanes (only when the CPU has AVX2; recorded in the evidence)
    from props import ovl
    files = ovl.record(R, "curve", ovl.CURVE_FILES + ["curve/zz_verif_c04_amd64_test.go"], "TestVerifRecC04Vec", "default",
                       {"VERIF_N": 600 if R.tier == "quick" else 12000})
    R.cov["avx2_lanes_live"] = bool(files)
    if files:
        R.count_events(files, key=lambda e: "avx2:" + e.get("op", "?"))
        rej = R.validate(MODULE, files, label="default/avx2-lanes", timeout=3000)
        report_rejects(R, rej, describe, {"module": MODULE, "n": n})
    else:
        R.notes.append("AVX2 not available on this host: vector lanes not exercised limb by limb")


def replay(R, path):
    body = json.load(open(path))
    rp = body.get("replay", {})
    R.seed = body.get("seed", R.seed)
    lab = rp.get("cfg") or "default"
    files = record(R, lab, rp.get("n", 2000))
    one = os.path.join(R.scratch, "replay.ndjson")
    found = None
    for f in files:
        for line in open(f):
            if json.loads(line).get("seq") == rp.get("seq"):
                found = line
    if found is None:
        raise vlib.Inconclusive("replay: event not reproduced by the recorder")
    open(one, "w").write(found)
    for f, ln, e in R.validate(MODULE, [one]):
        R.violation(body.get("what", "replayed event rejected"), event=e, replay=rp, key=body.get("key"))
