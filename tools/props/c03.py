"""C03 - group law and every scalar-multiplication routine (DESIGN.md 5/C03)."""
import vlib
from props import ovl

LEVEL = "model_checking"
MODULE = "Trace_C03"


def describe(e):
    d = {k: v for k, v in e.items() if k not in ("seq", "op", "cfg", "terms", "pts", "invs")}
    d["nterms"] = len(e.get("terms", []))
    d["scalars"] = [t["s"] for t in e.get("terms", [])[:3]]
    return "curve %s/%s (cfg %s): result is not the group sum of [s_i]P_i: %s" % (e.get("op"), e.get("kind"), e.get("cfg"), vlib.shrink(d))


def run(R):
    R.rule = ("T: MC_C03: the loops of every scalar-multiplication routine (ScalarMul.tla: variable base serial/vector, table-driven "
              "fixed base, Straus constant-time and NAF, double base with its starting index, Pippenger with both running sums at two "
              "window widths, ABGLSV-Pornin with its sign handling and split) fed with the digit sequences of Recoding.tla return "
              "sum [s_i]P_i on a complete toy group for every point and (thorough) every 15-bit scalar; MC_Edwards on complete toy curves: every formula variant (add, sub, double, mixed Niels add/sub, neg, x8) equals the "
              "affine law for every point pair in several projective scalings, double-and-add equals repeated addition for every point "
              "and every (unreduced) scalar string; R: in-package recorder: all 8x8 torsion pairs, mixed-order points in random "
              "scalings, Mul / MulBasepoint (live table, packed generic table, run-time built table) / double-base / constant-time and "
              "variable-time multiscalar / expanded variants with boundary and unreduced 255-bit scalars, term counts 0..8 and the "
              "Straus/Pippenger thresholds; TLC recomputes sum [s_i]P_i at real scale; distinct = distinct events")
    R.assumptions += ["TLC/SANY, CommunityModules overrides", "BigNat/F25519", "Element.ToBytes for reading coordinates (C04)",
                      "grouping of equal points in large multiscalar events (linearity of scalar multiplication)"]
    R.mc("MC_C03", "MC_C03_Toy29.cfg" if R.tier == "quick" else "MC_C03_Toy29_full.cfg", timeout=5400)
    for c in ["MC_Edwards_Toy29.cfg"] + (["MC_Edwards_Toy61.cfg", "MC_Edwards_Toy109.cfg"] if R.tier == "thorough" else []):
        R.mc("MC_Edwards", c, timeout=3000)
    plan = [("default", {"VERIF_N": 36, "VERIF_BIG": 1}), ("noavx2", {"VERIF_N": 18, "VERIF_BIG": 0})]
    if R.tier == "thorough":
        plan = [("default", {"VERIF_N": 300, "VERIF_BIG": 2}), ("noavx2", {"VERIF_N": 120, "VERIF_BIG": 2}),
                ("purego", {"VERIF_N": 120, "VERIF_BIG": 2}), ("force32bit", {"VERIF_N": 120, "VERIF_BIG": 2})]
    for lab, envx in plan:
        files = ovl.record(R, "curve", ovl.CURVE_FILES, "TestVerifRecC03", lab, envx)
        R.count_events(files, key=lambda e: e.get("op", "?") + ":" + e.get("kind", "?"))
        rej = R.validate(MODULE, files, label=lab, timeout=6000)
        for f, ln, e in rej:
            R.violation(describe(e), event=e, replay={"module": MODULE, "seq": e.get("seq"), "cfg": lab, "env": envx})


def replay(R, path):
    ovl.replay(R, path, "curve", ovl.CURVE_FILES, "TestVerifRecC03", MODULE)
