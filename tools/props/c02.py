"""C02 - Ed25519 key generation and signing (DESIGN.md 5/C02)."""
import vlib
from props.common import record_configs, replay_recorded

LEVEL = "model_checking"
MODULE = "Trace_C02"


def describe(e):
    d = {k: v for k, v in e.items() if k not in ("seq", "sha", "cfg")}
    return "ed25519 signing (%s, cfg %s) deviates from the specification: %s" % (e.get("op"), e.get("cfg"), vlib.shrink(d))


def run(R):
    R.rule = ("T: MC_C02 on toy curves: every key x nonce x challenge: canonical R, S < l, accepted under all legal option vectors "
              "(exactly when small-order R is allowed or r # 0; always under the four presets), rejected for every other S, every other "
              "challenge and a wrong length; G: the COMPLETE option-validation lattice (hash x context length x message length x key "
              "length x AddedRandomness x SelfVerify x entropy failure x verify preset, 9216 tuples) against OptionError; R: signatures "
              "(pure/ctx/ph, with and without added randomness, seeds searched for extreme fixed-base digits) recomputed byte for byte at "
              "real scale from the seed, compared with crypto/ed25519, verified under every preset and in a mixed batch, rejected after "
              "bit flips; distinct = distinct events")
    R.assumptions += ["TLC/SANY, CommunityModules overrides", "BigNat/F25519/Edwards", "SHA-512 (Go standard library) as a table; the spec rebuilds every hash input"]
    R.mc("MC_C02", "MC_C02_Toy29.cfg", timeout=900)
    if R.tier == "thorough":
        R.mc("MC_C02", "MC_C02_Toy109.cfg", timeout=1800)
    labs = ["default", "noavx2"] if R.tier == "quick" else ["default", "noavx2", "purego", "force32bit"]
    recs = record_configs(R, labs)
    for lab, files in recs.items():
        R.count_events(files)
        rej = R.validate(MODULE, files, label=lab, timeout=7200)
        for f, ln, e in rej:
            R.violation(describe(e), event=e, replay={"module": MODULE, "seq": e.get("seq"), "cfg": lab})


def replay(R, path):
    replay_recorded(R, path, MODULE)
