"""C17 - scalar digit recodings (DESIGN.md section 5/C17)."""
from props.common import record_configs, report_rejects, replay_recorded
import vlib

LEVEL = "model_checking"
MODULE = "Trace_C17"


def describe(e):
    return "Scalar recoding %s w=%s (cfg %s) violates its postcondition (reconstruction / digit bounds); scalar=%s digits=%s" % (
        e.get("op"), e.get("w", "-"), e.get("cfg"), vlib.shrink(e.get("a")), e.get("out"))


def run(R):
    R.rule = ("T: MC_C17 - NonAdjacentForm/ToRadix16/ToRadix2w transcribed with their word-window extraction, every scalar of "
              "the toy sizes (15 bits; 4x4-bit and 2x8-bit words): reconstruction and digit bounds; R: recorded digit arrays "
              "of the real API for the boundary family (carry chains ..7777/..8888/2^k-1 at every length, word-seam all-ones, "
              "kL+e, 2^255-1) and seeded random scalars checked against the same postconditions with BigNat reconstruction; "
              "distinct = distinct (op, w, scalar)")
    R.assumptions += ["TLC/SANY, CommunityModules overrides", "BigNat layer"]
    for cfg in (("MC_C17_4x4.cfg", "MC_C17_8x2.cfg") if R.tier == "thorough" else ("MC_C17_4x4.cfg",)):
        R.mc("MC_C17", cfg, timeout=1200)
    recs = record_configs(R, ["default"] + (["force32bit"] if R.tier == "thorough" else []))
    for lab, files in recs.items():
        R.count_events(files)
        rej = R.validate(MODULE, files, label=lab)
        report_rejects(R, rej, describe, {"module": MODULE})


def replay(R, path):
    replay_recorded(R, path, MODULE)
