"""Shared driver code for properties whose recorder is an in-package overlay test."""
import json
import os
import tempfile

import vlib
from props.common import CONFIGS

CURVE_FILES = ["curve/zz_verif_common_test.go", "curve/zz_verif_c10_test.go", "curve/zz_verif_c20_test.go", "curve/zz_verif_c03_test.go",
               "curve/zz_verif_vec_amd64_test.go", "curve/zz_verif_vec_generic_test.go"]


def record(R, pkg, files, test, lab, envx):
    tags, env = CONFIGS[lab]
    out = tempfile.mkdtemp(prefix="ovl-", dir=R.scratch)
    e = dict(env, VERIF_OUT=out, VERIF_SEED=str(R.seed), VERIF_CFG=lab, VERIF_SHARDS=str(vlib.NCPU))
    e.update({k: str(v) for k, v in envx.items()})
    R.overlay_test(pkg, files, test, tags=tags, env=e)
    if lab not in R.cov["configs"]:
        R.cov["configs"].append(lab)
    return sorted(os.path.join(out, f) for f in os.listdir(out) if os.path.getsize(os.path.join(out, f)) > 0)


def replay(R, path, pkg, files, test, module):
    body = json.load(open(path))
    rp = body.get("replay", {})
    R.seed = body.get("seed", R.seed)
    lab = rp.get("cfg") or "default"
    fs = record(R, pkg, files, test, lab, rp.get("env", {}))
    one = os.path.join(R.scratch, "replay.ndjson")
    found = None
    for f in fs:
        for line in open(f):
            if json.loads(line).get("seq") == rp.get("seq"):
                found = line
    if found is None:
        raise vlib.Inconclusive("replay: event not reproduced by the recorder")
    open(one, "w").write(found)
    for f, ln, e in R.validate(module, [one], timeout=3000):
        R.violation(body.get("what", "replayed event rejected"), event=e, replay=rp, key=body.get("key"))
    if not R.violations:
        print("replay: the event is now accepted by the specification")
