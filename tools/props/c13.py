"""C13 - Merlin/STROBE transcripts follow the specification for every operation history (DESIGN.md 5/C13)."""
import vlib
from props import ovl
from props.common import record_configs

LEVEL = "model_checking"
MODULE = "Trace_C13"
FILES = ["internal/strobe/zz_verif_c13_test.go"]


def describe(e):
    return ("Merlin/STROBE history %s (cfg %s): operation %s is not a step of Merlin.tla / Strobe.tla / Keccak.tla (extracted bytes, state or "
            "cursor differ): %s" % (e.get("hist", "-"), e.get("cfg"), e.get("op"), vlib.shrink({k: v for k, v in e.items() if k not in ("seq", "cfg", "st")})))


def run(R):
    R.rule = ("T: MC_C13: Strobe.tla/Merlin.tla with a toy rate and an UNINTERPRETED permutation (symbolic cells, the state carries its "
              "sponge transcript): over all Merlin histories of the toy universe (labels and messages with lengths around the rate "
              "boundary) the map history -> sponge transcript is injective, i.e. histories differing in any label, message, split or "
              "order give different challenges under an ideal permutation; cursor invariants; R: histories recorded through the public "
              "merlin API (appends, extractions, clones, RNG builders with witness re-keying, finalisation and reads; lengths biased to "
              "163..168 and 330..334 around the rate 166) and raw STROBE operation histories recorded inside internal/strobe (incl. `more` "
              "continuations, cursor and full state after every call) plus Keccak-f[1600] alone on boundary states, on the assembly and "
              "the Go permutation, replayed by TLC with Keccak written out in TLA+; distinct = distinct events")
    R.assumptions += ["TLC/SANY, CommunityModules Bitwise overrides", "ideal-permutation assumption for the injectivity statement (toy model)"]
    R.mc("MC_C13", "MC_C13.cfg", timeout=1800)
    if R.tier == "thorough":
        R.mc("MC_C13", "MC_C13_r5.cfg", timeout=3600)
    labs = ["default", "purego"]
    n = 24 if R.tier == "quick" else 600
    recs = record_configs(R, labs, n=n)
    for lab in labs:
        files = recs[lab] + ovl.record(R, "internal/strobe", FILES, "TestVerifRecC13", lab, {"VERIF_N": 16 if R.tier == "quick" else 300})
        R.count_events(files)
        rej = R.validate(MODULE, files, label=lab, timeout=3600)
        for f, ln, e in rej:
            R.violation(describe(e), event=e, replay={"module": MODULE, "cfg": lab})


def replay(R, path):
    run(R)
