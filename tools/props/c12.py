"""C12 - sr25519: complete, mutation-rejecting, schnorrkel-exact, canonical encodings (DESIGN.md 5/C12)."""
import vlib
from props.common import record_configs

LEVEL = "model_checking"
MODULE = "Trace_C12"


def describe(e):
    return "sr25519 %s/%s (cfg %s): result differs from the schnorrkel specification: %s" % (
        e.get("op"), e.get("kind", e.get("mode", e.get("tkind", ""))), e.get("cfg"), vlib.shrink({k: v for k, v in e.items() if k not in ("seq", "cfg", "sha")}))


def run(R):
    R.rule = ("T: MC_C12 on toy curves: Schnorr in the Ristretto quotient for EVERY key x nonce x challenge: honest signatures verify under "
              "every coset representative of R, every other s or challenge is rejected, key encodings are canonical; R: MiniSecretKey "
              "expansion (uniform and Ed25519-style) and public keys, signatures on the four transcript sources (bytes, 256/512-bit hash, "
              "XOF) made with ONE reused signing context, recomputed byte for byte at real scale over Merlin (Keccak-f in TLA+) and "
              "Ristretto255; verification re-decided from the bytes for honest / bit-flipped / other message / s+L / other key / unmarked; "
              "the five decoders on boundary scalars (0, L-1, L, L+1, high bits), marker bit, invalid and non-canonical points, mismatched "
              "key pairs and wrong lengths with marshal(unmarshal(b)) = b; batch verifier histories (valid, wrong message, undecodable R, "
              "uninitialised signature; Reset) against Batch.tla; distinct = distinct events")
    R.assumptions += ["TLC/SANY, BigNat/F25519/Edwards/Ristretto/Merlin/Keccak modules", "SHA-512 table for the Ed25519-style expansion",
                      "schnorrkel's definition as transcribed from the package's documented labels"]
    R.mc("MC_C12", "MC_C12_Toy29.cfg", timeout=900)
    if R.tier == "thorough":
        R.mc("MC_C12", "MC_C12_Toy61.cfg", timeout=1800)
    labs = ["default"] if R.tier == "quick" else ["default", "noavx2", "purego", "force32bit"]
    recs = record_configs(R, labs)
    for lab, files in recs.items():
        R.count_events(files, key=lambda e: e.get("op", "?") + ":" + str(e.get("kind", e.get("mode", ""))))
        rej = R.validate(MODULE, files, label=lab, cfg="Trace_C12.cfg", timeout=14400)
        for f, ln, e in rej:
            R.violation(describe(e), event=e, replay={"module": MODULE, "seq": e.get("seq"), "cfg": lab})


def replay(R, path):
    run(R)
