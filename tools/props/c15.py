"""C15 - ECVRF proofs are complete, unique and specification-exact (DESIGN.md 5/C15)."""
import vlib
from props.common import record_configs, replay_recorded

LEVEL = "model_checking"
MODULE = "Trace_C15"


def describe(e):
    return "ecvrf %s/%s (cfg %s, v10=%s): result differs from RFC 9381: %s" % (
        e.get("op"), e.get("kind", ""), e.get("cfg"), e.get("v10"), vlib.shrink({k: v for k, v in e.items() if k not in ("seq", "cfg", "sha")}))


def run(R):
    R.rule = ("T: MC_C15 on toy curves: for EVERY key x input point x nonce x challenge value: the honest proof makes the verifier recompute "
              "U = [k]B, V = [k]H (completeness whatever the hash), a torsion-shifted Gamma changes the transcript exactly when [c]T # 0 and "
              "never the output point, two proofs reaching the same (U, V) under an invertible challenge share the output point "
              "(uniqueness), s + l and small-order keys are refused; R: proofs (current and draft-10 challenge, with and without added "
              "randomness) recomputed byte for byte from the seed at real scale; verification recomputed from the bytes for honest, "
              "cross-version, bit-flipped, s+L, other key / alpha, short, torsion-shifted-Gamma (built with the secret so that only "
              "cofactor handling decides), small-order-key forgeries for all 8 torsion points under both formats, non-canonical Gamma and "
              "key; verify's output = proof_to_hash; distinct = distinct events")
    R.assumptions += ["TLC/SANY, BigNat/F25519/Edwards, H2C/Elligator modules (C14)", "SHA-512 as a table; the spec rebuilds every hash input"]
    R.mc("MC_C15", "MC_C15_Toy29.cfg", timeout=900)
    if R.tier == "thorough":
        R.mc("MC_C15", "MC_C15_Toy61.cfg", timeout=1800)
    labs = ["default"] if R.tier == "quick" else ["default", "noavx2", "purego", "force32bit"]
    recs = record_configs(R, labs, n=(4 if R.tier == "quick" else 14))
    for lab, files in recs.items():
        R.count_events(files, key=lambda e: e.get("op", "?") + ":" + e.get("kind", ""))
        rej = R.validate(MODULE, files, label=lab, timeout=14400)
        for f, ln, e in rej:
            R.violation(describe(e), event=e, replay={"module": MODULE, "seq": e.get("seq"), "cfg": lab, "n": 2 if R.tier == "quick" else 32})


def replay(R, path):
    replay_recorded(R, path, MODULE)
