"""C20 - precomputed constants and tables equal their definitions in every backend (DESIGN.md 5/C20)."""
import os
import tempfile

import vlib
from props.common import CONFIGS

LEVEL = "model_checking"
MODULE = "Trace_C20"
PKGS = {
    "curve": ["curve/zz_verif_common_test.go", "curve/zz_verif_c20_test.go", "curve/zz_verif_vec_amd64_test.go", "curve/zz_verif_vec_generic_test.go"],
    "curve/scalar": ["curve/scalar/zz_verif_c20_test.go", "curve/scalar/zz_verif_u64_test.go", "curve/scalar/zz_verif_u32_test.go"],
    "internal/lattice": ["internal/lattice/zz_verif_c20_test.go"],
    "internal/elligator": ["internal/elligator/zz_verif_c20_test.go"],
}


def describe(e):
    return "constant/table entry %s %s[%s][%s] (cfg %s, %s) differs from its definition: %s" % (
        e.get("op"), e.get("name"), e.get("i", ""), e.get("j", ""), e.get("cfg"), e.get("src", ""),
        vlib.shrink({k: v for k, v in e.items() if k not in ("seq", "op", "name", "cfg")}))


def run(R):
    R.rule = ("exhaustive: every constant and every table entry (256 + 64 + 64 affine Niels entries, packed bytes and the "
              "unpacked form on each backend; the start-up generated vector tables when AVX2 is live; 8 torsion points; field, "
              "scalar, lattice and Elligator constants) dumped by in-package overlay tests under default / GODEBUG=cpu.avx2=off / purego / force32bit "
              "and recomputed by TLC from the definitions; distinct = distinct (constant or entry, backend, source)")
    R.assumptions += ["TLC/SANY, CommunityModules overrides", "BigNat/F25519/Edwards modules (Edwards formulas model-checked against the "
                      "affine law on toy curves)", "Element.ToBytes (covered by C04) to read field values", "L, d, B as defined in RFC 8032"]
    R.mc("MC_Edwards", "MC_Edwards_Toy29.cfg", timeout=900)
    allfiles = []
    for lab in ["default", "noavx2", "purego", "force32bit"]:
        tags, env = CONFIGS[lab]
        out = tempfile.mkdtemp(prefix="c20-", dir=R.scratch)
        e = dict(env, VERIF_OUT=out, VERIF_CFG=lab)
        for pkg, files in PKGS.items():
            R.overlay_test(pkg, files, "TestVerifRecC20", tags=tags, env=e)
        R.cov["configs"].append(lab)
        allfiles += sorted(os.path.join(out, f) for f in os.listdir(out) if os.path.getsize(os.path.join(out, f)) > 0)
    R.count_events(allfiles, key=lambda e: e.get("cfg", "?") + ":" + e.get("op", "?") + ":" + str(e.get("name", "")))
    rej = R.validate(MODULE, allfiles, timeout=1800)
    for f, ln, e in rej:
        R.violation(describe(e), event=e, replay={"module": MODULE}, key=None)
    R.cov["exhaustive"] = True


def replay(R, path):
    run(R)
