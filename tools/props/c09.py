"""C09 - batch, expanded-key and cached verification agree with single verification (DESIGN.md 5/C09)."""
import vlib
from props.common import record_configs, replay_recorded

LEVEL = "model_checking"
MODULE = "Trace_C09"


def describe(e):
    return ("BatchVerifier history %s (cfg %s): event %s is not a step of Batch.tla / its recorded output differs from what single "
            "verification of the entries implies: %s" % (e.get("hist"), e.get("cfg"), e.get("op"), vlib.shrink({k: v for k, v in e.items() if k not in ("seq", "cfg")})))


def run(R):
    R.rule = ("T: MC_C09: every history of the batch verifier machine up to 3 (thorough: 4) additions over all 36 abstract entry kinds x "
              "{plain, expanded, nil key} with Force / Reset / Verify / VerifyBatchOnly anywhere and the expansion limit at 2: outputs = "
              "declarative results, flags exact, no nil key on the precomputed path; R: recorded histories of real BatchVerifier objects "
              "(random mixes of 12 entry classes x option vectors, bulk histories at 93..96 and 188..191 entries with one special entry, "
              "reuse after Reset, ForceNoPublicKeyExpansion, additions through the caching verifier, nil and seeded entropy) validated "
              "step by step against the same machine with ExpandLimit = 94; each entry's kind must agree with real single verification; "
              "cached single verification = plain; distinct = distinct events")
    R.assumptions += ["TLC/SANY", "batch soundness error 2^-128 treated as never", "the recorder's class construction (cross-checked "
                      "against real single verification inside the trace spec; single verification itself is C01)"]
    R.mc("MC_C09", "MC_C09_3.cfg", timeout=900)
    if R.tier == "thorough":
        R.mc("MC_C09", "MC_C09_4.cfg", timeout=3600)
    labs = ["default", "noavx2"] if R.tier == "quick" else ["default", "noavx2", "purego", "force32bit"]
    recs = record_configs(R, labs)
    for lab, files in recs.items():
        R.count_events(files)
        rej = R.validate(MODULE, files, label=lab, cfg="Trace_C09.cfg", timeout=3600)
        for f, ln, e in rej:
            R.violation(describe(e), event=e, replay={"module": MODULE, "hist": e.get("hist"), "cfg": lab})


def replay(R, path):
    run(R)
