"""C05 - scalar arithmetic exact modulo L (DESIGN.md section 5/C05)."""
from props.common import record_configs, report_rejects, replay_recorded

LEVEL = "model_checking"
MODULE = "Trace_C05"


def describe(e):
    import vlib
    return "curve/scalar %s (cfg %s): recorded result differs from the Z/L specification; inputs=%s" % (
        e.get("op"), e.get("cfg"), vlib.shrink({k: v for k, v in e.items() if k in ("a", "b", "as")}))


def run(R):
    R.rule = ("T: MC_C05 word-wise minimality algorithm == (value < l) for all strings of the toy word sizes; "
              "R: every recorded curve/scalar API call (boundary family kL+e, 2^k, 2^k+-1, digit patterns, limb-seam "
              "all-ones, L with high bits toggled, x random) on the 52-bit and 29-bit limb backends must equal the "
              "Z/L specification evaluated by TLC with BigNat; distinct = distinct (op, inputs) events")
    R.assumptions += ["TLC/SANY and the CommunityModules Java overrides", "BigNat layer (spec/lib/BigNat.tla)",
                      "L as written in RFC 8032"]
    for cfg in ("MC_C05_w3.cfg", "MC_C05_w4.cfg") if R.tier == "thorough" else ("MC_C05_w3.cfg",):
        R.mc("MC_C05", cfg, timeout=900)
    recs = record_configs(R, ["default", "force32bit"] + (["purego"] if R.tier == "thorough" else []))
    for lab, files in recs.items():
        R.count_events(files)
        rej = R.validate(MODULE, files, label=lab)
        report_rejects(R, rej, describe, {"module": MODULE})


def replay(R, path):
    replay_recorded(R, path, MODULE)
