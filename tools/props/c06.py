"""C06 - all arithmetic backends are observationally identical (DESIGN.md 5/C06)."""
import hashlib
import json
import os

import vlib
from props import ovl
from props.common import CONFIGS, record_configs

LEVEL = "exploration"
MODULE = "Trace_C06"
CFGS = ["default", "noavx2", "purego", "force32bit"]
# internal representation (projective coordinates, certificates) is not observable through the API and
# legitimately differs between backends; everything else an event carries is compared
HIDDEN = {"cfg", "seq", "x", "y", "z", "t", "P", "A", "C", "p", "q", "pts", "invs", "sqrts", "cert", "c8", "hseq", "hist", "nreq"}


def project(e):
    out = {}
    for k, v in e.items():
        if k in HIDDEN:
            continue
        if isinstance(v, dict) and set(v.keys()) >= {"x", "y", "z", "t"}:
            continue
        out[k] = v
    return out


def digest(e):
    h = hashlib.sha256(json.dumps(project(e), sort_keys=True).encode()).digest()
    return list(h[:12])


def workloads(R):
    quick = R.tier == "quick"
    w = []
    # public-API recorders (harness binary per build configuration)
    for prop, n in [("C05", 1500 if quick else 20000), ("C17", 40 if quick else 800), ("C01", 0), ("C02", 6 if quick else 60),
                    ("C07", 40 if quick else 400), ("C09", 20 if quick else 200), ("C13", 12 if quick else 120), ("C19", 0)]:
        w.append(("rec", prop, n))
    # in-package recorders (points in projective scalings, raw STROBE, Keccak)
    w.append(("ovl", "C03", ("curve", ovl.CURVE_FILES, "TestVerifRecC03", {"VERIF_N": 90 if quick else 900, "VERIF_BIG": 1 if quick else 2})))
    w.append(("ovl", "C10", ("curve", ovl.CURVE_FILES, "TestVerifRecC10", {"VERIF_N": 900 if quick else 9000, "VERIF_NTF": 4})))
    w.append(("ovl", "C11", ("curve", ovl.CURVE_FILES + ["curve/zz_verif_c11_test.go"], "TestVerifRecC11", {"VERIF_N": 600 if quick else 6000})))
    w.append(("ovl", "C13s", ("internal/strobe", ["internal/strobe/zz_verif_c13_test.go"], "TestVerifRecC13", {"VERIF_N": 24 if quick else 240})))
    return w


def run(R):
    R.rule = ("monitor: Backends.tla admits a workload step only if every configuration reports the same digest of the caller-observable "
              "part of the event (output bytes, decisions, error classes; internal projective coordinates excluded); the deterministic "
              "workloads are the recorders of C01 C02 C03 C05 C07 C09 C10 C11 C13 (merlin and raw STROBE + Keccak-f alone) C17 C19, run with "
              "one seed under {default, GODEBUG=cpu.avx2=off, -tags purego, -tags force32bit}; distinct = distinct (workload, step)")
    R.assumptions += ["TLC/SANY", "agreement among the configurations is what this check decides; agreement with the specification is "
                      "decided per backend by the other properties' checks (their thorough tiers validate all four configurations)",
                      "if the host CPU lacks AVX2 the first two configurations coincide (recorded below)"]
    bins = {}
    streams = {}     # (wl) -> {cfg: [events]}
    for kind, wl, arg in workloads(R):
        streams[wl] = {}
        for lab in CFGS:
            tags, env = CONFIGS[lab]
            try:
                if kind == "rec":
                    if tags not in bins:
                        bins[tags] = R.build("rec", tags=tags)
                    files = R.record(bins[tags], prop=wl, n=arg, cfg=lab, env=env, shards=1)
                else:
                    pkg, fl, test, envx = arg
                    files = ovl.record(R, pkg, fl, test, lab, envx)
            except vlib.Inconclusive as ex:
                if lab == "default" or "go build" in str(ex):
                    raise
                # the same deterministic workload ran to completion under the default configuration: a crash under
                # another configuration is an observable difference between the backends
                R.violation("workload %s runs under the default configuration but crashes under %s: %s" % (wl, lab, str(ex)[-1500:]),
                            event={"wl": wl, "cfg": lab, "crash": str(ex)[-1500:]}, replay={"module": MODULE})
                streams[wl][lab] = None
                continue
            evs = []
            for f in files:
                for line in open(f):
                    evs.append(json.loads(line))
            evs.sort(key=lambda e: e.get("seq", 0))
            streams[wl][lab] = evs
    # merged observation trace, sharded by step so that the four observations of a step are consecutive
    shards = [[] for _ in range(vlib.NCPU)]
    index = {}
    nsteps = 0
    for wl, per in streams.items():
        per = {lab: v for lab, v in per.items() if v is not None}
        streams[wl] = per
        lens = {lab: len(v) for lab, v in per.items()}
        n = max(lens.values())
        if len(set(lens.values())) != 1:
            R.notes.append("workload %s: event counts differ between configurations %s" % (wl, lens))
        for i in range(n):
            nsteps += 1
            for lab in CFGS:
                if lab not in per:
                    continue
                if i < lens[lab]:
                    e = per[lab][i]
                    sh = (nsteps) % vlib.NCPU
                    shards[sh].append({"op": "obs", "wl": wl, "step": i + 1, "cfg": lab, "d": digest(e), "seq": len(shards[sh]) + 1})
                    index[(wl, i + 1, lab)] = e
                else:
                    sh = (nsteps) % vlib.NCPU
                    shards[sh].append({"op": "obs", "wl": wl, "step": i + 1, "cfg": lab, "d": [0], "seq": len(shards[sh]) + 1})
                    index[(wl, i + 1, lab)] = {"missing": True}
    d = os.path.join(R.scratch, "c06")
    os.makedirs(d)
    files = []
    for i, evs in enumerate(shards):
        if evs:
            p = os.path.join(d, "obs-%02d.ndjson" % i)
            open(p, "w").write("".join(json.dumps(e) + "\n" for e in evs))
            files.append(p)
    R.cov["evaluations"] = 0
    for wl, per in streams.items():
        R.cov["events_by_op"][wl] = len(per["default"])
    R.distinct = set(range(nsteps))
    rej = R.validate(MODULE, files, timeout=3600)
    seen = set()
    for f, ln, o in rej:
        k = (o["wl"], o["step"])
        if k in seen:
            continue
        seen.add(k)
        ev = index.get((o["wl"], o["step"], o["cfg"]), {})
        ref = index.get((o["wl"], o["step"], "default"), {})
        R.violation("workload %s step %d: configuration %s observes %s but the reference configuration observed %s" % (
            o["wl"], o["step"], o["cfg"], vlib.shrink(project(ev)), vlib.shrink(project(ref))),
            event={"wl": o["wl"], "step": o["step"], "cfg": o["cfg"], "event": vlib.shrink(project(ev)), "reference": vlib.shrink(project(ref))},
            replay={"module": MODULE})
    R.cov["samples"] = [{"workload": wl, "step": 1, "observation": vlib.shrink(project(per["default"][0]))} for wl, per in list(streams.items())[:6] if per["default"]]
    # which code paths were live
    try:
        live = [e for e in streams.get("C10", {}).get("default", []) if e.get("op") == "veclive"]
        R.notes.append("vector backend live in default configuration: %s" % (live[0]["live"] if live else "unknown"))
    except Exception:
        pass


def replay(R, path):
    run(R)
