"""C07 - X25519 is the RFC 7748 function on every input and rejects low-order results (DESIGN.md 5/C07)."""
import vlib
from props.common import record_configs, replay_recorded

LEVEL = "model_checking"
MODULE = "Trace_C07"


def describe(e):
    return "x25519 %s (cfg %s): result differs from the RFC 7748 specification: %s" % (
        e.get("op"), e.get("cfg"), vlib.shrink({k: v for k, v in e.items() if k not in ("seq", "cfg", "sha")}))


def run(R):
    R.rule = ("T: MC_C07 on the Montgomery form of complete toy curves: for EVERY u string (u >= p, ignored top bit, twist, low order) x "
              "EVERY scalar string: the code's ladder (Costello-Smith alg. 8 as in curve/montgomery.go) = the RFC 7748 ladder = u([clamp(s)]P) "
              "through the Edwards group law; low-order inputs give zero; fixed-base route and Diffie-Hellman symmetry for all key pairs; "
              "R: the complete family of special u values (0, 1, the order-8 values, p-1, p, p+1, every u in [p, 2^255), each with bit 255 "
              "set and in non-canonical form), length errors, clamping-sensitive scalars, X25519 / ScalarMult / ScalarBaseMult / "
              "DiffieHellman / Public, Ed25519 key conversions; TLC evaluates the RFC ladder at real scale; distinct = distinct events")
    R.assumptions += ["TLC/SANY, BigNat/F25519", "RFC 7748 section 5 pseudo-code as the definition", "SHA-512 table for the private-key conversion"]
    R.mc("MC_C07", "MC_C07_Toy61.cfg", timeout=1800)
    if R.tier == "thorough":
        R.mc("MC_C07", "MC_C07_Toy109.cfg", timeout=3600)
    labs = ["default", "force32bit"] if R.tier == "quick" else ["default", "noavx2", "purego", "force32bit"]
    recs = record_configs(R, labs)
    for lab, files in recs.items():
        R.count_events(files)
        rej = R.validate(MODULE, files, label=lab, timeout=7200)
        for f, ln, e in rej:
            R.violation(describe(e), event=e, replay={"module": MODULE, "seq": e.get("seq"), "cfg": lab})


def replay(R, path):
    replay_recorded(R, path, MODULE)
