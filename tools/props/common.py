"""Helpers shared by the per-property drivers."""
import json
import os

import vlib

CONFIGS = {
    # label: (build tags, environment)
    "default": ((), {}),
    "noavx2": ((), {"GODEBUG": "cpu.avx2=off"}),
    "purego": (("purego",), {}),
    "force32bit": (("force32bit",), {}),
}


def record_configs(R, labels, n=0, prop=None, extra="", shards=None):
    """Build the recorder per configuration and record; returns {label: [files]}."""
    out = {}
    bins = {}
    for lab in labels:
        tags, env = CONFIGS[lab]
        key = tags
        if key not in bins:
            bins[key] = R.build("rec", tags=tags)
        out[lab] = R.record(bins[key], prop=prop, n=n, cfg=lab, env=env, extra=extra, shards=shards)
    return out


def report_rejects(R, rejected, describe, replay_info=None, keyfn=None):
    for f, ln, e in rejected:
        what = describe(e)
        R.violation(what, event=e, replay=dict(replay_info or {}, seq=e.get("seq"), cfg=e.get("cfg")),
                    key=keyfn(e) if keyfn else None)


def replay_recorded(R, path, module, labels_for=lambda cfg: cfg, prop=None, n=0, extra="", env=None):
    """Generic replay for recorded-trace violations: re-record with the same seed/config against the
    freshly built code, pick the event with the same sequence number, validate it alone."""
    body = json.load(open(path))
    rp = body.get("replay", {})
    R.seed = body.get("seed", R.seed)
    R.tier = body.get("tier", R.tier)
    cfg = rp.get("cfg") or "default"
    files = record_configs(R, [cfg], n=rp.get("n", n), prop=prop, extra=rp.get("extra", extra))[cfg]
    seq = rp.get("seq")
    one = os.path.join(R.scratch, "replay.ndjson")
    found = None
    for f in files:
        for line in open(f):
            e = json.loads(line)
            if e.get("seq") == seq:
                found = line
    if found is None:
        raise vlib.Inconclusive("replay: event seq=%s not produced by the recorder any more" % seq)
    open(one, "w").write(found)
    rej = R.validate(rp.get("module", module), [one], env=env)
    for f, ln, e in rej:
        R.violation(body.get("what", "replayed event rejected"), event=e, replay=rp, key=body.get("key"))
    if not rej:
        print("replay: event seq=%s is now accepted by the specification" % seq)
