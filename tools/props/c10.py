"""C10 - Edwards point decoding, encoding and subgroup predicates (DESIGN.md 5/C10)."""
import json
import os
import tempfile

import vlib
from props.common import CONFIGS

LEVEL = "model_checking"
MODULE = "Trace_C10"
FILES = ["curve/zz_verif_common_test.go", "curve/zz_verif_c10_test.go", "curve/zz_verif_c20_test.go",
         "curve/zz_verif_vec_amd64_test.go", "curve/zz_verif_vec_generic_test.go"]


def describe(e):
    return "curve %s (cfg %s): recorded result differs from the Edwards specification: %s" % (
        e.get("op"), e.get("cfg"), vlib.shrink({k: v for k, v in e.items() if k not in ("seq", "op", "cfg")}))


def key(e):
    return None


def record(R, lab, n, ntf):
    tags, env = CONFIGS[lab]
    out = tempfile.mkdtemp(prefix="c10-", dir=R.scratch)
    e = dict(env, VERIF_OUT=out, VERIF_SEED=str(R.seed), VERIF_CFG=lab, VERIF_N=str(n), VERIF_NTF=str(ntf), VERIF_SHARDS=str(vlib.NCPU))
    R.overlay_test("curve", FILES, "TestVerifRecC10", tags=tags, env=e)
    R.cov["configs"].append(lab)
    return sorted(os.path.join(out, f) for f in os.listdir(out) if os.path.getsize(os.path.join(out, f)) > 0)


def params(R):
    return (600, 16) if R.tier == "quick" else (12000, 200)


def run(R):
    R.rule = ("T: MC_Edwards on complete toy curves (p = 29, 61; thorough also 109): decompression algorithm == 'y is on the curve' "
              "for every string, requested sign, encode(decode(s)) = s iff canonical, projective equality / identity / small-order "
              "predicates == the affine definitions for every point in several scalings, every scalar; R: in-package recorder: the "
              "complete finite families (all y in [p-3, 2^255), per-byte compare classes against p, x = 0 sign cases, the 8 torsion "
              "encodings, lengths 0..1000, special u incl. -1 and bit 255) plus seeded random strings / mixed-order points in random "
              "projective scalings; TLC evaluates Edwards.tla at real scale; distinct = distinct (op, inputs)")
    R.assumptions += ["TLC/SANY, CommunityModules overrides", "BigNat/F25519", "go test -overlay",
                      "Element.ToBytes for reading coordinates (C04)", "IsTorsionFree sampled (a full [L]P costs ~4 s in TLC)"]
    cfgs = ["MC_Edwards_Toy29.cfg"] + (["MC_Edwards_Toy61.cfg", "MC_Edwards_Toy109.cfg"] if R.tier == "thorough" else [])
    for c in cfgs:
        R.mc("MC_Edwards", c, timeout=3000)
    n, ntf = params(R)
    for lab in (["default", "force32bit"] if R.tier == "quick" else ["default", "noavx2", "purego", "force32bit"]):
        files = record(R, lab, n, ntf if lab == "default" else 2)
        R.count_events(files)
        rej = R.validate(MODULE, files, label=lab, timeout=3000)
        for f, ln, e in rej:
            R.violation(describe(e), event=e, replay={"module": MODULE, "seq": e.get("seq"), "cfg": lab, "n": n, "ntf": ntf}, key=key(e))


def replay(R, path):
    body = json.load(open(path))
    rp = body.get("replay", {})
    R.seed = body.get("seed", R.seed)
    lab = rp.get("cfg") or "default"
    files = record(R, lab, rp.get("n", 600), rp.get("ntf", 16))
    one = os.path.join(R.scratch, "replay.ndjson")
    found = None
    for f in files:
        for line in open(f):
            if json.loads(line).get("seq") == rp.get("seq"):
                found = line
    if found is None:
        raise vlib.Inconclusive("replay: event not reproduced by the recorder")
    open(one, "w").write(found)
    for f, ln, e in R.validate(MODULE, [one]):
        R.violation(body.get("what", "replayed event rejected"), event=e, replay=rp, key=body.get("key"))
