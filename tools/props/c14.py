"""C14 - hash-to-curve suites implement RFC 9380 for every input (DESIGN.md 5/C14)."""
import vlib
from props import ovl
from props.common import record_configs

LEVEL = "model_checking"
MODULE = "Trace_C14"
EFILES = ["internal/elligator/zz_verif_c14_test.go", "internal/elligator/zz_verif_c20_test.go"]


def describe(e):
    return "h2c %s %s (cfg %s): result differs from RFC 9380: %s" % (
        e.get("op"), e.get("suite", e.get("hash", e.get("xof", ""))), e.get("cfg"),
        vlib.shrink({k: v for k, v in e.items() if k not in ("seq", "cfg", "sha")}))


def run(R):
    R.rule = ("T: MC_C14 on toy fields: the RFC 9380 Elligator 2 map (straight-line definition) for EVERY field element lands on the "
              "Montgomery curve, its rational image on the Edwards curve, and x8 in the prime-order subgroup; expand_message_xmd length and "
              "abort logic over boundary lengths; R: expand_message_xmd/xof recorded for DST lengths {0, 1, 16, 254..257, 1000} x output "
              "lengths {0, 1, b-1, b, b+1, 2b, 2b+1, 255b, 255b+1, 65535, 65536} x SHA-224/256/384/512 and SHAKE128/256; the six suites "
              "(edwards25519 XMD:SHA-512 RO/NU, XMD:SHA-256 RO, XOF:SHAKE256 RO, ristretto255 XMD:SHA-512 and XOF:SHAKE128) on random "
              "messages and DSTs incl. oversize; internal/elligator on exceptional field inputs; TLC recomputes RFC 9380 at real scale with "
              "hash tables; distinct = distinct events")
    R.assumptions += ["TLC/SANY, BigNat/F25519", "SHA-2 / SHAKE of the standard library and x/crypto as tables; the spec rebuilds every hash input"]
    R.mc("MC_C14", "MC_C14_Toy29.cfg", timeout=900, workers=8)
    if R.tier == "thorough":
        R.mc("MC_C14", "MC_C14_Toy109.cfg", timeout=1800, workers=8)
    labs = ["default", "force32bit"] if R.tier == "quick" else ["default", "noavx2", "purego", "force32bit"]
    recs = record_configs(R, labs)
    for lab in labs:
        files = recs[lab] + ovl.record(R, "internal/elligator", EFILES, "TestVerifRecC14", lab, {"VERIF_N": 16 if R.tier == "quick" else 400})
        # everything behind expand_message on crafted uniform bytes (one or both field elements exceptional)
        files += ovl.record(R, "primitives/h2c", ["primitives/h2c/zz_verif_c14_test.go"], "TestVerifRecC14Maps", lab, {"VERIF_N": 2 if R.tier == "quick" else 60})
        R.count_events(files)
        rej = R.validate(MODULE, files, label=lab, timeout=7200)
        for f, ln, e in rej:
            R.violation(describe(e), event=e, replay={"module": MODULE, "seq": e.get("seq"), "cfg": lab})


def replay(R, path):
    run(R)
