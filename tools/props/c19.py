"""C19 - untrusted input never panics or leaves partial state (DESIGN.md 5/C19)."""
import vlib
from props.common import record_configs, replay_recorded

LEVEL = "exploration"
MODULE = "Trace_C19"


def describe(e):
    return "%s with argument lengths %s (%s): outcome %s%s, receiver after failure: %s - not allowed by the API contract (Robustness.tla)" % (
        e.get("api"), e.get("lens"), e.get("how"), e.get("outcome"), (" '" + e.get("msg", "") + "'") if e.get("msg") else "", e.get("after"))


def key(e):
    return "%s|%s|%s" % (e.get("api"), e.get("outcome"), e.get("msgclass") or e.get("after"))


def run(R):
    R.rule = ("monitor: Robustness.tla is the contract table (admissible length range per argument, failure signal, documented panics, "
              "neutral state after failure) for 43 byte-taking entry points of curve, scalar, ed25519 (single, batch, expanded, cached), "
              "ecvrf, sr25519, x25519, h2c and merlin; the recorder calls each with every length 0..130 plus 255/256/257/1000/65536 at every "
              "argument position (zero, random and truncated/extended-valid contents), nil slices, 40 bit-flipped valid tuples and the "
              "valid tuple, under recover(); TLC checks every recorded (lengths, outcome, panic class, receiver state) against the table; "
              "distinct = distinct (api, lengths, content kind)")
    R.assumptions += ["TLC/SANY", "the list of entry points in the recorder is the coverage of 'every function that takes bytes'",
                      "panic texts are classified by their documented prefixes in the recorder"]
    # length checks live in backend files too (scalar_u32.go, field_u32.go): the 32-bit build is part of every run
    labs = ["default", "force32bit"] if R.tier == "quick" else ["default", "noavx2", "purego", "force32bit"]
    recs = record_configs(R, labs)
    for lab, files in recs.items():
        R.count_events(files, key=lambda e: e.get("api", "?") + ":" + e.get("outcome", "?"))
        rej = R.validate(MODULE, files, label=lab)
        seen = set()
        for f, ln, e in rej:
            k = key(e)
            if k in seen:
                continue
            seen.add(k)
            R.violation(describe(e), event=e, replay={"module": MODULE, "seq": e.get("seq"), "cfg": lab}, key=k)


def replay(R, path):
    replay_recorded(R, path, MODULE)
