"""C01 - Ed25519 verification decides exactly the configured predicate (DESIGN.md 5/C01)."""
import json
import os
import random

import vlib
from props.common import record_configs, replay_recorded

LEVEL = "model_checking"


def describe(e, layer):
    q = e.get("req", {})
    return ("ed25519 verification (%s layer, cfg %s): decision %s/%s under options %s disagrees with the specification; class=%s request=%s" % (
        layer, e.get("cfg"), e.get("res"), e.get("resx", "-"), e.get("o"), e.get("c", "-"),
        vlib.shrink({k: q.get(k) for k in ("pk", "sig", "msg", "f", "ctx")})))


def sample_requests(R, files, n):
    """Stratified sample of recorded requests for the real-scale re-decision."""
    rnd = random.Random(R.seed)
    acc, rej, other = [], [], []
    for f in files:
        for line in open(f):
            e = json.loads(line)
            if e["op"] == "vclass":
                c = e["c"]
                if e["res"] == "true":
                    acc.append(line)
                elif e["res"] == "false" and c["lenOK"] and c["sLt"] and c["aDec"]:
                    rej.append(line)     # rejected for a group-level reason: the expensive, interesting case
                else:
                    other.append(line)
            elif e["op"] in ("vhonest", "vmut") and e["res"] != "error":
                other.append(line)
    pick = rnd.sample(acc, min(len(acc), n * 4 // 10)) + rnd.sample(rej, min(len(rej), n * 4 // 10)) + rnd.sample(other, min(len(other), n - 2 * (n * 4 // 10)))
    rnd.shuffle(pick)
    out = []
    d = os.path.join(R.scratch, "c01-sample")
    os.makedirs(d, exist_ok=True)
    for i in range(vlib.NCPU):
        part = pick[i::vlib.NCPU]
        if part:
            p = os.path.join(d, "s-%02d.ndjson" % i)
            open(p, "w").write("".join(part))
            out.append(p)
    return out


def run(R):
    R.rule = ("T: MC_C01 on the toy curve(s): for EVERY A string x R string x S string x reduced challenge x 32 option vectors x "
              "length flag: implementation-shaped verification (ordered admission checks, lazy R decompression, delta-scaled equation "
              "for every admissible short vector, byte compare) == declarative Accept == ClassVerdict(ClassOf), and the StdLib / FIPS "
              "186-5 / ZIP-215 preset equivalences; G/R-class: the Go replayer constructs real requests of known class (all 8x8 torsion "
              "index pairs x zero/non-zero prime parts x ALL 32 option vectors, cofactorless-valid requests found by message search, "
              "canonical / non-canonical / undecodable A and R, S in {S*, S*+L, S*+1, high bits, 0, L-1, L, L+1, 2^256-1}, signature "
              "lengths 0/63/64/65, pure/ctx/ph), both plain and expanded-key verification and crypto/ed25519 under the StdLib preset; "
              "TLC checks every recorded decision against ClassVerdict; R: a stratified sample is re-decided from the bytes by Accept "
              "at real scale; distinct = distinct (request, options)")
    R.assumptions += ["TLC/SANY, CommunityModules overrides", "BigNat/F25519/Edwards", "SHA-512 (Go standard library) as hash table oracle; "
                      "the spec rebuilds the hash input", "the replayer's construction of points [a]B + [i]T8 (re-decided on the sample)"]
    R.mc("MC_C01", "MC_C01_Toy29.cfg", timeout=1800)
    if R.tier == "thorough":
        R.mc("MC_C01", "MC_C01_Toy61.cfg", timeout=7200)
    labs = ["default"] if R.tier == "quick" else ["default", "noavx2", "purego", "force32bit"]
    recs = record_configs(R, labs)
    for lab, files in recs.items():
        R.count_events(files, key=lambda e: e.get("op", "?") + ":" + str(e.get("res")))
        rej = R.validate("Trace_C01c", files, label=lab + "/class")
        for f, ln, e in rej:
            R.violation(describe(e, "class"), event=e, replay={"module": "Trace_C01c", "seq": e.get("seq"), "cfg": lab})
    n = 32 if R.tier == "quick" else 640
    sample = sample_requests(R, recs["default"], n)
    rej = R.validate("Trace_C01", sample, label="real-scale sample", timeout=7200)
    for f, ln, e in rej:
        R.violation(describe(e, "real-scale"), event=e, replay={"module": "Trace_C01", "seq": e.get("seq"), "cfg": "default"})
    R.cov["real_scale_requests"] = n


def replay(R, path):
    body = json.load(open(path))
    replay_recorded(R, path, body.get("replay", {}).get("module", "Trace_C01c"))
