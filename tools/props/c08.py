"""C08 - secret-dependent operations run in constant time at the source level (DESIGN.md 5/C08, partial: see section 9)."""
import json
import os
import subprocess
import tempfile
from concurrent.futures import ThreadPoolExecutor

import vlib
from props.common import CONFIGS

LEVEL = "exploration"
MODULE = "Trace_C08"
PKGS = ["curve", "curve/scalar", "internal/field", "internal/subtle", "primitives/x25519", "primitives/ed25519", "primitives/sr25519",
        "primitives/ed25519/extra/ecvrf", "primitives/merlin", "internal/strobe", "internal/scalar128", "primitives/h2c", "internal/elligator"]


def observe(R, lab, n):
    tags, env = CONFIGS[lab]
    d = tempfile.mkdtemp(prefix="ct-", dir=R.scratch)
    instr = R.build("ctinstr", name="ctinstr")
    p = subprocess.run([instr, "-repo", vlib.REPO, "-out", d, "-tags", ",".join(tags), "-extra", os.path.join(vlib.ROOT, "overlay", "ct")] + PKGS,
                       capture_output=True, text=True)
    if p.returncode != 0:
        raise vlib.Inconclusive("instrumenter failed: " + (p.stdout + p.stderr)[-2000:])
    R.notes.append("%s: %s" % (lab, p.stdout.strip()))
    out = os.path.join(d, "out")
    os.makedirs(out)
    args = ["go", "test", "-vet=off", "-count=1", "-overlay", os.path.join(d, "overlay.json"), "-run", "TestVerifCT"]
    if tags:
        args += ["-tags", ",".join(tags)]
    args += ["./primitives/ed25519/extra/ecvrf"]
    e = vlib.goenv(dict(env, VERIF_OUT=out, VERIF_CFG=lab, VERIF_SEED=str(R.seed), VERIF_N=str(n)))
    q = subprocess.run(args, cwd=vlib.REPO, env=e, capture_output=True, text=True, timeout=1800)
    if q.returncode != 0:
        raise vlib.Inconclusive("observation build failed under %s (the rewriter could not instrument the current tree, or the driver failed):\n%s"
                                % (lab, (q.stdout + q.stderr)[-3000:]))
    R.cov["configs"].append(lab)
    return [os.path.join(out, f) for f in os.listdir(out)], os.path.join(d, "sites.txt")


MACHINE_OPS = (r"^(curve\.|scalar\.|field\.|x25519\.|subtle|control|ed25519\.Sign/pure|ed25519\.NewKeyFromSeed|"
               r"sr25519\.SecretKey\.Equal|sr25519\.MiniSecretKey\.Equal|ed25519\.PrivateKey\.Equal)")


def machine_run(R, lab, secrets, order, binary):
    """One run of the UNINSTRUMENTED library under valgrind/lackey; returns [(event, segment)]."""
    tags, env = CONFIGS[lab]
    out = tempfile.mkdtemp(prefix="vg-", dir=R.scratch)
    vgparse = R.build("vgparse", name="vgparse")
    e = vlib.goenv(dict(env, VERIF_OUT=out, VERIF_CFG=lab, VERIF_SEED=str(R.seed), VERIF_N="24", VERIF_SECRETS=",".join(map(str, secrets)),
                        VERIF_OPS=MACHINE_OPS, VERIF_ORDER=order, GOMAXPROCS="1", GOGC="off"))
    e["GODEBUG"] = ",".join(x for x in (e.get("GODEBUG", ""), "asyncpreemptoff=1") if x)
    segs = os.path.join(out, "segs.json")
    cmd = ("valgrind --tool=lackey --trace-mem=yes --log-fd=1 %s -test.run TestVerifCT -test.timeout 60m 2>/dev/null | %s -bin %s > %s"
           % (binary, vgparse, binary, segs))
    q = subprocess.run(["sh", "-c", cmd], env=e, capture_output=True, text=True, timeout=3600)
    evf = [os.path.join(out, f) for f in os.listdir(out) if f.endswith(".ndjson")]
    if q.returncode != 0 or len(evf) != 1:
        raise vlib.Inconclusive("machine-level observation failed under %s: %s" % (lab, (q.stdout + q.stderr)[-2000:]))
    evs = [json.loads(l) for l in open(evf[0])]
    sg = [json.loads(l) for l in open(segs)]
    if len(evs) != len(sg) or not evs:
        raise vlib.Inconclusive("machine-level observation under %s: %d driver events but %d trace recordings" % (lab, len(evs), len(sg)))
    return list(zip(evs, sg))


def machine(R, lab, secrets):
    """Machine-level observation (instruction addresses and data addresses executed inside the library, assembly
    included) of one configuration: two runs with the secrets in opposite orders.  A signature that follows the
    POSITION in the run instead of the secret is an artefact of the process (stack growth, allocator), not a
    dependence on the secret; only signatures that follow the secret in both runs are handed to the monitor."""
    tags, env = CONFIGS[lab]
    d = tempfile.mkdtemp(prefix="vgb-", dir=R.scratch)
    ov = {"Replace": {os.path.join(vlib.REPO, "internal/verifobs/obs.go"): os.path.join(vlib.ROOT, "overlay/ctasm/internal/verifobs/obs.go"),
                      os.path.join(vlib.REPO, "primitives/ed25519/extra/ecvrf/zz_verifct_test.go"):
                      os.path.join(vlib.ROOT, "overlay/ct/primitives/ed25519/extra/ecvrf/zz_verifct_test.go")}}
    json.dump(ov, open(os.path.join(d, "overlay.json"), "w"))
    binary = os.path.join(d, "ct.test")
    args = ["go", "test", "-c", "-vet=off", "-overlay", os.path.join(d, "overlay.json"), "-o", binary]
    if tags:
        args += ["-tags", ",".join(tags)]
    args += ["./primitives/ed25519/extra/ecvrf"]
    q = subprocess.run(args, cwd=vlib.REPO, env=vlib.goenv(env), capture_output=True, text=True, timeout=1800)
    if q.returncode != 0:
        raise vlib.Inconclusive("machine-level test binary did not build under %s:\n%s" % (lab, (q.stdout + q.stderr)[-3000:]))
    def pair():
        with ThreadPoolExecutor(max_workers=2) as ex:
            return list(ex.map(lambda o: machine_run(R, lab, secrets, o, binary), ["fwd", "rev"]))

    def analyse(fw, rv, notes):
        events = []
        stats = {"secret-determined": 0, "position-determined": 0, "sporadic-filtered": 0, "undetermined": 0}
        for kind in ("pc", "mem"):
            byop = {}
            for run_i, run in enumerate((fw, rv)):
                pos = {}
                for e, sg in run:
                    p = pos.get(e["name"], 0)
                    pos[e["name"]] = p + 1
                    byop.setdefault(e["name"], ({}, {}, {}, {}, e))
                    bysec, bypos = byop[e["name"]][run_i * 2], byop[e["name"]][run_i * 2 + 1]
                    bysec[e["secret"]] = (sg[kind], sg["ni"] if kind == "pc" else sg["nmem"])
                    bypos[p] = bysec[e["secret"]]
            def classes(m):
                # the partition induced by the signatures, labelled canonically (absolute data addresses differ between
                # two processes, so signatures are only compared within a run)
                ids, out = {}, {}
                for k in sorted(m):
                    out[k] = ids.setdefault(m[k], len(ids))
                return out
            for name, (fsec, fpos, rsec, rpos, proto) in byop.items():
                if classes(fsec) == classes(rsec):  # the signature follows the secret (or is simply constant)
                    stats["secret-determined"] += 1
                    for sec, (h, n) in sorted(fsec.items()):
                        events.append({"op": "ct", "cfg": lab, "name": "machine-%s/%s" % (kind, name), "control": proto["control"], "secret": sec,
                                       "sig": [int(h[i:i + 2], 16) for i in range(0, 16, 2)], "n": n, "seq": 0})
                elif classes(fpos) == classes(rpos):
                    stats["position-determined"] += 1
                    notes.append("machine-%s/%s (%s): signature follows the position in the run, not the secret (process artefact): not judged"
                                   % (kind, name, lab))
                else:
                    # sporadic deviations (the runtime's cooperative preemption detours through a function prologue, stack growth):
                    # a secret counts as deviating only if it leaves the majority signature of BOTH runs
                    def majority(m):
                        cnt = {}
                        for v in m.values():
                            cnt[v] = cnt.get(v, 0) + 1
                        top = sorted(cnt.items(), key=lambda kv: -kv[1])
                        return None if (len(top) > 1 and top[0][1] == top[1][1]) else top[0][0]
                    mf, mr = majority(fsec), majority(rsec)
                    if proto["control"] or mf is None or mr is None or set(fsec) != set(rsec):
                        stats["undetermined"] += 1
                        notes.append("machine-%s/%s (%s): signature follows neither secret nor position: not judged" % (kind, name, lab))
                        continue
                    stats["sporadic-filtered"] += 1
                    for sec in sorted(fsec):
                        h, n = fsec[sec] if (fsec[sec] != mf and rsec[sec] != mr) else mf
                        events.append({"op": "ct", "cfg": lab, "name": "machine-%s/%s" % (kind, name), "control": False, "secret": sec,
                                       "sig": [int(h[i:i + 2], 16) for i in range(0, 16, 2)], "n": n, "seq": 0})
        return events, stats

    def deviating(events):
        """{operation name: frozenset of secrets outside the majority signature} for the non-control operations that show more
        than one signature."""
        byname = {}
        for e in events:
            if not e["control"]:
                byname.setdefault(e["name"], {})[e["secret"]] = tuple(e["sig"])
        out = {}
        for name, m in byname.items():
            if len(set(m.values())) > 1:
                cnt = {}
                for v in m.values():
                    cnt[v] = cnt.get(v, 0) + 1
                maj = max(cnt.items(), key=lambda kv: kv[1])[0]
                out[name] = frozenset(k for k, v in m.items() if v != maj)
        return out

    notes = []
    events, stats = analyse(*pair(), notes)
    dev = deviating(events)
    if dev:
        # a dependence on the secret is a deterministic function of the secret: it shows again, for the same secrets, in a second
        # independent pair of runs.  What the Go runtime does to a trace under load (a detour that happens to hit the same secret in
        # both runs of one pair) does not.  Only deviations confirmed by the second pair are handed to the monitor.
        notes2 = []
        events2, _ = analyse(*pair(), notes2)
        dev2 = deviating(events2)
        for name in list(dev):
            if dev2.get(name) != dev[name]:
                stats["unconfirmed-filtered"] = stats.get("unconfirmed-filtered", 0) + 1
                notes.append("%s (%s): secrets %s deviate in one pair of runs, %s in the confirmation pair: not a function of the secret, "
                             "not judged" % (name, lab, sorted(dev[name]), sorted(dev2.get(name, []))))
                events = [e for e in events if e["name"] != name]
    R.notes += notes
    R.cov.setdefault("machine_level", {})[lab] = stats
    out = os.path.join(d, "C08m-%s-00.ndjson" % lab)
    with open(out, "w") as f:
        for e in events:
            f.write(json.dumps(e) + "\n")
    R.cov["configs"].append(lab + "/machine")
    return [out]


def run(R):
    R.rule = ("T: MC_C08: control skeletons of the masked table scan, the fixed-length signed-digit loop and the ladder for ALL 8-bit toy "
              "secrets: emitted label/index sequence independent of the secret; the leaky variants (direct indexing, early exit on a zero "
              "digit, skipping leading zero bits) are checked to FAIL; R: observation build (AST rewriting through go -overlay, nothing "
              "written to the repository) reports every non-constant index, slice bound and if / for / tagless-switch condition of 13 "
              "packages; 36 operations (key derivation, Ed25519 signing variants, sr25519 expansion and signing, ECVRF proving, X25519, "
              "Edwards/Ristretto/Montgomery multiplication, multiscalar, compression, scalar and field arithmetic, conditional primitives) "
              "x N secrets of one public shape (zeros, all-ones, extreme digits, Hamming-weight extremes, shared prefixes, random) on the "
              "purego, force32bit and default builds: one signature per operation; variable-time routines as sensitivity controls must "
              "show several; distinct = distinct (operation, configuration, secret)")
    R.assumptions += ["TLC/SANY", "source level only: assembly routines (window_amd64.s, field_u64_amd64.s, edwards_vector_amd64.s, "
                      "keccakf_amd64.s), the standard library and micro-architectural effects are not observed",
                      "switch statements with a tag, function values and arithmetic on secrets (variable-latency instructions) are not observed",
                      "the secrets sampled per operation"]
    R.mc("MC_C08", "MC_C08.cfg", timeout=600, workers=4)
    leaky = R.tlc("MC_C08", "MC_C08_leaky.cfg", workers=4, timeout=300)
    if not leaky["invariant"]:
        raise vlib.Inconclusive("self-test: the leaky skeletons should violate NonInterference")
    R.notes.append("non-vacuity: leaky skeleton variants violate NonInterference as expected")
    n = 24 if R.tier == "quick" else 96
    for lab in ["purego", "force32bit", "default"]:
        files, sites = observe(R, lab, n)
        R.count_events(files, key=lambda e: e.get("cfg", "?") + ":" + e.get("name", "?"))
        rej = R.validate(MODULE, files, label=lab, cfg="Trace_C08.cfg")
        seen = set()
        for f, ln, e in rej:
            if e["name"] in seen:
                continue
            seen.add(e["name"])
            R.violation("operation %s (cfg %s): secret #%d drives the code through a different branch/index sequence than the first secret "
                        "(signature %s, %d observations)" % (e.get("name"), lab, e.get("secret"), e.get("sig"), e.get("n")),
                        event=e, replay={"module": MODULE, "cfg": lab})


    # machine level: the compiled library, assembly included, under valgrind/lackey
    secrets = [0, 2, 11, 12, 15, 18] if R.tier == "quick" else [0, 1, 2, 3, 8, 11, 12, 13, 15, 17, 18, 19, 20, 21]
    labs = ["default", "noavx2"] + (["purego"] if R.tier == "thorough" else [])
    def safe_machine(lab):
        # the machine-level observation is additional evidence: if its infrastructure (valgrind, the trace parser) fails,
        # that is noted in the evidence and the verdict rests on the source-level observation alone
        try:
            return lab, machine(R, lab, secrets)
        except (vlib.Inconclusive, subprocess.TimeoutExpired, OSError) as ex:
            R.notes.append("machine-level observation under %s skipped (infrastructure): %s" % (lab, str(ex)[:400]))
            R.cov.setdefault("machine_level", {})[lab] = "skipped"
            return lab, []

    with ThreadPoolExecutor(max_workers=len(labs)) as ex:
        results = list(ex.map(safe_machine, labs))
    results = [(lab, files) for lab, files in results if files]
    for lab, files in results:
        R.count_events(files, key=lambda e: e.get("cfg", "?") + ":" + e.get("name", "?"))
        rej = R.validate(MODULE, files, label=lab + "/machine", cfg="Trace_C08.cfg")
        seen = set()
        for f, ln, e in rej:
            if e["name"] in seen:
                continue
            seen.add(e["name"])
            R.violation("operation %s (cfg %s): secret #%d makes the compiled library execute a different %s sequence than the first secret "
                        "(%d %s; valgrind/lackey trace, library code and assembly only)"
                        % (e.get("name"), lab, e.get("secret"), "instruction-address" if "machine-pc" in e["name"] else "data-address",
                           e.get("n"), "instructions" if "machine-pc" in e["name"] else "accesses"),
                        event=e, replay={"module": MODULE, "cfg": lab})


def replay(R, path):
    run(R)
