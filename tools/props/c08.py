"""C08 - secret-dependent operations run in constant time at the source level (DESIGN.md 5/C08, partial: see section 9)."""
import json
import os
import subprocess
import tempfile

import vlib
from props.common import CONFIGS

LEVEL = "exploration"
MODULE = "Trace_C08"
PKGS = ["curve", "curve/scalar", "internal/field", "internal/subtle", "primitives/x25519", "primitives/ed25519", "primitives/sr25519",
        "primitives/ed25519/extra/ecvrf", "primitives/merlin", "internal/strobe", "internal/scalar128", "primitives/h2c", "internal/elligator"]


def observe(R, lab, n):
    tags, env = CONFIGS[lab]
    d = tempfile.mkdtemp(prefix="ct-", dir=R.scratch)
    instr = R.build("ctinstr", name="ctinstr")
    p = subprocess.run([instr, "-repo", vlib.REPO, "-out", d, "-tags", ",".join(tags), "-extra", os.path.join(vlib.ROOT, "overlay", "ct")] + PKGS,
                       capture_output=True, text=True)
    if p.returncode != 0:
        raise vlib.Inconclusive("instrumenter failed: " + (p.stdout + p.stderr)[-2000:])
    R.notes.append("%s: %s" % (lab, p.stdout.strip()))
    out = os.path.join(d, "out")
    os.makedirs(out)
    args = ["go", "test", "-vet=off", "-count=1", "-overlay", os.path.join(d, "overlay.json"), "-run", "TestVerifCT"]
    if tags:
        args += ["-tags", ",".join(tags)]
    args += ["./primitives/ed25519/extra/ecvrf"]
    e = vlib.goenv(dict(env, VERIF_OUT=out, VERIF_CFG=lab, VERIF_SEED=str(R.seed), VERIF_N=str(n)))
    q = subprocess.run(args, cwd=vlib.REPO, env=e, capture_output=True, text=True, timeout=1800)
    if q.returncode != 0:
        raise vlib.Inconclusive("observation build failed under %s (the rewriter could not instrument the current tree, or the driver failed):\n%s"
                                % (lab, (q.stdout + q.stderr)[-3000:]))
    R.cov["configs"].append(lab)
    return [os.path.join(out, f) for f in os.listdir(out)], os.path.join(d, "sites.txt")


def run(R):
    R.rule = ("T: MC_C08: control skeletons of the masked table scan, the fixed-length signed-digit loop and the ladder for ALL 8-bit toy "
              "secrets: emitted label/index sequence independent of the secret; the leaky variants (direct indexing, early exit on a zero "
              "digit, skipping leading zero bits) are checked to FAIL; R: observation build (AST rewriting through go -overlay, nothing "
              "written to the repository) reports every non-constant index, slice bound and if / for / tagless-switch condition of 13 "
              "packages; 36 operations (key derivation, Ed25519 signing variants, sr25519 expansion and signing, ECVRF proving, X25519, "
              "Edwards/Ristretto/Montgomery multiplication, multiscalar, compression, scalar and field arithmetic, conditional primitives) "
              "x N secrets of one public shape (zeros, all-ones, extreme digits, Hamming-weight extremes, shared prefixes, random) on the "
              "purego, force32bit and default builds: one signature per operation; variable-time routines as sensitivity controls must "
              "show several; distinct = distinct (operation, configuration, secret)")
    R.assumptions += ["TLC/SANY", "source level only: assembly routines (window_amd64.s, field_u64_amd64.s, edwards_vector_amd64.s, "
                      "keccakf_amd64.s), the standard library and micro-architectural effects are not observed",
                      "switch statements with a tag, function values and arithmetic on secrets (variable-latency instructions) are not observed",
                      "the secrets sampled per operation"]
    R.mc("MC_C08", "MC_C08.cfg", timeout=600, workers=4)
    leaky = R.tlc("MC_C08", "MC_C08_leaky.cfg", workers=4, timeout=300)
    if not leaky["invariant"]:
        raise vlib.Inconclusive("self-test: the leaky skeletons should violate NonInterference")
    R.notes.append("non-vacuity: leaky skeleton variants violate NonInterference as expected")
    n = 24 if R.tier == "quick" else 96
    for lab in ["purego", "force32bit", "default"]:
        files, sites = observe(R, lab, n)
        R.count_events(files, key=lambda e: e.get("cfg", "?") + ":" + e.get("name", "?"))
        rej = R.validate(MODULE, files, label=lab, cfg="Trace_C08.cfg")
        seen = set()
        for f, ln, e in rej:
            if e["name"] in seen:
                continue
            seen.add(e["name"])
            R.violation("operation %s (cfg %s): secret #%d drives the code through a different branch/index sequence than the first secret "
                        "(signature %s, %d observations)" % (e.get("name"), lab, e.get("secret"), e.get("sig"), e.get("n")),
                        event=e, replay={"module": MODULE, "cfg": lab})


def replay(R, path):
    run(R)
