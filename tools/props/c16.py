"""C16 - short-vector reduction and the delta-scaled verification equation (DESIGN.md 5/C16)."""
import vlib
from props import ovl

LEVEL = "model_checking"
MODULE = "Trace_C16"
LFILES = ["internal/lattice/zz_verif_c16_test.go", "internal/lattice/zz_verif_c20_test.go"]
CFILES = ovl.CURVE_FILES + ["curve/zz_verif_c16_test.go"]


def describe(e):
    if e.get("timeout"):
        return "%s did not terminate within the watchdog limit (cfg %s): %s" % (e.get("op"), e.get("cfg"), vlib.shrink({k: v for k, v in e.items() if k in ("k", "a", "b")}))
    return "%s (cfg %s) violates the short-vector postcondition / the E[8] equivalence: %s" % (
        e.get("op"), e.get("cfg"), vlib.shrink({k: v for k, v in e.items() if k not in ("seq", "cfg", "A", "C", "out", "outx")}))


def run(R):
    R.rule = ("T: MC_C16: Pornin's algorithm 4 as a state machine over exact integers for toy orders 67 / 509 / 4093 and EVERY k below "
              "2^8 / 2^10 / 2^13 (unreduced included): exact norms and inner product, lattice membership, determinant +-l, step bound, "
              "termination (liveness under weak fairness), postcondition Short and coordinate width; MC_C01 proves on the toy curve that "
              "ANY vector satisfying Short makes the delta-scaled equation equivalent to the declarative one; R: FindShortVector recorded "
              "inside internal/lattice under a watchdog on a structured family (0, 1, L-1, (L+-1)/2, sqrt(L), all 2^j, 1/2^j, 2^j/3, L-2^j, "
              "r/q with r ~ 2^128..2^130 and q of 40..90 bits, balanced x/y splits, unreduced kL+e, random) judged by Short with BigNat; "
              "TripleScalarMulBasepointVartime and its expanded variant on torsion-laden A, C with extreme a, recomputed at real scale; "
              "distinct = distinct events")
    R.assumptions += ["TLC/SANY, BigNat/F25519/Edwards", "a 5 s / 10 s watchdog stands for non-termination"]
    for c in ("MC_C16_67.cfg", "MC_C16_509.cfg", "MC_C16_4093.cfg"):
        R.mc("MC_C16", c, timeout=1800, workers=8)
    labs = ["default", "noavx2"] if R.tier == "quick" else ["default", "noavx2", "purego", "force32bit"]
    for lab in labs:
        files = []
        if lab != "noavx2":
            files += ovl.record(R, "internal/lattice", LFILES, "TestVerifRecC16", lab, {"VERIF_N": 400 if R.tier == "quick" else 20000})
        files += ovl.record(R, "curve", CFILES, "TestVerifRecC16", lab, {"VERIF_N": 24 if R.tier == "quick" else 400})
        R.count_events(files)
        rej = R.validate(MODULE, files, label=lab, timeout=7200)
        for f, ln, e in rej:
            R.violation(describe(e), event=e, replay={"module": MODULE, "cfg": lab})


def replay(R, path):
    run(R)
