// vgparse reads a valgrind/lackey instruction and memory trace (--trace-mem=yes) of a Go test binary on
// stdin and prints one JSON line per recording delimited by the marker functions of the machine-level
// verifobs package: the signature of the sequence of instruction addresses executed INSIDE the library
// (module path prefix) and the signature of the data addresses those instructions touched.
//
// Data addresses: an address the library already touched before the recording began (tables, constants,
// stack slots, long-lived heap objects) is hashed as it is; an address first touched inside the recording
// (a fresh allocation) is renamed by order of first touch, so that where the allocator happens to place a
// fresh object does not matter while WHICH entry of an existing table is read does.
package main

import (
	"bufio"
	"crypto/sha256"
	"encoding/binary"
	"encoding/hex"
	"encoding/json"
	"flag"
	"fmt"
	"os"
	"os/exec"
	"sort"
	"strconv"
	"strings"
)

type rng struct{ lo, hi uint64 }

func main() {
	bin := flag.String("bin", "", "the traced binary (for go tool nm)")
	prefix := flag.String("prefix", "github.com/oasisprotocol/curve25519-voi/", "symbol prefix of the library")
	exclude := flag.String("exclude", "_test.,/internal/verifobs.", "symbols containing one of these are not library code")
	flag.Parse()
	out, err := exec.Command("go", "tool", "nm", "-size", "-sort", "address", *bin).Output()
	if err != nil {
		fmt.Fprintln(os.Stderr, "vgparse: go tool nm:", err)
		os.Exit(2)
	}
	var lib []rng
	var markStart, markStop uint64
	ex := strings.Split(*exclude, ",")
	for _, l := range strings.Split(string(out), "\n") {
		f := strings.Fields(l)
		if len(f) < 4 || (f[2] != "T" && f[2] != "t") {
			continue
		}
		a, _ := strconv.ParseUint(f[0], 16, 64)
		sz, _ := strconv.ParseUint(f[1], 10, 64)
		name := f[3]
		if strings.HasSuffix(name, "/internal/verifobs.MarkStart") {
			markStart = a
		}
		if strings.HasSuffix(name, "/internal/verifobs.MarkStop") {
			markStop = a
		}
		if !strings.HasPrefix(name, *prefix) {
			continue
		}
		skip := false
		for _, x := range ex {
			if x != "" && strings.Contains(name, x) {
				skip = true
			}
		}
		if !skip {
			lib = append(lib, rng{a, a + sz})
		}
	}
	if markStart == 0 || markStop == 0 || len(lib) == 0 {
		fmt.Fprintln(os.Stderr, "vgparse: marker functions or library symbols not found")
		os.Exit(2)
	}
	sort.Slice(lib, func(i, j int) bool { return lib[i].lo < lib[j].lo })
	inLib := func(a uint64) bool {
		i := sort.Search(len(lib), func(i int) bool { return lib[i].lo > a }) - 1
		return i >= 0 && a < lib[i].hi
	}
	seen := map[uint64]struct{}{}
	var fresh map[uint64]uint32
	pc, mem := sha256.New(), sha256.New()
	var ni, nmem uint64
	open, on := false, false
	w := bufio.NewWriter(os.Stdout)
	defer w.Flush()
	var buf [13]byte
	sc := bufio.NewScanner(os.Stdin)
	sc.Buffer(make([]byte, 1<<20), 1<<20)
	parse := func(b []byte) (uint64, uint64) { // "xxxxxxxx,n"
		var a, n uint64
		i := 0
		for ; i < len(b) && b[i] != ','; i++ {
			c := b[i]
			switch {
			case c >= '0' && c <= '9':
				a = a<<4 | uint64(c-'0')
			case c >= 'a' && c <= 'f':
				a = a<<4 | uint64(c-'a'+10)
			case c >= 'A' && c <= 'F':
				a = a<<4 | uint64(c-'A'+10)
			}
		}
		for i++; i < len(b); i++ {
			if b[i] >= '0' && b[i] <= '9' {
				n = n*10 + uint64(b[i]-'0')
			}
		}
		return a, n
	}
	for sc.Scan() {
		b := sc.Bytes()
		if len(b) < 4 {
			continue
		}
		if b[0] == 'I' && b[1] == ' ' {
			a, _ := parse(b[3:])
			if a == markStart {
				open, on = true, false
				pc.Reset()
				mem.Reset()
				ni, nmem = 0, 0
				fresh = map[uint64]uint32{}
				continue
			}
			if a == markStop && open {
				open, on = false, false
				for k := range fresh {
					seen[k] = struct{}{}
				}
				j, _ := json.Marshal(map[string]interface{}{"pc": hex.EncodeToString(pc.Sum(nil)[:8]), "mem": hex.EncodeToString(mem.Sum(nil)[:8]),
					"ni": ni, "nmem": nmem})
				w.Write(j)
				w.WriteByte('\n')
				continue
			}
			on = inLib(a)
			if on && open {
				binary.LittleEndian.PutUint64(buf[:8], a)
				pc.Write(buf[:8])
				ni++
			}
			continue
		}
		if b[0] == ' ' && (b[1] == 'L' || b[1] == 'S' || b[1] == 'M') && b[2] == ' ' && on {
			a, n := parse(b[3:])
			if !open {
				seen[a] = struct{}{}
				continue
			}
			buf[0] = b[1]
			if _, ok := seen[a]; ok {
				buf[1] = 'A'
				binary.LittleEndian.PutUint64(buf[2:10], a)
			} else {
				id, ok := fresh[a]
				if !ok {
					id = uint32(len(fresh))
					fresh[a] = id
				}
				buf[1] = 'F'
				binary.LittleEndian.PutUint64(buf[2:10], uint64(id))
			}
			buf[10] = byte(n)
			mem.Write(buf[:11])
			nmem++
		}
	}
}
