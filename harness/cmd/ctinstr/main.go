// Command ctinstr builds the observation overlay for property C08: it rewrites Go source files of the
// constant-time packages so that every non-constant index / slice bound and every if / for / tagless-switch
// condition reports (site, value) to internal/verifobs before being used. Nothing is written to the repository:
// the instrumented copies go to an output directory and a `go build -overlay` JSON file maps them in.
//
//	ctinstr -repo /repo -out <dir> -tags purego pkgdir...
package main

import (
	"encoding/json"
	"flag"
	"fmt"
	"go/ast"
	"go/build/constraint"
	"go/format"
	"go/parser"
	"go/token"
	"os"
	"path/filepath"
	"strconv"
	"strings"
)

const obsImport = "github.com/oasisprotocol/curve25519-voi/internal/verifobs"

var site = 0
var siteTable []string

func newSite(fset *token.FileSet, pos token.Pos, kind string) ast.Expr {
	site++
	p := fset.Position(pos)
	siteTable = append(siteTable, fmt.Sprintf("%d %s %s:%d", site, kind, p.Filename, p.Line))
	return &ast.BasicLit{Kind: token.INT, Value: strconv.Itoa(site)}
}

func call(fn string, args ...ast.Expr) ast.Expr {
	return &ast.CallExpr{Fun: &ast.SelectorExpr{X: ast.NewIdent("verifobs"), Sel: ast.NewIdent(fn)}, Args: args}
}

func isLiteral(e ast.Expr) bool {
	switch x := e.(type) {
	case *ast.BasicLit:
		return true
	case *ast.ParenExpr:
		return isLiteral(x.X)
	case *ast.Ident:
		return false
	}
	return false
}

// wrapIndex: i  ->  int(verifobs.I(site, int64(i)))
func wrapIndex(fset *token.FileSet, e ast.Expr) ast.Expr {
	if e == nil || isLiteral(e) {
		return e
	}
	conv := &ast.CallExpr{Fun: ast.NewIdent("int64"), Args: []ast.Expr{e}}
	return &ast.CallExpr{Fun: ast.NewIdent("int"), Args: []ast.Expr{call("I", newSite(fset, e.Pos(), "index"), conv)}}
}

func wrapCond(fset *token.FileSet, e ast.Expr) ast.Expr {
	if e == nil {
		return e
	}
	return call("B", newSite(fset, e.Pos(), "cond"), e)
}

type rewriter struct {
	fset    *token.FileSet
	changed bool
}

func (r *rewriter) Visit(n ast.Node) ast.Visitor {
	switch x := n.(type) {
	case *ast.GenDecl:
		if x.Tok == token.CONST || x.Tok == token.TYPE || x.Tok == token.VAR {
			// package-level initialisers run once at start-up (tables, constants): not part of any secret-dependent call
			if x.Tok != token.VAR {
				return nil
			}
		}
	case *ast.IndexExpr:
		x.Index = wrapIndex(r.fset, x.Index)
		r.changed = true
	case *ast.SliceExpr:
		x.Low = wrapIndex(r.fset, x.Low)
		x.High = wrapIndex(r.fset, x.High)
		x.Max = wrapIndex(r.fset, x.Max)
		r.changed = true
	case *ast.IfStmt:
		x.Cond = wrapCond(r.fset, x.Cond)
		r.changed = true
	case *ast.ForStmt:
		x.Cond = wrapCond(r.fset, x.Cond)
		r.changed = true
	case *ast.BinaryExpr:
		// short-circuit evaluation: the left operand decides whether the right one runs at all
		if x.Op == token.LAND || x.Op == token.LOR {
			x.X = call("B", newSite(r.fset, x.X.Pos(), "shortcircuit"), x.X)
			r.changed = true
		}
	case *ast.SwitchStmt:
		if x.Tag != nil && x.Init == nil && !isLiteral(x.Tag) {
			// a tagged switch branches on the tag's value:
			//   switch tag { ... }  ->  switch verifT := tag; verifobs.Seen(site, verifT) { default: switch verifT { ... } }
			// (no generics: the module's language version is go1.17; `default` keeps terminating-statement analysis intact)
			inner := &ast.SwitchStmt{Tag: ast.NewIdent("verifT"), Body: x.Body}
			x.Init = &ast.AssignStmt{Lhs: []ast.Expr{ast.NewIdent("verifT")}, Tok: token.DEFINE, Rhs: []ast.Expr{x.Tag}}
			x.Tag = call("Seen", newSite(r.fset, x.Tag.Pos(), "switchtag"), ast.NewIdent("verifT"))
			x.Body = &ast.BlockStmt{List: []ast.Stmt{&ast.CaseClause{List: nil, Body: []ast.Stmt{inner}}}}
			r.changed = true
			ast.Walk(r, inner.Body)
			return nil
		}
		if x.Tag == nil {
			for _, c := range x.Body.List {
				cc := c.(*ast.CaseClause)
				for i := range cc.List {
					cc.List[i] = wrapCond(r.fset, cc.List[i])
				}
			}
			r.changed = true
		}
	}
	return r
}

func matches(path string, tags map[string]bool) bool {
	b, err := os.ReadFile(path)
	if err != nil {
		return false
	}
	name := filepath.Base(path)
	if strings.HasSuffix(name, "_amd64.go") && !tags["amd64"] {
		return false
	}
	for _, line := range strings.Split(string(b), "\n") {
		line = strings.TrimSpace(line)
		if strings.HasPrefix(line, "package ") {
			break
		}
		if constraint.IsGoBuild(line) {
			ex, err := constraint.Parse(line)
			if err != nil {
				return false
			}
			return ex.Eval(func(t string) bool { return tags[t] })
		}
	}
	return true
}

func main() {
	repo := flag.String("repo", "/repo", "repository root")
	out := flag.String("out", "", "output directory")
	tagList := flag.String("tags", "", "comma separated build tags")
	extra := flag.String("extra", "", "directory with files to graft (relative paths below it are mapped into the repo)")
	flag.Parse()
	tags := map[string]bool{"amd64": true, "linux": true, "gc": true, "go1.17": true, "go1.18": true, "go1.19": true, "go1.20": true, "go1.21": true}
	for _, t := range strings.Split(*tagList, ",") {
		if t != "" {
			tags[t] = true
		}
	}
	ov := map[string]string{}
	fset := token.NewFileSet()
	for _, dir := range flag.Args() {
		ents, err := os.ReadDir(filepath.Join(*repo, dir))
		if err != nil {
			panic(err)
		}
		for _, ent := range ents {
			n := ent.Name()
			if !strings.HasSuffix(n, ".go") || strings.HasSuffix(n, "_test.go") {
				continue
			}
			src := filepath.Join(*repo, dir, n)
			if !matches(src, tags) {
				continue
			}
			f, err := parser.ParseFile(fset, src, nil, parser.ParseComments)
			if err != nil {
				panic(err)
			}
			r := &rewriter{fset: fset}
			ast.Walk(r, f)
			if !r.changed || site == 0 {
				continue
			}
			// add the import
			imp := &ast.ImportSpec{Name: ast.NewIdent("verifobs"), Path: &ast.BasicLit{Kind: token.STRING, Value: strconv.Quote(obsImport)}}
			f.Decls = append([]ast.Decl{&ast.GenDecl{Tok: token.IMPORT, Specs: []ast.Spec{imp}}}, f.Decls...)
			dst := filepath.Join(*out, "src", dir, n)
			os.MkdirAll(filepath.Dir(dst), 0o755)
			w, err := os.Create(dst)
			if err != nil {
				panic(err)
			}
			// keep the file usable even if it ends up with no use of the import
			if err := format.Node(w, fset, f); err != nil {
				panic(err)
			}
			fmt.Fprintf(w, "\nvar _ = verifobs.I\n")
			w.Close()
			ov[src] = dst
		}
	}
	if *extra != "" {
		filepath.Walk(*extra, func(p string, info os.FileInfo, err error) error {
			if err == nil && !info.IsDir() {
				rel, _ := filepath.Rel(*extra, p)
				ov[filepath.Join(*repo, rel)] = p
			}
			return nil
		})
	}
	b, _ := json.MarshalIndent(map[string]interface{}{"Replace": ov}, "", " ")
	os.WriteFile(filepath.Join(*out, "overlay.json"), b, 0o644)
	os.WriteFile(filepath.Join(*out, "sites.txt"), []byte(strings.Join(siteTable, "\n")+"\n"), 0o644)
	fmt.Printf("instrumented %d files, %d sites\n", len(ov), site)
}
