package main

import (
	"crypto"
	stded "crypto/ed25519"
	"fmt"
	"math/big"

	"github.com/oasisprotocol/curve25519-voi/primitives/ed25519"

	"verifharness/vt"
)

// C01: requests of known class through VerifyWithOptions / VerifyExpandedWithOptions.
func init() { recorders["C01"] = recC01 }

type vopts struct{ soA, soR, ncA, ncR, cl bool }

func (o vopts) ev() vt.Ev {
	return vt.Ev{"soA": o.soA, "soR": o.soR, "ncA": o.ncA, "ncR": o.ncR, "cl": o.cl}
}
func (o vopts) lib() *ed25519.VerifyOptions {
	return &ed25519.VerifyOptions{AllowSmallOrderA: o.soA, AllowSmallOrderR: o.soR, AllowNonCanonicalA: o.ncA,
		AllowNonCanonicalR: o.ncR, CofactorlessVerify: o.cl}
}
func allOpts() []vopts {
	var out []vopts
	for m := 0; m < 32; m++ {
		out = append(out, vopts{m&1 != 0, m&2 != 0, m&4 != 0, m&8 != 0, m&16 != 0})
	}
	return out
}

func resStr(f func() bool) (s string) {
	defer func() {
		if r := recover(); r != nil {
			s = "error"
			if fmt.Sprint(r) != "ed25519: incompatible verification options" {
				s = "panic:" + fmt.Sprint(r)
			}
		}
	}()
	if f() {
		return "true"
	}
	return "false"
}

// one side (A or R) of a request
type side struct {
	enc   []byte
	dec   bool
	canon bool
	zero  bool     // prime-order part vanishes
	t     int      // torsion index
	dlog  *big.Int // prime-order discrete log (0 when unknown / undecodable)
	known bool     // dlog known
}

func mkSide(r *vt.Rng, kind int, dl *big.Int, t int) side {
	switch kind {
	case 0: // canonical encoding of [dl]B + [t]T8
		return side{enc: vt.Enc(vt.Point(dl, t)), dec: true, canon: true, zero: dl.Sign() == 0, t: t, dlog: dl, known: true}
	case 1: // non-canonical encoding of a small-order point (the only points of known dlog that have one)
		tt := []int{0, 2, 4, 6}[t%4]
		ncs := vt.NonCanonical(vt.Enc(vt.Point(big.NewInt(0), tt)))
		return side{enc: ncs[r.Intn(len(ncs))], dec: true, canon: false, zero: true, t: tt, dlog: big.NewInt(0), known: true}
	default: // undecodable
		return side{enc: vt.Undecodable(r), dlog: big.NewInt(0)}
	}
}

// a verification request of known class
type vclass struct {
	lenOK, sLt, aDec, aCanon, aZero, rDec, rCanon, rZero, eqPrime bool
	tA, tR, k8                                                    int
}

func (c vclass) ev() vt.Ev {
	return vt.Ev{"lenOK": c.lenOK, "sLt": c.sLt, "aDec": c.aDec, "aCanon": c.aCanon, "aZero": c.aZero, "tA": c.tA,
		"rDec": c.rDec, "rCanon": c.rCanon, "rZero": c.rZero, "tR": c.tR, "k8": c.k8, "eqPrime": c.eqPrime}
}

type vrequest struct {
	pk, msg, sig, ctx []byte
	f                 string
	cls               vclass
	req               vt.Ev
}

// makeRequest builds the signature bytes for sides A, R (secret scalar a) and returns the request with its class.
// sVariant: 0 S*, 1 S*+L, 2 S*+1, 3 high bits, 4 boundary value (forcedS if non-nil); lenVariant: 0 64, 1 63, 2 65, 3 0 bytes.
func makeRequest(r *vt.Rng, A, R side, a *big.Int, f string, ctxb, msg []byte, sVariant, lenVariant int, forcedS *big.Int) vrequest {
	_, _, k := vt.Challenge(f, ctxb, R.enc, A.enc, msg)
	S := new(big.Int).Mod(new(big.Int).Add(R.dlog, new(big.Int).Mul(k, a)), vt.L)
	eq := A.known && R.known
	sLt := true
	switch sVariant {
	case 1:
		S.Add(S, vt.L)
		sLt = false
	case 2:
		S.Add(S, big.NewInt(1))
		S.Mod(S, vt.L)
		eq = false
	case 3:
		S.SetBit(S, 253+r.Intn(3), 1)
		sLt = false
	case 4:
		S = []*big.Int{big.NewInt(0), new(big.Int).Sub(vt.L, big.NewInt(1)), new(big.Int).Set(vt.L), new(big.Int).Add(vt.L, big.NewInt(1)),
			new(big.Int).Sub(new(big.Int).Lsh(big.NewInt(1), 256), big.NewInt(1))}[r.Intn(5)]
		if forcedS != nil {
			S = forcedS
		}
		sLt = S.Cmp(vt.L) < 0
		want := new(big.Int).Mod(new(big.Int).Add(R.dlog, new(big.Int).Mul(k, a)), vt.L)
		eq = eq && new(big.Int).Mod(S, vt.L).Cmp(want) == 0
	}
	sig := append(append([]byte(nil), R.enc...), vt.LE(S, 32)...)
	lenOK := true
	switch lenVariant {
	case 1:
		sig = sig[:63]
		lenOK = false
	case 2:
		sig = append(sig, 0)
		lenOK = false
	case 3:
		sig = nil
		lenOK = false
	}
	cls := vclass{lenOK: lenOK, sLt: sLt, aDec: A.dec, aCanon: A.canon, aZero: A.zero, tA: A.t, rDec: R.dec, rCanon: R.canon,
		rZero: R.zero, tR: R.t, k8: int(new(big.Int).Mod(k, big.NewInt(8)).Int64()), eqPrime: eq}
	hin2, h2, _ := vt.Challenge(f, ctxb, headOr(sig, R.enc), A.enc, msg) // over the signature bytes actually sent
	req := vt.Ev{"pk": vt.B(A.enc), "msg": vt.B(msg), "sig": vt.B(sig), "f": f, "ctx": vt.B(ctxb), "h": vt.B(h2), "hin": vt.B(hin2)}
	return vrequest{pk: A.enc, msg: msg, sig: sig, ctx: ctxb, f: f, cls: cls, req: req}
}

func recC01(c *ctx) {
	r := c.r
	opts := allOpts()
	perCombo := 1
	if c.tier == "thorough" {
		perCombo = 4
	}
	nreq := 0
	var forcedS *big.Int
	emit := func(A, R side, a *big.Int, f string, ctxb, msg []byte, sVariant int, lenVariant int, only []vopts) {
		rq := makeRequest(r, A, R, a, f, ctxb, msg, sVariant, lenVariant, forcedS)
		cl, req, sig := rq.cls.ev(), rq.req, rq.sig
		nreq++
		xk, xerr := ed25519.NewExpandedPublicKey(A.enc)
		for _, o := range only {
			lo := &ed25519.Options{Verify: o.lib(), Context: string(ctxb)}
			if f == "ph" {
				lo.Hash = crypto.SHA512
			}
			e := vt.Ev{"op": "vclass", "cfg": c.cfg, "o": o.ev(), "c": cl, "req": req, "nreq": nreq}
			e["res"] = resStr(func() bool { return ed25519.VerifyWithOptions(A.enc, msg, sig, lo) })
			if xerr != nil {
				e["resx"] = "nokey"
			} else {
				e["resx"] = resStr(func() bool { return ed25519.VerifyExpandedWithOptions(xk, msg, sig, lo) })
			}
			if f == "pure" && o == (vopts{true, true, true, false, true}) {
				if stded.Verify(A.enc, msg, sig) {
					e["std"] = "true"
				} else {
					e["std"] = "false"
				}
			}
			c.w.Emit(e)
		}
	}
	pick := func(n int) []vopts { // a rotating subset of the 32 option vectors plus the four presets
		out := []vopts{{false, true, false, false, false}, {true, true, true, false, true}, {true, true, false, false, false}, {true, true, true, true, false}}
		for i := 0; i < n; i++ {
			out = append(out, opts[r.Intn(32)])
		}
		return out
	}
	fs := []string{"pure", "ctx", "ph"}
	mkmsg := func(f string) ([]byte, []byte) {
		var ctxb []byte
		if f != "pure" {
			ctxb = r.Bytes([]int{1, 7, 255}[r.Intn(3)])
		}
		if f == "ph" {
			if r.Intn(2) == 0 {
				ctxb = nil
			}
			return r.Bytes(64), ctxb
		}
		return r.Bytes([]int{0, 1, 32, 100}[r.Intn(4)]), ctxb
	}
	rnd := func() *big.Int { return new(big.Int).Mod(vt.FromLE(r.Bytes(40)), vt.L) }

	// ---- (1) honest and torsion-shifted signatures: all tA x tR, a, r in {0, generic}, ALL 32 option vectors
	for tA := 0; tA < 8; tA++ {
		for tR := 0; tR < 8; tR++ {
			for za := 0; za < 2; za++ {
				for zr := 0; zr < 2; zr++ {
					for rep := 0; rep < perCombo; rep++ {
						a, rr := rnd(), rnd()
						if za == 1 {
							a = big.NewInt(0)
						}
						if zr == 1 {
							rr = big.NewInt(0)
						}
						A, R := mkSide(r, 0, a, tA), mkSide(r, 0, rr, tR)
						f := fs[r.Intn(3)]
						msg, ctxb := mkmsg(f)
						emit(A, R, a, f, ctxb, msg, 0, 0, opts)
					}
				}
			}
		}
	}
	// ---- (2) cofactorless-valid requests found by search on the message: (k8 tA + tR) = 0 mod 8
	for tA := 0; tA < 8; tA++ {
		for tR := 0; tR < 8; tR++ {
			a, rr := rnd(), rnd()
			A, R := mkSide(r, 0, a, tA), mkSide(r, 0, rr, tR)
			for try := 0; try < 64; try++ {
				msg := r.Bytes(16)
				_, _, k := vt.Challenge("pure", nil, R.enc, A.enc, msg)
				k8 := int(new(big.Int).Mod(k, big.NewInt(8)).Int64())
				if (k8*tA+tR)%8 == 0 {
					emit(A, R, a, "pure", nil, msg, 0, 0, opts)
					break
				}
			}
		}
	}
	// ---- (3) encoding kinds, S variants, lengths
	for ka := 0; ka < 3; ka++ {
		for kr := 0; kr < 3; kr++ {
			for sv := 0; sv < 5; sv++ {
				for lv := 0; lv < 4; lv++ {
					if lv != 0 && sv != 0 {
						continue
					}
					for rep := 0; rep < perCombo; rep++ {
						a, rr := rnd(), rnd()
						tA, tR := r.Intn(8), r.Intn(8)
						A, R := mkSide(r, ka, a, tA), mkSide(r, kr, rr, tR)
						if !A.known || A.zero {
							a = big.NewInt(0)
						}
						f := fs[r.Intn(3)]
						msg, ctxb := mkmsg(f)
						o := opts
						if sv != 0 || lv != 0 {
							o = pick(6)
						}
						emit(A, R, a, f, ctxb, msg, sv, lv, o)
					}
				}
			}
		}
	}
	ropts := make([]vopts, len(opts))
	for i := range opts {
		ropts[len(opts)-1-i] = opts[i]
	}
	// ---- (3b') canonical small-order keys (all eight) and small-order R under the option vectors in both orders
	for tt := 0; tt < 8; tt++ {
		for _, oo := range [][]vopts{opts, ropts} {
			f := fs[r.Intn(3)]
			msg, ctxb := mkmsg(f)
			emit(mkSide(r, 0, big.NewInt(0), tt), mkSide(r, 0, rnd(), r.Intn(8)), big.NewInt(0), f, ctxb, msg, 0, 0, oo)
			msg, ctxb = mkmsg(f)
			a := rnd()
			emit(mkSide(r, 0, a, r.Intn(8)), mkSide(r, 0, big.NewInt(0), tt), a, f, ctxb, msg, 0, 0, oo)
		}
	}
	// ---- (3b) the COMPLETE family of non-canonical encodings of small-order points (y + p for y < 19, sign bit set on x = 0,
	// both together), each as R and as A, under every option vector: a rule keyed on the bytes must know all of them
	for tt := 0; tt < 8; tt++ {
		for _, nc := range vt.NonCanonical(vt.Enc(vt.Point(big.NewInt(0), tt))) {
			ncSide := side{enc: nc, dec: true, canon: false, zero: true, t: tt, dlog: big.NewInt(0), known: true}
			a, rr := rnd(), rnd()
			f := fs[r.Intn(3)]
			msg, ctxb := mkmsg(f)
			emit(mkSide(r, 0, a, r.Intn(8)), ncSide, a, f, ctxb, msg, 0, 0, opts)
			msg, ctxb = mkmsg(f)
			emit(ncSide, mkSide(r, 0, rr, r.Intn(8)), big.NewInt(0), f, ctxb, msg, 0, 0, opts)
			// the same request under the option vectors in the OPPOSITE order: the decision for (request, options) must not
			// depend on what was verified before (anything remembered about a key or a signature across calls)
			emit(ncSide, mkSide(r, 0, rr, r.Intn(8)), big.NewInt(0), f, ctxb, msg, 0, 0, ropts)
		}
	}
	// ---- (3a) length sweep: honest requests whose context and message lengths walk through every total 0..330 (ctx) and
	// every context length 0..255 (ph: the message is the 64-byte prehash): input assembly must not depend on the sizes
	// (internal buffers, block boundaries of the hash at 111/112, 127/128, 239/240 ...)
	lstep, loff := 1, 0 // every length: the class layer costs a few milliseconds per request
	two := []vopts{{false, true, false, false, false}, {true, true, true, true, false}}
	for total := loff; total <= 330; total += lstep {
		cl := 1 + r.Intn(255)
		if cl > total {
			cl = total
		}
		if cl == 0 {
			cl = 1 // Ed25519ctx needs a non-empty context
		}
		ml := total - cl
		if ml < 0 {
			ml = 0
		}
		a, rr := rnd(), rnd()
		A, R := mkSide(r, 0, a, 0), mkSide(r, 0, rr, 0)
		emit(A, R, a, "ctx", r.Bytes(cl), r.Bytes(ml), 0, 0, two)
		// the other split: a long context (up to 255) first
		cl2 := total
		if cl2 > 255 {
			cl2 = 255
		}
		if cl2 >= 1 {
			a2, rr2 := rnd(), rnd()
			A2, R2 := mkSide(r, 0, a2, 0), mkSide(r, 0, rr2, 0)
			emit(A2, R2, a2, "ctx", r.Bytes(cl2), r.Bytes(total-cl2), 0, 0, two)
		}
	}
	for cl := loff; cl <= 255; cl += lstep {
		a, rr := rnd(), rnd()
		A, R := mkSide(r, 0, a, 0), mkSide(r, 0, rr, 0)
		emit(A, R, a, "ph", r.Bytes(cl), r.Bytes(64), 0, 0, two)
	}
	for ml := loff; ml <= 330; ml += 2 * lstep {
		a, rr := rnd(), rnd()
		A, R := mkSide(r, 0, a, 0), mkSide(r, 0, rr, 0)
		emit(A, R, a, "pure", nil, r.Bytes(ml), 0, 0, two)
	}
	// ---- (3b) the S range check on the whole boundary family (kL+e, per-word compare classes against L, 2^k..)
	bd := vt.Boundary256()
	step := 4
	if c.tier == "thorough" {
		step = 1
	}
	for i := int(r.Int63() % int64(step)); i < len(bd); i += step {
		// S is free when A has small order (a = 0): R = [S mod L]B makes the equation hold for exactly this S,
		// so the decision rests on the S < L check alone
		forcedS = vt.FromLE(bd[i])
		a, rr := big.NewInt(0), new(big.Int).Mod(forcedS, vt.L)
		A, R := mkSide(r, 0, a, r.Intn(8)), mkSide(r, 0, rr, 0)
		emit(A, R, a, "pure", nil, r.Bytes(8), 4, 0, pick(1))
		forcedS = nil
	}
	// ---- (4) honest signatures from the library's own signer, mutated bit by bit
	for rep := 0; rep < 2*perCombo; rep++ {
		seed := r.Bytes(32)
		priv := ed25519.NewKeyFromSeed(seed)
		pub := []byte(priv[32:])
		f := fs[rep%3]
		msg, ctxb := mkmsg(f)
		lo := &ed25519.Options{Context: string(ctxb)}
		if f == "ph" {
			lo.Hash = crypto.SHA512
		}
		sig, err := priv.Sign(nil, msg, lo)
		if err != nil {
			panic(err)
		}
		// class of the honest signature: A, R canonical, large order, torsion free
		A := side{enc: pub, dec: true, canon: true, zero: false, t: 0, dlog: big.NewInt(0), known: false}
		_ = A
		for bit := 0; bit < 512; bit += 1 + r.Intn(24) {
			s2 := append([]byte(nil), sig...)
			s2[bit/8] ^= 1 << uint(bit%8)
			for _, o := range pick(2) {
				lo2 := &ed25519.Options{Verify: o.lib(), Context: string(ctxb), Hash: lo.Hash}
				res := resStr(func() bool { return ed25519.VerifyWithOptions(pub, msg, s2, lo2) })
				hin, h, _ := vt.Challenge(f, ctxb, s2[:32], pub, msg)
				c.w.Emit(vt.Ev{"op": "vmut", "cfg": c.cfg, "o": o.ev(), "bit": bit, "res": res,
					"req": vt.Ev{"pk": vt.B(pub), "msg": vt.B(msg), "sig": vt.B(s2), "f": f, "ctx": vt.B(ctxb), "h": vt.B(h), "hin": vt.B(hin)}})
			}
		}
		for _, o := range opts {
			lo2 := &ed25519.Options{Verify: o.lib(), Context: string(ctxb), Hash: lo.Hash}
			res := resStr(func() bool { return ed25519.VerifyWithOptions(pub, msg, sig, lo2) })
			hin, h, _ := vt.Challenge(f, ctxb, sig[:32], pub, msg)
			c.w.Emit(vt.Ev{"op": "vhonest", "cfg": c.cfg, "o": o.ev(), "res": res,
				"req": vt.Ev{"pk": vt.B(pub), "msg": vt.B(msg), "sig": vt.B(sig), "f": f, "ctx": vt.B(ctxb), "h": vt.B(h), "hin": vt.B(hin)}})
		}
	}
}

func headOr(sig, def []byte) []byte {
	if len(sig) >= 32 {
		return sig[:32]
	}
	return def
}
