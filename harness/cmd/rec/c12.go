package main

import (
	"bytes"
	"crypto/sha256"
	"crypto/sha512"
	"math/big"

	"golang.org/x/crypto/sha3"

	"github.com/oasisprotocol/curve25519-voi/curve"
	"github.com/oasisprotocol/curve25519-voi/primitives/sr25519"

	"verifharness/vt"
)

// C12: sr25519. Key expansion, signing and verification are recomputed by the specification over Merlin
// transcripts (Keccak in TLA+) and Ristretto255; decoders over boundary strings; batch histories.
func init() { recorders["C12"] = recC12 }

func recC12(c *ctx) {
	r := c.r
	n := c.budget(4, 40)
	L := vt.L
	emit := func(e vt.Ev) { e["cfg"] = c.cfg; c.w.Emit(e) }
	// one signing context is reused for several transcripts, as applications do
	ctxBytes := r.Bytes(8)
	sctx := sr25519.NewSigningContext(ctxBytes)
	mkTranscript := func(kind int, msg []byte) (*sr25519.SigningTranscript, vt.Ev) {
		switch kind {
		case 0:
			return sctx.NewTranscriptBytes(msg), vt.Ev{"tkind": "bytes", "ctx": vt.B(ctxBytes), "msg": vt.B(msg)}
		case 1:
			h := sha512.New()
			h.Write(msg)
			return sctx.NewTranscriptHash(h), vt.Ev{"tkind": "hash512", "ctx": vt.B(ctxBytes), "msg": vt.B(h.Sum(nil))}
		case 2:
			h := sha256.New()
			h.Write(msg)
			return sctx.NewTranscriptHash(h), vt.Ev{"tkind": "hash256", "ctx": vt.B(ctxBytes), "msg": vt.B(h.Sum(nil))}
		default:
			x := sha3.NewShake256()
			x.Write(msg)
			pre := make([]byte, 32)
			x.Clone().Read(pre)
			return sctx.NewTranscriptXOF(x), vt.Ev{"tkind": "xof", "ctx": vt.B(ctxBytes), "msg": vt.B(pre)}
		}
	}
	add := func(e, t vt.Ev) vt.Ev {
		for k, v := range t {
			e[k] = v
		}
		return e
	}
	for i := 0; i < n; i++ {
		mini := r.Bytes(32)
		msk, _ := sr25519.NewMiniSecretKeyFromBytes(mini)
		var sk *sr25519.SecretKey
		mode := "uniform"
		var shaTab []vt.Ev
		if i%2 == 1 {
			mode = "ed25519"
			sk = msk.ExpandEd25519()
			d := sha512.Sum512(mini)
			shaTab = []vt.Ev{{"in": vt.B(mini), "out": vt.B(d[:])}}
		} else {
			sk = msk.ExpandUniform()
			shaTab = []vt.Ev{}
		}
		skb, _ := sk.MarshalBinary()
		kp := sk.KeyPair()
		pkb, _ := kp.PublicKey().MarshalBinary()
		emit(vt.Ev{"op": "srexpand", "mode": mode, "mini": vt.B(mini), "sk": vt.B(skb), "pk": vt.B(pkb), "sha": shaTab})
		// sign on each transcript source with the SAME context object
		for kind := 0; kind < 4; kind++ {
			if c.tier != "thorough" && kind != i%4 && kind != (i+1)%4 {
				continue
			}
			msg := r.Bytes(r.Intn(80))
			tr, tev := mkTranscript(kind, msg)
			ent := r.Bytes(32)
			sig, err := kp.Sign(r.Entropy(ent), tr)
			if err != nil {
				emit(vt.Ev{"op": "srfail", "what": "sign", "err": err.Error()})
				continue
			}
			sb, _ := sig.MarshalBinary()
			emit(add(vt.Ev{"op": "srsign", "sk": vt.B(skb), "pk": vt.B(pkb), "entropy": vt.B(ent), "sig": vt.B(sb)}, tev))
			// verify: honest, and with every kind of difference
			ver := func(kindv string, pk []byte, tv *sr25519.SigningTranscript, tevv vt.Ev, sbytes []byte) {
				e := add(vt.Ev{"op": "srverify", "kind": kindv, "pk": vt.B(pk), "sig": vt.B(sbytes)}, tevv)
				p, err1 := sr25519.NewPublicKeyFromBytes(pk)
				s, err2 := sr25519.NewSignatureFromBytes(sbytes)
				e["pkok"], e["sigok"] = err1 == nil, err2 == nil
				if err1 == nil && err2 == nil {
					e["ok"] = p.Verify(tv, s)
				} else {
					e["ok"] = false
				}
				emit(e)
			}
			tr2, _ := mkTranscript(kind, msg)
			ver("honest", pkb, tr2, tev, sb)
			if kind == i%4 {
				bit := r.Intn(511)
				fb := append([]byte(nil), sb...)
				fb[bit/8] ^= 1 << uint(bit%8)
				tr3, _ := mkTranscript(kind, msg)
				ver("bitflip", pkb, tr3, tev, fb)
				msg2 := append(append([]byte(nil), msg...), 7)
				tr4, tev4 := mkTranscript(kind, msg2)
				ver("othermsg", pkb, tr4, tev4, sb)
				// s + L does not fit below 2^255 together with the marker... it does: L < 2^253; must be rejected by the decoder
				sl := append([]byte(nil), sb...)
				sv := vt.FromLE(append(append([]byte(nil), sb[32:63]...), sb[63]&0x7f))
				copy(sl[32:], vt.LE(new(big.Int).Add(sv, L), 32))
				sl[63] |= 0x80
				tr5, _ := mkTranscript(kind, msg)
				ver("s+L", pkb, tr5, tev, sl)
				// another representative's encoding cannot exist (canonical); a different key
				other, _ := sr25519.GenerateKeyPair(bytes.NewReader(r.Bytes(4096)))
				opk, _ := other.PublicKey().MarshalBinary()
				tr6, _ := mkTranscript(kind, msg)
				ver("otherkey", opk, tr6, tev, sb)
				um := append([]byte(nil), sb...)
				um[63] &= 0x7f
				tr7, _ := mkTranscript(kind, msg)
				ver("unmarked", pkb, tr7, tev, um)
			}
		}
	}
	// ---- length sweep: every context length 0..80 (message length running along, 0..160) through all transcript sources
	// in turn: the signature verifies on its own transcript and on none that differs in the last context byte, the last
	// message byte, or the split between context and message; signing with an entropy source that breaks must fail
	{
		skp, _ := sr25519.GenerateKeyPair(bytes.NewReader(r.Bytes(4096)))
		spk := skp.PublicKey()
		for cl := 0; cl <= 80; cl++ {
			ctxb, msg := r.Bytes(cl), r.Bytes((cl*2)%161)
			e := vt.Ev{"op": "srsweep", "ctxlen": cl, "msglen": len(msg), "tkind": cl % 2, "same": false, "ctxlast": false, "msglast": false, "split": false, "failed": false}
			if !c.try("srsweep", e, func() {
				mk := func(cb, m []byte) *sr25519.SigningTranscript {
					sc := sr25519.NewSigningContext(cb)
					if cl%2 == 0 {
						return sc.NewTranscriptBytes(m)
					}
					h := sha512.New()
					h.Write(m)
					return sc.NewTranscriptHash(h)
				}
				_, ferr := skp.Sign(r.FailingEntropy(r.Bytes(64), r.Intn(32)), mk(ctxb, msg))
				e["failed"] = ferr != nil
				sig, err := skp.Sign(r.Entropy(r.Bytes(64)), mk(ctxb, msg))
				if err != nil {
					e["same"] = false
					return
				}
				e["same"] = spk.Verify(mk(ctxb, msg), sig)
				e["ctxlast"], e["msglast"], e["split"] = false, false, false
				if cl > 0 {
					c2 := append([]byte(nil), ctxb...)
					c2[cl-1] ^= 1
					e["ctxlast"] = spk.Verify(mk(c2, msg), sig)
					// the last context byte moved to the front of the message: same concatenation, different split
					e["split"] = spk.Verify(mk(ctxb[:cl-1], append([]byte{ctxb[cl-1]}, msg...)), sig)
				}
				if len(msg) > 0 {
					m2 := append([]byte(nil), msg...)
					m2[len(m2)-1] ^= 1
					e["msglast"] = spk.Verify(mk(ctxb, m2), sig)
				}
			}) {
				continue
			}
			emit(e)
		}
	}
	// ---- values handed to the caller are the caller's own: every marshaller, result scribbled over, marshalled again
	{
		fkp, _ := sr25519.GenerateKeyPair(bytes.NewReader(r.Bytes(4096)))
		fsig, _ := fkp.Sign(bytes.NewReader(r.Bytes(4096)), sctx.NewTranscriptBytes([]byte("fresh")))
		fmsk, _ := sr25519.GenerateMiniSecretKey(bytes.NewReader(r.Bytes(64)))
		for _, m := range []struct {
			name string
			get  func() []byte
		}{
			{"KeyPair.MarshalBinary", func() []byte { b, _ := fkp.MarshalBinary(); return b }},
			{"PublicKey.MarshalBinary", func() []byte { b, _ := fkp.PublicKey().MarshalBinary(); return b }},
			{"SecretKey.MarshalBinary", func() []byte { b, _ := fkp.SecretKey().MarshalBinary(); return b }},
			{"Signature.MarshalBinary", func() []byte { b, _ := fsig.MarshalBinary(); return b }},
			{"MiniSecretKey.MarshalBinary", func() []byte { b, _ := fmsk.MarshalBinary(); return b }},
		} {
			b1 := m.get()
			snap := append([]byte(nil), b1...)
			for i := range b1 {
				b1[i] ^= 0xff
			}
			ok := bytes.Equal(m.get(), snap)
			// and the object still works: the key pair signs and its public key verifies
			s2, err := fkp.Sign(bytes.NewReader(r.Bytes(4096)), sctx.NewTranscriptBytes([]byte("fresh2")))
			ok = ok && err == nil && fkp.PublicKey().Verify(sctx.NewTranscriptBytes([]byte("fresh2")), s2)
			emit(vt.Ev{"op": "srfresh", "api": m.name, "ok": ok})
		}
	}
	// ---- generators: GenerateMiniSecretKey = the 32 bytes read; GenerateSecretKey = wide-reduced 64 bytes || 32 nonce bytes
	for i := 0; i < 2; i++ {
		ent := r.Bytes(96)
		m, err1 := sr25519.GenerateMiniSecretKey(r.Entropy(ent))
		s, err2 := sr25519.GenerateSecretKey(r.Entropy(ent))
		k, err3 := sr25519.GenerateKeyPair(r.Entropy(ent))
		if err1 != nil || err2 != nil || err3 != nil {
			emit(vt.Ev{"op": "srfail", "what": "generate"})
			continue
		}
		mb, _ := m.MarshalBinary()
		sb, _ := s.MarshalBinary()
		kb, _ := k.MarshalBinary()
		emit(vt.Ev{"op": "srgen", "entropy": vt.B(ent), "mini": vt.B(mb), "sk": vt.B(sb), "pair": vt.B(kb)})
	}
	// ---- decoders on boundary strings
	var (
		ruPub  sr25519.PublicKey
		ruSec  sr25519.SecretKey
		ruSig  sr25519.Signature
		ruPair sr25519.KeyPair
	)
	dec := func(kind string, b []byte) {
		e := vt.Ev{"op": "srdecode", "kind": kind, "in": vt.B(b)}
		var out []byte
		var err error
		switch kind {
		case "pub":
			var k *sr25519.PublicKey
			if k, err = sr25519.NewPublicKeyFromBytes(b); err == nil {
				out, _ = k.MarshalBinary()
			}
		case "sec":
			var k *sr25519.SecretKey
			if k, err = sr25519.NewSecretKeyFromBytes(b); err == nil {
				out, _ = k.MarshalBinary()
			}
		case "sig":
			var k *sr25519.Signature
			if k, err = sr25519.NewSignatureFromBytes(b); err == nil {
				out, _ = k.MarshalBinary()
			}
		case "pair":
			var k *sr25519.KeyPair
			if k, err = sr25519.NewKeyPairFromBytes(b); err == nil {
				out, _ = k.MarshalBinary()
			}
		case "edsec":
			var k *sr25519.SecretKey
			if k, err = sr25519.NewSecretKeyFromEd25519Bytes(b); err == nil {
				out, _ = k.MarshalBinary()
			}
		}
		e["ok"] = err == nil
		if err == nil {
			e["out"] = vt.B(out)
		}
		// the same input decoded into a LONG-LIVED receiver that was used before (public key derived, re-encoded): the
		// outcome, the encoding and everything derived from the object must be those of a fresh object
		reuse := true
		pubOf := func(p *sr25519.PublicKey) []byte { b, _ := p.MarshalBinary(); return b }
		switch kind {
		case "pub":
			err2 := ruPub.UnmarshalBinary(b)
			reuse = (err2 == nil) == (err == nil)
			if err2 == nil && err == nil {
				reuse = bytes.Equal(pubOf(&ruPub), out)
			}
		case "sec":
			err2 := ruSec.UnmarshalBinary(b)
			reuse = (err2 == nil) == (err == nil)
			if err2 == nil && err == nil {
				fresh, _ := sr25519.NewSecretKeyFromBytes(b)
				o2, _ := ruSec.MarshalBinary()
				reuse = bytes.Equal(o2, out) && bytes.Equal(pubOf(ruSec.PublicKey()), pubOf(fresh.PublicKey())) &&
					bytes.Equal(pubOf(ruSec.KeyPair().PublicKey()), pubOf(fresh.PublicKey()))
			}
		case "sig":
			err2 := ruSig.UnmarshalBinary(b)
			reuse = (err2 == nil) == (err == nil)
			if err2 == nil && err == nil {
				o2, _ := ruSig.MarshalBinary()
				reuse = bytes.Equal(o2, out)
			}
		case "pair":
			err2 := ruPair.UnmarshalBinary(b)
			reuse = (err2 == nil) == (err == nil)
			if err2 == nil && err == nil {
				fresh, _ := sr25519.NewKeyPairFromBytes(b)
				o2, _ := ruPair.MarshalBinary()
				s2, _ := ruPair.SecretKey().MarshalBinary()
				s1, _ := fresh.SecretKey().MarshalBinary()
				reuse = bytes.Equal(o2, out) && bytes.Equal(pubOf(ruPair.PublicKey()), pubOf(fresh.PublicKey())) && bytes.Equal(s1, s2)
			}
		}
		e["reuse"] = reuse
		emit(e)
	}
	kp, _ := sr25519.GenerateKeyPair(bytes.NewReader(r.Bytes(4096)))
	pkb, _ := kp.PublicKey().MarshalBinary()
	skb, _ := kp.SecretKey().MarshalBinary()
	kpb, _ := kp.MarshalBinary()
	sg, _ := kp.Sign(bytes.NewReader(r.Bytes(64)), sctx.NewTranscriptBytes([]byte("m")))
	sgb, _ := sg.MarshalBinary()
	scalars := [][]byte{vt.LE(big.NewInt(0), 32), vt.LE(new(big.Int).Sub(L, big.NewInt(1)), 32), vt.LE(L, 32), vt.LE(new(big.Int).Add(L, big.NewInt(1)), 32)}
	for _, hb := range []byte{0x10, 0x20, 0x40} {
		x := vt.LE(big.NewInt(5), 32)
		x[31] |= hb
		scalars = append(scalars, x)
	}
	for _, s := range scalars {
		// signature: R || s with and without the marker
		for _, mark := range []byte{0, 0x80} {
			b := append(append([]byte(nil), sgb[:32]...), s...)
			b[63] |= mark
			dec("sig", b)
		}
		dec("sec", append(append([]byte(nil), s...), skb[32:]...))
		kb := append(append(append([]byte(nil), s...), skb[32:]...), pkb...)
		dec("pair", kb) // mismatched key pair unless s is the real key
	}
	dec("pair", kpb)
	dec("sec", skb)
	dec("sig", sgb)
	dec("pub", pkb)
	for _, l := range []int{0, 31, 33, 63, 65, 95, 97} {
		for _, k := range []string{"pub", "sec", "sig", "pair", "edsec"} {
			dec(k, r.Bytes(l))
		}
	}
	// public keys / R: non-canonical, negative, invalid Ristretto strings
	for v := 0; v < 12; v++ {
		b := make([]byte, 32)
		b[0] = byte(v)
		dec("pub", b)
		dec("sig", append(append([]byte(nil), b...), sgb[32:]...)) // the signature decoder does not decompress R (lazy)
	}
	pm := bytes.Repeat([]byte{0xff}, 32)
	pm[0], pm[31] = 0xed, 0x7f
	for d := -2; d <= 2; d++ {
		b := append([]byte(nil), pm...)
		b[0] = byte(0xed + d)
		dec("pub", b)
	}
	hb := append([]byte(nil), pkb...)
	hb[31] |= 0x80
	dec("pub", hb)
	for i := 0; i < 24; i++ {
		dec("pub", r.Bytes(32))
		b := r.Bytes(64)
		if i%2 == 0 {
			b[0] &= 0xf8
			b[31] = (b[31] & 0x3f) | 0x40
		}
		dec("edsec", b)
	}
	// Ed25519-style expanded keys: the clamped form and EVERY single violation of the clamp (each low bit set, bit 254 clear,
	// bit 255 set, both top bits wrong)
	{
		b := r.Bytes(64)
		b[0] &= 0xf8
		b[31] = (b[31] & 0x3f) | 0x40
		dec("edsec", b)
		for _, m := range [][3]byte{{0, 0x01, 0}, {0, 0x02, 0}, {0, 0x04, 0}, {31, 0x80, 0}, {31, 0, 0x40}, {31, 0x80, 0x40}} {
			v := append([]byte(nil), b...)
			v[m[0]] = (v[m[0]] | m[1]) &^ m[2]
			dec("edsec", v)
		}
	}
	// ---- batch histories: results equal single verification
	nb := c.budget(6, 60)
	for h := 0; h < nb; h++ {
		sh := h % 16
		bemit := func(e vt.Ev) { e["cfg"] = c.cfg; e["hist"] = h; c.w.EmitTo(sh, e) }
		bv := sr25519.NewBatchVerifier()
		bemit(vt.Ev{"op": "srbnew"})
		steps := 3 + r.Intn(8)
		for s := 0; s < steps; s++ {
			switch x := r.Intn(12); {
			case x < 8:
				k, _ := sr25519.GenerateKeyPair(bytes.NewReader(r.Bytes(4096)))
				msg := r.Bytes(10)
				tr, _ := mkTranscript(r.Intn(4)%1, msg)
				sig, _ := k.Sign(bytes.NewReader(r.Bytes(64)), tr)
				pk := k.PublicKey()
				vtr := sctx.NewTranscriptBytes(msg)
				kind := "valid"
				switch r.Intn(5) {
				case 0: // wrong message
					vtr = sctx.NewTranscriptBytes(append(msg, 1))
					kind = "wrongmsg"
				case 1: // R that does not decompress: the decoder accepts it (lazy), verification must not
					sbb, _ := sig.MarshalBinary()
					bad := make([]byte, 32)
					bad[0] = 1 // s = 1 is negative: not a valid Ristretto encoding
					sig, _ = sr25519.NewSignatureFromBytes(append(bad, sbb[32:]...))
					kind = "badR"
				case 2: // uninitialised signature
					sig = &sr25519.Signature{}
					kind = "zerosig"
				}
				single := false
				if sig != nil {
					single = pk.Verify(vtr, sig)
					bv.Add(pk, sctx.NewTranscriptBytes(func() []byte {
						if kind == "wrongmsg" {
							return append(append([]byte(nil), msg...), 1)
						}
						return msg
					}()), sig)
					bemit(vt.Ev{"op": "srbadd", "kind": kind, "single": single})
				}
			case x < 10:
				all, vec := bv.Verify(nil)
				if vec == nil {
					vec = []bool{}
				}
				bemit(vt.Ev{"op": "srbverify", "all": all, "vec": vec})
			case x < 11:
				bemit(vt.Ev{"op": "srbonly", "res": bv.VerifyBatchOnly(nil)})
			default:
				bv.Reset()
				bemit(vt.Ev{"op": "srbreset"})
			}
		}
		all, vec := bv.Verify(nil)
		if vec == nil {
			vec = []bool{}
		}
		bemit(vt.Ev{"op": "srbverify", "all": all, "vec": vec})
		bemit(vt.Ev{"op": "srbonly", "res": bv.VerifyBatchOnly(nil)})
		// reuse after Reset: a batch of valid entries, Reset, then malformed entries (R that does not decompress, an
		// uninitialised signature) in the slots the valid ones occupied - nothing of the first batch may survive
		if h%2 == 1 {
			mkValid := func() (*sr25519.PublicKey, []byte, *sr25519.Signature) {
				k, _ := sr25519.GenerateKeyPair(bytes.NewReader(r.Bytes(4096)))
				msg := r.Bytes(10)
				sig, _ := k.Sign(bytes.NewReader(r.Bytes(64)), sctx.NewTranscriptBytes(msg))
				return k.PublicKey(), msg, sig
			}
			bv.Reset()
			bemit(vt.Ev{"op": "srbreset"})
			for i := 0; i < 3; i++ {
				pk, msg, sig := mkValid()
				bv.Add(pk, sctx.NewTranscriptBytes(msg), sig)
				bemit(vt.Ev{"op": "srbadd", "kind": "valid", "single": pk.Verify(sctx.NewTranscriptBytes(msg), sig)})
			}
			bemit(vt.Ev{"op": "srbonly", "res": bv.VerifyBatchOnly(nil)})
			bv.Reset()
			bemit(vt.Ev{"op": "srbreset"})
			for i := 0; i < 3; i++ {
				pk, msg, sig := mkValid()
				kind := "valid"
				switch i {
				case 0: // R that does not decompress
					sbb, _ := sig.MarshalBinary()
					bad := make([]byte, 32)
					bad[0] = 1
					sig, _ = sr25519.NewSignatureFromBytes(append(bad, sbb[32:]...))
					kind = "badR"
				case 2:
					sig = &sr25519.Signature{}
					kind = "zerosig"
				}
				if sig == nil {
					continue
				}
				single := pk.Verify(sctx.NewTranscriptBytes(msg), sig)
				bv.Add(pk, sctx.NewTranscriptBytes(msg), sig)
				bemit(vt.Ev{"op": "srbadd", "kind": kind, "single": single})
			}
			bemit(vt.Ev{"op": "srbonly", "res": bv.VerifyBatchOnly(nil)})
			all3, vec3 := bv.Verify(nil)
			if vec3 == nil {
				vec3 = []bool{}
			}
			bemit(vt.Ev{"op": "srbverify", "all": all3, "vec": vec3})
		}
		// batch soundness probe: two individually invalid signatures whose scalar errors cancel (s1 + 1, s2 - 1): the
		// random delinearisation coefficients must differ between entries, so the batch equation must still fail
		if h%2 == 0 {
			bv.Reset()
			bemit(vt.Ev{"op": "srbreset"})
			// ... adjacent, or d positions apart with valid entries in between (coefficients must be independent across
			// the whole batch)
			dists := []int{1, 16, 2, 8, 32, 4, 17, 64}
			d := dists[(h/2)%len(dists)]
			for idx := 0; idx <= d; idx++ {
				k, _ := sr25519.GenerateKeyPair(bytes.NewReader(r.Bytes(4096)))
				msg := r.Bytes(10)
				sig, _ := k.Sign(bytes.NewReader(r.Bytes(64)), sctx.NewTranscriptBytes(msg))
				if idx != 0 && idx != d {
					bv.Add(k.PublicKey(), sctx.NewTranscriptBytes(msg), sig)
					bemit(vt.Ev{"op": "srbadd", "kind": "valid", "single": k.PublicKey().Verify(sctx.NewTranscriptBytes(msg), sig)})
					continue
				}
				delta := int64(1)
				if idx == d {
					delta = -1
				}
				sbb, _ := sig.MarshalBinary()
				sv := vt.FromLE(append(append([]byte(nil), sbb[32:63]...), sbb[63]&0x7f))
				sv.Add(sv, big.NewInt(delta))
				sv.Mod(sv, L)
				nb := append(append([]byte(nil), sbb[:32]...), vt.LE(sv, 32)...)
				nb[63] |= 0x80
				bad, err := sr25519.NewSignatureFromBytes(nb)
				if err != nil {
					continue
				}
				single := k.PublicKey().Verify(sctx.NewTranscriptBytes(msg), bad)
				bv.Add(k.PublicKey(), sctx.NewTranscriptBytes(msg), bad)
				bemit(vt.Ev{"op": "srbadd", "kind": "wrongmsg", "single": single})
			}
			bemit(vt.Ev{"op": "srbonly", "res": bv.VerifyBatchOnly(nil)})
			all2, vec2 := bv.Verify(nil)
			if vec2 == nil {
				vec2 = []bool{}
			}
			bemit(vt.Ev{"op": "srbverify", "all": all2, "vec": vec2})
		}
	}
	_ = curve.CompressedPointSize
}
