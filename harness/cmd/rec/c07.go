package main

import (
	"bytes"
	"crypto/sha512"
	"math/big"

	"github.com/oasisprotocol/curve25519-voi/primitives/ed25519"
	"github.com/oasisprotocol/curve25519-voi/primitives/x25519"

	"verifharness/vt"
)

// C07: X25519.
func init() { recorders["C07"] = recC07 }

// the special u-coordinates: low order on the curve or the twist, and non-canonical forms
func specialU() [][]byte {
	var out [][]byte
	o8a, _ := new(big.Int).SetString("325606250916557431795983626356110631294008115727848805560023387167927233504", 10)
	o8b, _ := new(big.Int).SetString("39382357235489614581723060781553021112529911719440698176882885853963445705823", 10)
	vals := []*big.Int{big.NewInt(0), big.NewInt(1), o8a, o8b, new(big.Int).Sub(vt.P, big.NewInt(1)), new(big.Int).Set(vt.P),
		new(big.Int).Add(vt.P, big.NewInt(1)), big.NewInt(2), big.NewInt(9), new(big.Int).Sub(vt.P, big.NewInt(2))}
	for d := int64(2); d <= 18; d++ { // every u in [p, 2^255)
		vals = append(vals, new(big.Int).Add(vt.P, big.NewInt(d)))
	}
	two255 := new(big.Int).Lsh(big.NewInt(1), 255)
	for _, v := range vals {
		if v.Cmp(two255) < 0 {
			b := vt.LE(v, 32)
			out = append(out, b)
			c := append([]byte(nil), b...)
			c[31] |= 0x80 // bit 255 must be ignored
			out = append(out, c)
		}
		// + p where it still fits below 2^255 (non-canonical form of a small value)
		vp := new(big.Int).Add(v, vt.P)
		if vp.Cmp(two255) < 0 && v.Cmp(big.NewInt(19)) < 0 {
			out = append(out, vt.LE(vp, 32))
		}
	}
	return out
}

func recC07(c *ctx) {
	r := c.r
	scal := func() []byte {
		b := r.Bytes(32)
		switch r.Intn(6) {
		case 0:
			for i := range b {
				b[i] = 0xff
			}
		case 1:
			for i := range b {
				b[i] = 0
			}
		case 2: // clamping-sensitive bits set the "wrong" way
			b[0] |= 7
			b[31] |= 0x80
			b[31] &^= 0x40
		}
		return b
	}
	x := func(sc, pt []byte) {
		out, err := x25519.X25519(sc, pt)
		e := vt.Ev{"op": "x25519", "cfg": c.cfg, "scalar": vt.B(sc), "point": vt.B(pt), "err": err != nil}
		if err == nil {
			e["out"] = vt.B(out)
		}
		c.w.Emit(e)
	}
	sm := func(sc, pt []byte) {
		var dst, s, p [32]byte
		copy(s[:], sc)
		copy(p[:], pt)
		out := &dst
		switch r.Intn(6) { // the destination may be the scalar or the point buffer
		case 0:
			out = &s
		case 1:
			out = &p
		}
		x25519.ScalarMult(out, &s, &p)
		c.w.Emit(vt.Ev{"op": "scalarmult", "cfg": c.cfg, "scalar": vt.B(sc), "point": vt.B(pt), "out": vt.B(out[:])})
	}
	// complete special family through both entry points
	for _, u := range specialU() {
		x(scal(), u)
		if r.Intn(2) == 0 {
			sm(scal(), u)
		}
	}
	// outputs with sparse byte support: the all-zero test of the checked entry point must look at every byte.
	// For each window (single bytes, aligned 4- and 8-byte words) a target u that is zero outside the window is
	// drawn until it lies in a prime-order subgroup (curve or twist); the input is [k^-1]target.
	clampInt := func(sc []byte) *big.Int {
		b := append([]byte(nil), sc...)
		b[0] &= 248
		b[31] = (b[31] & 127) | 64
		return vt.FromLE(b)
	}
	var windows [][2]int
	for i := 0; i < 32; i++ {
		windows = append(windows, [2]int{i, 1})
	}
	for i := 0; i < 32; i += 4 {
		windows = append(windows, [2]int{i, 4})
	}
	for i := 0; i < 32; i += 8 {
		windows = append(windows, [2]int{i, 8})
	}
	wstep := 1
	if c.tier != "thorough" {
		wstep = 2
	}
	for wi := r.Intn(wstep); wi < len(windows); wi += wstep {
		win := windows[wi]
		sc := scal()
		k := clampInt(sc)
		for try := 0; try < 400; try++ {
			t := make([]byte, 32)
			copy(t[win[0]:win[0]+win[1]], r.Bytes(win[1]))
			if win[0]+win[1] == 32 {
				t[31] &= 0x7f
			}
			tv := vt.FromLE(t)
			if tv.Sign() == 0 || tv.Cmp(vt.P) >= 0 {
				continue
			}
			if in, ok := vt.PreimageForOutput(k, tv); ok {
				x(sc, vt.LE(in, 32))
				if wi%3 == 0 {
					sm(sc, vt.LE(in, 32))
				}
				break
			}
		}
	}
	// one-byte neighbours of special u-coordinates (the base point 9, 0, 1): a routine that recognises a special value must
	// look at all of it
	nstep, specials := 1, []byte{9, 0, 1}
	if c.tier != "thorough" {
		nstep, specials = 3, []byte{9} // quick: a third of the neighbours of the base point
	}
	nk := r.Intn(nstep)
	for _, special := range specials {
		for i := 0; i < 32; i++ {
			for _, mask := range []byte{0x01, 0x40, 0x80} {
				nk++
				if nk%nstep != 0 && i != 0 && i != 31 { // the two ends are always taken
					continue
				}
				u := make([]byte, 32)
				u[0] = special
				u[i] ^= mask
				x(scal(), u)
				if nk%2 == 0 {
					sm(scal(), u)
				}
			}
		}
	}
	// the package-level Basepoint slice itself (the fixed-base shortcut is keyed on its identity) with every kind of
	// scalar length, and copies of it
	for _, l := range []int{0, 1, 16, 31, 32, 33, 64} {
		x(r.Bytes(l), x25519.Basepoint)
		x(r.Bytes(l), append([]byte(nil), x25519.Basepoint...))
	}
	// wrong-length points that ALIAS the exported Basepoint slice (prefixes, suffixes, an over-long reslice is impossible: cap = 32):
	// the identity of the first byte must not replace the length check
	for _, k := range []int{0, 1, 16, 31} {
		x(scal(), x25519.Basepoint[:k])
		x(scal(), x25519.Basepoint[32-k:])
	}
	x(scal(), x25519.Basepoint[:32:32])
	// length errors
	for _, ls := range [][2]int{{0, 32}, {31, 32}, {33, 32}, {32, 0}, {32, 31}, {32, 33}, {64, 64}} {
		x(r.Bytes(ls[0]), r.Bytes(ls[1]))
	}
	// GeneratePrivateKey(reader): SHA-512/256 of the 32 bytes read; GenerateKey adds the public key
	for i := 0; i < 3; i++ {
		ent := r.Bytes(32)
		pk, sk, err := x25519.GenerateKey(r.Entropy(ent))
		sk2, err2 := x25519.GeneratePrivateKey(r.Entropy(ent))
		d := sha512.Sum512_256(ent)
		ok := err == nil && err2 == nil && bytes.Equal(sk[:], d[:]) && bytes.Equal(sk2[:], sk[:]) && bytes.Equal((*sk.Public())[:], pk[:])
		c.w.Emit(vt.Ev{"op": "check", "cfg": c.cfg, "what": "GenerateKey = SHA-512/256(entropy), Public()", "ok": ok})
		if err == nil {
			c.w.Emit(vt.Ev{"op": "basemult", "cfg": c.cfg, "scalar": vt.B(sk[:]), "out": vt.B(pk[:]), "via": "GenerateKey"})
		}
	}
	n := c.budget(24, 900)
	for i := 0; i < n; i++ {
		switch i % 8 {
		case 0, 1:
			u := r.Bytes(32)
			if r.Intn(3) == 0 { // a value in [2^255-19-small.., 2^255) or with bit 255
				u[31] |= 0x80
			}
			x(scal(), u)
		case 2:
			sm(scal(), r.Bytes(32))
		case 3: // fixed base: three routes
			sc := scal()
			var dst, s [32]byte
			copy(s[:], sc)
			x25519.ScalarBaseMult(&dst, &s)
			c.w.Emit(vt.Ev{"op": "basemult", "cfg": c.cfg, "scalar": vt.B(sc), "out": vt.B(dst[:]), "via": "ScalarBaseMult"})
			o2, err := x25519.X25519(sc, x25519.Basepoint)
			pk := x25519.PrivateKey(s)
			o3 := pk.Public()
			c.w.Emit(vt.Ev{"op": "check", "cfg": c.cfg, "what": "X25519(s, Basepoint) = ScalarBaseMult(s) = Public()",
				"ok": err == nil && bytes.Equal(o2, dst[:]) && bytes.Equal(o3[:], dst[:])})
			// and the generic ladder on u = 9 (a copy of the base point, so the fixed-base shortcut is not taken)
			nine := make([]byte, 32)
			nine[0] = 9
			x(sc, nine)
		case 4: // Diffie-Hellman symmetry
			var a, b x25519.PrivateKey
			copy(a[:], scal())
			copy(b[:], scal())
			s1, s2 := a.DiffieHellman(b.Public()), b.DiffieHellman(a.Public())
			c.w.Emit(vt.Ev{"op": "check", "cfg": c.cfg, "what": "DH symmetric", "ok": bytes.Equal(s1[:], s2[:])})
			sm(a[:], (*b.Public())[:])
		case 5: // Ed25519 private key conversion
			seed := r.Bytes(32)
			priv := ed25519.NewKeyFromSeed(seed)
			xs := x25519.EdPrivateKeyToX25519(priv)
			d := sha512.Sum512(seed)
			c.w.Emit(vt.Ev{"op": "edpriv", "cfg": c.cfg, "seed": vt.B(seed), "out": vt.B(xs),
				"sha": []vt.Ev{{"in": vt.B(seed), "out": vt.B(d[:])}}})
			xp, ok := x25519.EdPublicKeyToX25519(ed25519.PublicKey(priv[32:]))
			pub, err := x25519.X25519(xs, x25519.Basepoint)
			c.w.Emit(vt.Ev{"op": "check", "cfg": c.cfg, "what": "converted pair consistent", "ok": ok && err == nil && bytes.Equal(pub, xp)})
			c.w.Emit(vt.Ev{"op": "edpub", "cfg": c.cfg, "pk": vt.B(priv[32:]), "ok": ok, "out": vt.B(xp)})
		case 6: // public key conversion on special / random encodings
			var pk []byte
			switch r.Intn(4) {
			case 0:
				pk = vt.Enc(vt.Torsion(r.Intn(8)))
			case 1:
				ncs := vt.NonCanonical(vt.Enc(vt.Torsion([]int{0, 2, 4, 6}[r.Intn(4)])))
				pk = ncs[r.Intn(len(ncs))]
			case 2:
				pk = r.Bytes([]int{0, 31, 33}[r.Intn(3)])
			default:
				pk = r.Bytes(32)
			}
			xp, ok := x25519.EdPublicKeyToX25519(pk)
			e := vt.Ev{"op": "edpub", "cfg": c.cfg, "pk": vt.B(pk), "ok": ok}
			if ok {
				e["out"] = vt.B(xp)
			}
			c.w.Emit(e)
		case 7: // u of a point on the twist / of small y
			u := make([]byte, 32)
			u[0] = byte(r.Intn(40))
			x(scal(), u)
		}
	}
}
