//go:build !verif

package main

import "fmt"

func init() {
	recorders["C18"] = func(c *ctx) { panic(fmt.Sprint("the C18 recorder needs the verif build tag (LRU cache hooks)")) }
}
