package main

import (
	"bytes"
	"crypto"
	"crypto/sha512"
	"fmt"
	"strings"

	"golang.org/x/crypto/sha3"

	"github.com/oasisprotocol/curve25519-voi/curve"
	"github.com/oasisprotocol/curve25519-voi/curve/scalar"
	"github.com/oasisprotocol/curve25519-voi/primitives/ed25519"
	"github.com/oasisprotocol/curve25519-voi/primitives/ed25519/extra/cache"
	"github.com/oasisprotocol/curve25519-voi/primitives/ed25519/extra/ecvrf"
	"github.com/oasisprotocol/curve25519-voi/primitives/h2c"
	"github.com/oasisprotocol/curve25519-voi/primitives/merlin"
	"github.com/oasisprotocol/curve25519-voi/primitives/sr25519"
	"github.com/oasisprotocol/curve25519-voi/primitives/x25519"

	"verifharness/vt"
)

// C19: every byte-taking entry point with inputs of every length 0..130 (and a few large ones), nil
// and empty slices, zero / random / mutated-valid contents, under recover(); outcome class, panic
// text and the receiver's state after a failure are logged for the contract table Robustness.tla.
func init() { recorders["C19"] = recC19 }

type api19 struct {
	name string
	n    int // number of byte arguments
	f    func(a [][]byte) (outcome, after string)
}

func okErr(err error) string {
	if err != nil {
		return "error"
	}
	return "ok"
}
// okErrNil: "error" only when the error comes with no result; an error together with a result is reported as "partial"
func okErrNil(err error, resultNil bool) string {
	if err != nil {
		if !resultNil {
			return "partial"
		}
		return "error"
	}
	if resultNil {
		return "partial"
	}
	return "ok"
}
func tf(b bool) string {
	if b {
		return "true"
	}
	return "false"
}

func recC19(c *ctx) {
	r := c.r
	seed := r.Bytes(32)
	priv := ed25519.NewKeyFromSeed(seed)
	pub := []byte(priv[32:])
	msg := []byte("robustness")
	sig := ed25519.Sign(priv, msg)
	proof := ecvrf.Prove(priv, msg)
	basePt, _ := curve.ED25519_BASEPOINT_POINT.MarshalBinary()
	idE := make([]byte, 32)
	idE[0] = 1
	zero32 := make([]byte, 32)
	kp, kerr := sr25519.GenerateKeyPair(bytes.NewReader(r.Bytes(4096)))
	if kerr != nil {
		panic(kerr)
	}
	srPub, _ := kp.PublicKey().MarshalBinary()
	srSec, _ := kp.SecretKey().MarshalBinary()
	srKp, _ := kp.MarshalBinary()
	sctx := sr25519.NewSigningContext(msg)
	srSigO, serr := kp.Sign(bytes.NewReader(r.Bytes(4096)), sctx.NewTranscriptBytes(msg))
	if serr != nil {
		panic(serr)
	}
	srSig, _ := srSigO.MarshalBinary()
	xk, _ := ed25519.NewExpandedPublicKey(pub)
	cv := cache.NewVerifier(cache.NewLRUCache(2))
	valid := map[string][][]byte{}

	apis := []api19{
		{"curve.CompressedEdwardsY.SetBytes", 1, func(a [][]byte) (string, string) {
			var p curve.CompressedEdwardsY
			_, err := p.SetBytes(a[0])
			return okErr(err), "na"
		}},
		{"curve.CompressedEdwardsY.UnmarshalBinary", 1, func(a [][]byte) (string, string) {
			var p curve.CompressedEdwardsY
			copy(p[:], basePt)
			err := p.UnmarshalBinary(a[0])
			return okErr(err), neutral(err, bytes.Equal(p[:], idE))
		}},
		{"curve.NewCompressedEdwardsYFromBytes", 1, func(a [][]byte) (string, string) {
			_, err := curve.NewCompressedEdwardsYFromBytes(a[0])
			return okErr(err), "na"
		}},
		{"curve.EdwardsPoint.UnmarshalBinary", 1, func(a [][]byte) (string, string) {
			var p curve.EdwardsPoint
			p.Set(curve.ED25519_BASEPOINT_POINT)
			err := p.UnmarshalBinary(a[0])
			return okErr(err), neutral(err, p.IsIdentity())
		}},
		{"curve.CompressedRistretto.SetBytes", 1, func(a [][]byte) (string, string) {
			var p curve.CompressedRistretto
			_, err := p.SetBytes(a[0])
			return okErr(err), "na"
		}},
		{"curve.CompressedRistretto.UnmarshalBinary", 1, func(a [][]byte) (string, string) {
			var p curve.CompressedRistretto
			copy(p[:], curve.RISTRETTO_BASEPOINT_COMPRESSED[:])
			err := p.UnmarshalBinary(a[0])
			return okErr(err), neutral(err, bytes.Equal(p[:], zero32))
		}},
		{"curve.RistrettoPoint.UnmarshalBinary", 1, func(a [][]byte) (string, string) {
			var p curve.RistrettoPoint
			p.Set(curve.RISTRETTO_BASEPOINT_POINT)
			err := p.UnmarshalBinary(a[0])
			return okErr(err), neutral(err, p.IsIdentity())
		}},
		{"curve.RistrettoPoint.SetUniformBytes", 1, func(a [][]byte) (string, string) {
			var p curve.RistrettoPoint
			_, err := p.SetUniformBytes(a[0])
			return okErr(err), "na"
		}},
		{"curve.MontgomeryPoint.SetBytes", 1, func(a [][]byte) (string, string) {
			var p curve.MontgomeryPoint
			_, err := p.SetBytes(a[0])
			return okErr(err), "na"
		}},
		{"scalar.SetBytesModOrder", 1, func(a [][]byte) (string, string) {
			_, err := scalar.NewFromBytesModOrder(a[0])
			return okErr(err), "na"
		}},
		{"scalar.SetBytesModOrderWide", 1, func(a [][]byte) (string, string) {
			_, err := scalar.NewFromBytesModOrderWide(a[0])
			return okErr(err), "na"
		}},
		{"scalar.SetCanonicalBytes", 1, func(a [][]byte) (string, string) {
			s := scalar.NewFromUint64(7)
			_, err := s.SetCanonicalBytes(a[0])
			var b [32]byte
			_ = s.ToBytes(b[:])
			return okErr(err), neutral(err, b[0] == 7 && bytes.Equal(b[1:], zero32[1:])) // documented: receiver unchanged
		}},
		{"scalar.SetBits", 1, func(a [][]byte) (string, string) {
			_, err := scalar.NewFromBits(a[0])
			return okErr(err), "na"
		}},
		{"scalar.UnmarshalBinary", 1, func(a [][]byte) (string, string) {
			var s scalar.Scalar
			err := s.UnmarshalBinary(a[0])
			return okErr(err), "na"
		}},
		{"scalar.ScMinimalVartime", 1, func(a [][]byte) (string, string) { return tf(scalar.ScMinimalVartime(a[0])), "na" }},
		{"ed25519.Verify", 3, func(a [][]byte) (string, string) { return tf(ed25519.Verify(a[0], a[1], a[2])), "na" }},
		{"ed25519.VerifyWithOptions.ph", 3, func(a [][]byte) (string, string) {
			return tf(ed25519.VerifyWithOptions(a[0], a[1], a[2], &ed25519.Options{Hash: crypto.SHA512})), "na"
		}},
		{"ed25519.NewExpandedPublicKey", 1, func(a [][]byte) (string, string) {
			k, err := ed25519.NewExpandedPublicKey(a[0])
			return okErr(err), neutral(err, k == nil)
		}},
		{"ed25519.VerifyExpanded", 2, func(a [][]byte) (string, string) { return tf(ed25519.VerifyExpanded(xk, a[0], a[1])), "na" }},
		{"ed25519.BatchVerifier.Add", 3, func(a [][]byte) (string, string) {
			bv := ed25519.NewBatchVerifier()
			bv.Add(pub, msg, sig)
			bv.Add(a[0], a[1], a[2])
			all, v := bv.Verify(nil)
			if len(v) != 2 || !v[0] {
				return "error", "na" // the well-formed neighbour must be unaffected
			}
			_ = all
			return tf(v[1]), "na"
		}},
		{"ed25519.BatchVerifier.AddNoExpand", 3, func(a [][]byte) (string, string) {
			bv := ed25519.NewBatchVerifier().ForceNoPublicKeyExpansion()
			bv.Add(a[0], a[1], a[2])
			_, v := bv.Verify(nil)
			return tf(len(v) == 1 && v[0]), "na"
		}},
		{"cache.Verifier.Verify", 3, func(a [][]byte) (string, string) { return tf(cv.Verify(a[0], a[1], a[2])), "na" }},
		{"cache.Verifier.Add", 3, func(a [][]byte) (string, string) {
			bv := ed25519.NewBatchVerifier()
			cv.Add(bv, a[0], a[1], a[2])
			_, v := bv.Verify(nil)
			return tf(len(v) == 1 && v[0]), "na"
		}},
		{"cache.Verifier.AddPublicKey", 1, func(a [][]byte) (string, string) { cv.AddPublicKey(a[0]); return "ok", "na" }},
		{"ed25519.PrivateKey.Sign", 2, func(a [][]byte) (string, string) {
			s, err := ed25519.PrivateKey(a[0]).Sign(nil, a[1], &ed25519.Options{})
			return okErr(err), neutral(err, s == nil)
		}},
		{"ecvrf.Verify", 3, func(a [][]byte) (string, string) {
			ok, beta := ecvrf.Verify(a[0], a[1], a[2])
			return tf(ok), neutral2(!ok, beta == nil)
		}},
		{"ecvrf.Verify_v10", 3, func(a [][]byte) (string, string) {
			ok, beta := ecvrf.Verify_v10(a[0], a[1], a[2])
			return tf(ok), neutral2(!ok, beta == nil)
		}},
		{"ecvrf.VerifyGoodKey", 2, func(a [][]byte) (string, string) { // proof and alpha under a valid public key
			ok, beta := ecvrf.Verify(pub, a[0], a[1])
			return tf(ok), neutral2(!ok, beta == nil)
		}},
		{"ecvrf.ProveWithAddedRandomness", 2, func(a [][]byte) (string, string) {
			b, err := ecvrf.ProveWithAddedRandomness(bytes.NewReader(make([]byte, 64)), a[0], a[1])
			return okErr(err), neutral(err, b == nil)
		}},
		{"ecvrf.ProofToHash", 1, func(a [][]byte) (string, string) {
			b, err := ecvrf.ProofToHash(a[0])
			return okErr(err), neutral(err, b == nil)
		}},
		{"sr25519.NewPublicKeyFromBytes", 1, func(a [][]byte) (string, string) {
			k, err := sr25519.NewPublicKeyFromBytes(a[0])
			return okErr(err), neutral(err, k == nil)
		}},
		{"sr25519.NewSecretKeyFromBytes", 1, func(a [][]byte) (string, string) {
			k, err := sr25519.NewSecretKeyFromBytes(a[0])
			return okErr(err), neutral(err, k == nil)
		}},
		{"sr25519.NewSecretKeyFromEd25519Bytes", 1, func(a [][]byte) (string, string) {
			k, err := sr25519.NewSecretKeyFromEd25519Bytes(a[0])
			return okErr(err), neutral(err, k == nil)
		}},
		{"sr25519.NewKeyPairFromBytes", 1, func(a [][]byte) (string, string) {
			k, err := sr25519.NewKeyPairFromBytes(a[0])
			return okErr(err), neutral(err, k == nil)
		}},
		{"sr25519.NewSignatureFromBytes", 1, func(a [][]byte) (string, string) {
			k, err := sr25519.NewSignatureFromBytes(a[0])
			return okErr(err), neutral(err, k == nil)
		}},
		{"sr25519.NewMiniSecretKeyFromBytes", 1, func(a [][]byte) (string, string) {
			k, err := sr25519.NewMiniSecretKeyFromBytes(a[0])
			return okErr(err), neutral(err, k == nil)
		}},
		{"sr25519.Verify", 3, func(a [][]byte) (string, string) { // decode key and signature, verify over a context/message
			k, err := sr25519.NewPublicKeyFromBytes(a[0])
			if err != nil {
				return "false", "na"
			}
			s, err := sr25519.NewSignatureFromBytes(a[1])
			if err != nil {
				return "false", "na"
			}
			return tf(k.Verify(sr25519.NewSigningContext(a[2]).NewTranscriptBytes(a[2]), s)), "na"
		}},
		{"x25519.X25519", 2, func(a [][]byte) (string, string) {
			o, err := x25519.X25519(a[0], a[1])
			return okErr(err), neutral(err, o == nil)
		}},
		{"x25519.EdPublicKeyToX25519", 1, func(a [][]byte) (string, string) {
			o, ok := x25519.EdPublicKeyToX25519(a[0])
			return tf(ok), neutral2(!ok, o == nil)
		}},
		{"h2c.ExpandMessageXMD", 3, func(a [][]byte) (string, string) { // out length = len(a[0])
			out := make([]byte, len(a[0]))
			return okErr(h2c.ExpandMessageXMD(out, crypto.SHA512, a[1], a[2])), "na"
		}},
		{"h2c.ExpandMessageXOF", 3, func(a [][]byte) (string, string) {
			out := make([]byte, len(a[0]))
			return okErr(h2c.ExpandMessageXOF(out, sha3.NewShake128(), a[1], a[2])), "na"
		}},
		{"h2c.Edwards25519_XMD_SHA512_ELL2_RO", 2, func(a [][]byte) (string, string) {
			_, err := h2c.Edwards25519_XMD_SHA512_ELL2_RO(a[0], a[1])
			return okErr(err), "na"
		}},
		{"h2c.Ristretto255_XOF_R255MAP_RO", 2, func(a [][]byte) (string, string) {
			_, err := h2c.Ristretto255_XOF_R255MAP_RO(sha3.NewShake256(), a[0], a[1])
			return okErr(err), "na"
		}},
		// ---- entropy sources delivering exactly a[0] and then failing (in pieces): every entropy-consuming entry point
		{"entropy.ed25519.GenerateKey", 1, func(a [][]byte) (string, string) {
			pk, sk, err := ed25519.GenerateKey(r.Entropy(a[0]))
			return okErrNil(err, pk == nil && sk == nil), "na"
		}},
		{"entropy.x25519.GenerateKey", 1, func(a [][]byte) (string, string) {
			pk, sk, err := x25519.GenerateKey(r.Entropy(a[0]))
			return okErrNil(err, pk == nil && sk == nil), "na"
		}},
		{"entropy.sr25519.GenerateMiniSecretKey", 1, func(a [][]byte) (string, string) {
			k, err := sr25519.GenerateMiniSecretKey(r.Entropy(a[0]))
			return okErrNil(err, k == nil), "na"
		}},
		{"entropy.sr25519.GenerateSecretKey", 1, func(a [][]byte) (string, string) {
			k, err := sr25519.GenerateSecretKey(r.Entropy(a[0]))
			return okErrNil(err, k == nil), "na"
		}},
		{"entropy.sr25519.GenerateKeyPair", 1, func(a [][]byte) (string, string) {
			k, err := sr25519.GenerateKeyPair(r.Entropy(a[0]))
			return okErrNil(err, k == nil), "na"
		}},
		{"entropy.scalar.SetRandom", 1, func(a [][]byte) (string, string) {
			var s scalar.Scalar
			_, err := s.SetRandom(r.Entropy(a[0]))
			return okErr(err), "na"
		}},
		{"entropy.merlin.Finalize", 1, func(a [][]byte) (string, string) {
			g, err := merlin.NewTranscript("e").BuildRng().Finalize(r.Entropy(a[0]))
			return okErrNil(err, g == nil), "na"
		}},
		{"entropy.ed25519.Sign.AddedRandomness", 1, func(a [][]byte) (string, string) {
			s, err := priv.Sign(r.Entropy(a[0]), msg, &ed25519.Options{AddedRandomness: true})
			return okErrNil(err, s == nil), "na"
		}},
		{"entropy.sr25519.Sign", 1, func(a [][]byte) (string, string) {
			s, err := kp.Sign(r.Entropy(a[0]), sctx.NewTranscriptBytes(msg))
			return okErrNil(err, s == nil), "na"
		}},
		{"entropy.ecvrf.ProveWithAddedRandomness", 1, func(a [][]byte) (string, string) {
			p, err := ecvrf.ProveWithAddedRandomness(r.Entropy(a[0]), priv, msg)
			return okErrNil(err, p == nil), "na"
		}},
		{"entropy.ecvrf.ProveWithAddedRandomness_v10", 1, func(a [][]byte) (string, string) {
			p, err := ecvrf.ProveWithAddedRandomness_v10(r.Entropy(a[0]), priv, msg)
			return okErrNil(err, p == nil), "na"
		}},
		{"merlin.Transcript", 3, func(a [][]byte) (string, string) {
			t := merlin.NewTranscript(string(a[0]))
			t.AppendMessage(string(a[1]), a[2])
			out := make([]byte, len(a[1]))
			t.ExtractBytes(out, string(a[0]))
			rb := t.BuildRng().RekeyWithWitnessBytes(string(a[0]), a[2])
			rng, err := rb.Finalize(bytes.NewReader(make([]byte, 32)))
			if err != nil {
				return "error", "na"
			}
			_, err = rng.Read(out)
			return okErr(err), "na"
		}},
	}
	valid["ed25519.Verify"] = [][]byte{pub, msg, sig}
	phMsg := sha512.Sum512(msg)
	phSig, _ := priv.Sign(nil, phMsg[:], &ed25519.Options{Hash: crypto.SHA512})
	valid["ed25519.VerifyWithOptions.ph"] = [][]byte{pub, phMsg[:], phSig}
	valid["ed25519.VerifyExpanded"] = [][]byte{msg, sig}
	valid["ed25519.BatchVerifier.Add"] = [][]byte{pub, msg, sig}
	valid["ed25519.BatchVerifier.AddNoExpand"] = [][]byte{pub, msg, sig}
	valid["cache.Verifier.Verify"] = [][]byte{pub, msg, sig}
	valid["cache.Verifier.Add"] = [][]byte{pub, msg, sig}
	valid["ecvrf.Verify"] = [][]byte{pub, proof, msg}
	valid["ecvrf.Verify_v10"] = [][]byte{pub, ecvrf.Prove_v10(priv, msg), msg}
	valid["ecvrf.VerifyGoodKey"] = [][]byte{proof, msg}
	valid["ecvrf.ProofToHash"] = [][]byte{proof}
	valid["ecvrf.ProveWithAddedRandomness"] = [][]byte{priv, msg}
	valid["sr25519.NewPublicKeyFromBytes"] = [][]byte{srPub}
	valid["sr25519.NewSecretKeyFromBytes"] = [][]byte{srSec}
	valid["sr25519.NewKeyPairFromBytes"] = [][]byte{srKp}
	valid["sr25519.NewSignatureFromBytes"] = [][]byte{srSig}
	valid["sr25519.Verify"] = [][]byte{srPub, srSig, msg}
	valid["ed25519.PrivateKey.Sign"] = [][]byte{priv, msg}
	valid["curve.EdwardsPoint.UnmarshalBinary"] = [][]byte{basePt}
	valid["curve.CompressedEdwardsY.UnmarshalBinary"] = [][]byte{basePt}

	run := func(a api19, args [][]byte, how string) {
		e := vt.Ev{"op": "api", "cfg": c.cfg, "api": a.name, "how": how}
		var lens []int
		var nils []bool
		for _, x := range args {
			lens = append(lens, len(x))
			nils = append(nils, x == nil)
		}
		e["lens"], e["nil"] = lens, nils
		// every argument is handed over as a sub-slice of a larger poisoned buffer (capacity > length): a callee that
		// writes or appends past what it was given corrupts its caller's memory
		bufs := make([][]byte, len(args))
		orig := make([][]byte, len(args))
		for i, x := range args {
			if x == nil {
				continue
			}
			orig[i] = append([]byte(nil), x...)
			bufs[i] = append(append([]byte(nil), x...), bytes.Repeat([]byte{0xa7}, 48)...)
			args[i] = bufs[i][:len(x)]
		}
		defer func() {
			over := false
			for i := range bufs {
				if bufs[i] != nil && !bytes.Equal(bufs[i][len(orig[i]):], bytes.Repeat([]byte{0xa7}, 48)) {
					over = true
				}
			}
			e["overrun"] = over
			c.w.Emit(e)
		}()
		func() {
			defer func() {
				if p := recover(); p != nil {
					m := fmt.Sprint(p)
					e["outcome"], e["after"], e["msg"], e["msgclass"] = "panic", "na", m, "other"
					switch {
					case strings.HasPrefix(m, "ed25519: bad public key length"):
						e["msgclass"] = "badpklen"
					case strings.HasPrefix(m, "ed25519: bad message hash length"):
						e["msgclass"] = "badhashlen"
					}
				}
			}()
			o, af := a.f(args)
			e["outcome"], e["after"], e["msg"], e["msgclass"] = o, af, "", ""
		}()
		if e["outcome"] != "ok" && e["outcome"] != "true" {
			var as [][]int
			for _, x := range args {
				if len(x) > 200 {
					x = x[:200]
				}
				as = append(as, vt.B(x))
			}
			e["args"] = as
		}
	}
	lengths := func() []int {
		var l []int
		for i := 0; i <= 130; i++ {
			l = append(l, i)
		}
		return append(l, 255, 256, 257, 1000, 65536)
	}()
	for _, a := range apis {
		v := valid[a.name]
		// every length for every argument position, the others kept valid (if a valid tuple is known) or at 32/64 bytes
		for pos := 0; pos < a.n; pos++ {
			for _, l := range lengths {
				if l > 1000 && (a.name[:3] == "h2c" && pos == 0) {
					continue // covered by C14 (65536-byte outputs abort)
				}
				for _, content := range []int{0, 1, 2} {
					if content == 2 && (v == nil || l > 300) {
						continue
					}
					args := make([][]byte, a.n)
					for i := range args {
						if v != nil {
							args[i] = append([]byte(nil), v[i]...)
						} else {
							args[i] = r.Bytes(32)
						}
					}
					switch content {
					case 0:
						args[pos] = make([]byte, l)
					case 1:
						args[pos] = r.Bytes(l)
					case 2: // a valid value truncated or extended
						b := append([]byte(nil), v[pos]...)
						for len(b) < l {
							b = append(b, byte(r.Intn(256)))
						}
						args[pos] = b[:l]
					}
					run(a, args, "len")
				}
			}
			// nil at this position
			args := make([][]byte, a.n)
			for i := range args {
				if v != nil {
					args[i] = append([]byte(nil), v[i]...)
				} else {
					args[i] = r.Bytes(32)
				}
			}
			args[pos] = nil
			run(a, args, "nil")
		}
		// well-formed lengths with mutated contents
		if v != nil {
			for k := 0; k < 40; k++ {
				args := make([][]byte, a.n)
				for i := range args {
					args[i] = append([]byte(nil), v[i]...)
				}
				p := r.Intn(a.n)
				if len(args[p]) > 0 {
					args[p][r.Intn(len(args[p]))] ^= 1 << uint(r.Intn(8))
				}
				run(a, args, "mut")
			}
			run(a, v, "valid")
		}
	}
}

func neutral(err error, isNeutral bool) string {
	if err == nil {
		return "na"
	}
	if isNeutral {
		return "neutral"
	}
	return "stale"
}
func neutral2(failed, isNeutral bool) string {
	if !failed {
		return "na"
	}
	if isNeutral {
		return "neutral"
	}
	return "stale"
}
