package main

import (
	"bytes"
	"runtime"
	"strconv"
)

// goid returns the current goroutine's id (parsed from the stack header); used only by the
// schedule replayer to tell which client is standing at the cache's pre-lock gate.
func goid() int64 {
	var buf [64]byte
	n := runtime.Stack(buf[:], false)
	f := bytes.Fields(buf[:n])
	id, _ := strconv.ParseInt(string(f[1]), 10, 64)
	return id
}
