package main

import (
	"bytes"
	"math/big"

	"github.com/oasisprotocol/curve25519-voi/curve/scalar"

	"verifharness/vt"
)

// C05: scalar arithmetic through the public API. Inputs are the 32 bytes given to
// SetBits (which masks bit 255 and does not reduce); outputs are ToBytes.
var c05batch int

func init() { recorders["C05"] = recC05 }

func bits(b []byte) *scalar.Scalar {
	s, err := scalar.NewFromBits(b)
	if err != nil {
		panic(err)
	}
	return s
}

func sbytes(s *scalar.Scalar) []byte {
	var o [32]byte
	if err := s.ToBytes(o[:]); err != nil {
		panic(err)
	}
	return o[:]
}

func recC05(c *ctx) {
	bd := vt.Boundary256()
	n := c.budget(4000, 60000)
	ops := []string{"add", "sub", "mul", "neg", "reduce", "modorder", "wide", "product", "sum",
		"invert", "batchinvert", "canonical", "iscanonical", "scminimal", "unmarshal"}
	// exhaustive part: every boundary string through every unary predicate/decoder
	for _, b := range bd {
		for _, op := range []string{"scminimal", "canonical", "iscanonical", "modorder", "reduce", "neg", "invert"} {
			c.scalarEvent(op, func() []byte { return append([]byte(nil), b...) })
		}
	}
	// values handed to the caller are the caller's own: marshal, scribble over the result, marshal again
	{
		sc, _ := scalar.NewFromBits(c.r.Bytes(32))
		get := func() []byte { b, _ := sc.MarshalBinary(); return b }
		b1 := get()
		snap := append([]byte(nil), b1...)
		for i := range b1 {
			b1[i] ^= 0xff
		}
		c.w.Emit(vt.Ev{"op": "fresh", "cfg": c.cfg, "api": "Scalar.MarshalBinary", "ok": bytes.Equal(get(), snap)})
	}
	// constructors: SetUint64, One, SetRandom (= wide reduction of 64 bytes read from the entropy source)
	for _, x := range []uint64{0, 1, 2, 1 << 63, ^uint64(0), 0x1234567890abcdef} {
		var b [8]byte
		for j := 0; j < 8; j++ {
			b[j] = byte(x >> (8 * uint(j)))
		}
		c.w.Emit(vt.Ev{"op": "uint64", "cfg": c.cfg, "a": vt.B(b[:]), "out": vt.B(sbytes(scalar.NewFromUint64(x)))})
	}
	c.w.Emit(vt.Ev{"op": "uint64", "cfg": c.cfg, "a": vt.B([]byte{1, 0, 0, 0, 0, 0, 0, 0}), "out": vt.B(sbytes(scalar.One()))})
	for i := 0; i < 8; i++ {
		ent := c.r.Bytes(64)
		s, err := scalar.New().SetRandom(c.r.Entropy(ent))
		e := vt.Ev{"op": "wide", "cfg": c.cfg, "a": vt.B(ent), "ok": err == nil}
		if err == nil {
			e["out"] = vt.B(sbytes(s))
		}
		c.w.Emit(e)
	}
	// boundary x boundary pairs for binary ops (sampled in quick, larger in thorough)
	base := c.w.N
	for i := 0; c.w.N < base+n; i++ {
		op := ops[i%len(ops)]
		c.scalarEvent(op, func() []byte { return c.r.Scalar256(bd) })
	}
}

// mask255 is what SetBits keeps of a 32-byte string (bit 255 cleared)
func mask255(a []byte) []byte {
	b := append([]byte(nil), a...)
	if len(b) == 32 {
		b[31] &= 0x7f
	}
	return b
}

func (c *ctx) scalarEvent(op string, gen func() []byte) {
	e := vt.Ev{"op": op, "cfg": c.cfg}
	switch op {
	case "add", "sub", "mul":
		a, b := gen(), gen()
		// receiver: a fresh scalar, or (aliasing) the first / the second operand, or both operands the same object
		sa, sb := bits(a), bits(b)
		o := scalar.New()
		switch c.r.Intn(6) {
		case 0:
			o = sa
		case 1:
			o = sb
		case 2:
			b = a
			sb = sa
			o = sa
		}
		switch op {
		case "add":
			o.Add(sa, sb)
		case "sub":
			o.Sub(sa, sb)
		case "mul":
			o.Mul(sa, sb)
		}
		e["a"], e["b"], e["out"] = vt.B(a), vt.B(b), vt.B(sbytes(o))
		// operands that are not the receiver are read-only (their bytes, reduced or not, stay as they were)
		if (o != sa && !bytes.Equal(sbytes(sa), mask255(a))) || (o != sb && !bytes.Equal(sbytes(sb), mask255(b))) {
			e["out"] = vt.B(nil) // an operand was written to: reported as a wrong result
			e["operandWritten"] = true
		}
	case "neg", "reduce", "invert":
		a := gen()
		sa := bits(a)
		o := scalar.New()
		if c.r.Intn(3) == 0 {
			o = sa // aliased receiver
		}
		switch op {
		case "neg":
			o.Neg(sa)
		case "reduce":
			o.Reduce(sa)
		case "invert":
			o.Invert(sa)
		}
		e["a"], e["out"] = vt.B(a), vt.B(sbytes(o))
		if o != sa && !bytes.Equal(sbytes(sa), mask255(a)) {
			e["out"] = vt.B(nil)
			e["operandWritten"] = true
		}
	case "modorder":
		a := gen()
		s, err := scalar.NewFromBytesModOrder(a)
		e["a"], e["ok"] = vt.B(a), err == nil
		if err == nil {
			e["out"] = vt.B(sbytes(s))
		}
	case "wide":
		a := append(gen(), gen()...)
		switch c.r.Intn(6) {
		case 0:
			for i := range a {
				a[i] = 0xff
			}
		case 1:
			for i := 32; i < 64; i++ {
				a[i] = 0
			}
		case 2:
			for i := 0; i < 32; i++ {
				a[i] = 0
			}
		}
		s, err := scalar.NewFromBytesModOrderWide(a)
		e["a"], e["ok"] = vt.B(a), err == nil
		if err == nil {
			e["out"] = vt.B(sbytes(s))
		}
	case "product", "sum":
		k := c.r.Intn(5)
		if c.r.Intn(8) == 0 {
			// long lists of (mostly) maximal unreduced values: accumulated headroom
			k = []int{36, 37, 40, 74, 75, 100, 128}[c.r.Intn(7)]
			inner := gen
			hi := vt.LE(new(big.Int).Sub(new(big.Int).Lsh(big.NewInt(1), 255), big.NewInt(1)), 32)
			gen = func() []byte {
				if c.r.Intn(8) == 0 {
					return inner()
				}
				return append([]byte(nil), hi...)
			}
		}
		var ins [][]int
		var vals []*scalar.Scalar
		for i := 0; i < k; i++ {
			a := gen()
			ins = append(ins, vt.B(a))
			vals = append(vals, bits(a))
		}
		o := scalar.New()
		if k > 0 && c.r.Intn(3) == 0 {
			o = vals[c.r.Intn(k)] // the receiver is one of the values
		}
		if op == "product" {
			o.Product(vals)
		} else {
			o.Sum(vals)
		}
		if ins == nil {
			ins = [][]int{}
		}
		e["as"], e["out"] = ins, vt.B(sbytes(o))
	case "batchinvert":
		k := 1 + c.r.Intn(4)
		// every size class once, deterministically: scratch space on the stack / heap, block boundaries (15..17, 31..33, 64, 65, 100)
		if sizes := []int{0, 15, 16, 17, 31, 32, 33, 64, 65, 100}; c05batch < len(sizes) {
			k = sizes[c05batch]
		}
		c05batch++
		ins, outs := [][]int{}, [][]int{}
		var vals []*scalar.Scalar
		for i := 0; i < k; i++ {
			a := gen()
			m := append([]byte(nil), a...)
			m[31] &= 0x7f // SetBits masks bit 255 before the value is used
			if new(big.Int).Mod(vt.FromLE(m), vt.L).Sign() == 0 {
				a[0] ^= 1 // a zero residue is outside the contract of BatchInvert
			}
			ins = append(ins, vt.B(a))
			vals = append(vals, bits(a))
		}
		var o scalar.Scalar
		o.BatchInvert(vals)
		for _, v := range vals {
			outs = append(outs, vt.B(sbytes(v)))
		}
		e["as"], e["outs"], e["out"] = ins, outs, vt.B(sbytes(&o))
	case "canonical":
		a := gen()
		s, err := scalar.NewFromCanonicalBytes(a)
		e["a"], e["ok"] = vt.B(a), err == nil
		if err == nil {
			e["out"] = vt.B(sbytes(s))
		}
	case "unmarshal":
		a := gen()
		var s scalar.Scalar
		err := s.UnmarshalBinary(a)
		e["a"], e["ok"] = vt.B(a), err == nil
		e["out"] = vt.B(sbytes(&s))
		e["op"] = "canonical"
		if err != nil {
			delete(e, "out")
		}
	case "iscanonical":
		a := gen()
		e["a"], e["ok"] = vt.B(a), bits(a).IsCanonical()
	case "scminimal":
		a := gen()
		e["a"], e["ok"] = vt.B(a), scalar.ScMinimalVartime(a)
	}
	c.w.Emit(e)
}
