package main

import (
	"math/big"

	"verifharness/vt"

	"github.com/oasisprotocol/curve25519-voi/curve/scalar"
)

// C17: digit recodings of 255-bit scalars (input: the 32 bytes given to SetBits).
func init() { recorders["C17"] = recC17 }

func recC17(c *ctx) {
	bd := vt.Boundary256()
	emit := func(a []byte) {
		s := bits(a)
		bb := s.Bits()
		c.w.Emit(vt.Ev{"op": "bits", "cfg": c.cfg, "a": vt.B(a), "out": vt.B(bb[:])})
		for w := uint(2); w <= 8; w++ {
			n := s.NonAdjacentForm(w)
			c.w.Emit(vt.Ev{"op": "naf", "cfg": c.cfg, "a": vt.B(a), "w": w, "out": vt.I8(n[:])})
		}
		r := s.ToRadix16()
		c.w.Emit(vt.Ev{"op": "radix16", "cfg": c.cfg, "a": vt.B(a), "out": vt.I8(r[:])})
		for w := uint(6); w <= 8; w++ {
			d := s.ToRadix2w(w)
			c.w.Emit(vt.Ev{"op": "radix2w", "cfg": c.cfg, "a": vt.B(a), "w": w, "hint": scalar.ToRadix2wSizeHint(w), "out": vt.I8(d[:])})
		}
	}
	step := 1
	if c.tier != "thorough" {
		step = 3 // a third of the boundary family per quick run, rotated by seed
	}
	off := int(c.r.Int63() % int64(step))
	for i := off; i < len(bd); i += step {
		emit(bd[i])
	}
	// all-ones across each 64-bit seam at every alignment, and digit-carry chains of every length
	for k := 0; k < 256; k += step {
		for _, pat := range []byte{0xff, 0x77, 0x88} {
			b := make([]byte, 32)
			for i := 0; i < 32; i++ {
				if i*8 < k {
					b[i] = pat
				}
			}
			emit(b)
		}
	}
	// carry chains for every digit width: a digit that generates a carry (2^(w-1) or 2^w-1) at position i, followed
	// by digits 2^(w-1)-1 (which propagate it) up to position j; j runs over the next two digits, every 32-bit word
	// seam above i and the top of the scalar - a recoder that recentres several digits at a time (word-wise add of
	// 0x0888.. / 0x8080..) must carry across its words exactly like the digit-serial definition
	chainStep := 1
	if c.tier != "thorough" {
		chainStep = 5
	}
	cnt := int(c.r.Int63() % int64(chainStep))
	for w := 4; w <= 8; w++ {
		nd := (255 + w - 1) / w
		for i := 0; i < nd; i++ {
			ends := map[int]bool{i + 1: true, i + 2: true, nd - 1: true}
			for m := 1; m <= 8; m++ {
				if j := (32*m - 1) / w; j > i {
					ends[j] = true
					ends[j-1] = true
				}
			}
			for j := i + 1; j < nd; j++ {
				if !ends[j] {
					continue
				}
				for _, gen := range []uint{1 << uint(w-1), 1<<uint(w) - 1} {
					cnt++
					if cnt%chainStep != 0 {
						continue
					}
					v := new(big.Int).Lsh(big.NewInt(int64(gen)), uint(w*i))
					for t := i + 1; t <= j; t++ {
						v.Or(v, new(big.Int).Lsh(big.NewInt(int64(1<<uint(w-1)-1)), uint(w*t)))
					}
					v.And(v, new(big.Int).Sub(new(big.Int).Lsh(big.NewInt(1), 255), big.NewInt(1)))
					emit(vt.LE(v, 32))
				}
			}
		}
	}
	n := c.budget(150, 6000)
	for i := 0; i < n; i++ {
		emit(c.r.Scalar256(bd))
	}
}
