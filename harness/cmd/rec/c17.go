package main

import (
	"verifharness/vt"

	"github.com/oasisprotocol/curve25519-voi/curve/scalar"
)

// C17: digit recodings of 255-bit scalars (input: the 32 bytes given to SetBits).
func init() { recorders["C17"] = recC17 }

func recC17(c *ctx) {
	bd := vt.Boundary256()
	emit := func(a []byte) {
		s := bits(a)
		bb := s.Bits()
		c.w.Emit(vt.Ev{"op": "bits", "cfg": c.cfg, "a": vt.B(a), "out": vt.B(bb[:])})
		for w := uint(2); w <= 8; w++ {
			n := s.NonAdjacentForm(w)
			c.w.Emit(vt.Ev{"op": "naf", "cfg": c.cfg, "a": vt.B(a), "w": w, "out": vt.I8(n[:])})
		}
		r := s.ToRadix16()
		c.w.Emit(vt.Ev{"op": "radix16", "cfg": c.cfg, "a": vt.B(a), "out": vt.I8(r[:])})
		for w := uint(6); w <= 8; w++ {
			d := s.ToRadix2w(w)
			c.w.Emit(vt.Ev{"op": "radix2w", "cfg": c.cfg, "a": vt.B(a), "w": w, "hint": scalar.ToRadix2wSizeHint(w), "out": vt.I8(d[:])})
		}
	}
	step := 1
	if c.tier != "thorough" {
		step = 3 // a third of the boundary family per quick run, rotated by seed
	}
	off := int(c.r.Int63() % int64(step))
	for i := off; i < len(bd); i += step {
		emit(bd[i])
	}
	// all-ones across each 64-bit seam at every alignment, and digit-carry chains of every length
	for k := 0; k < 256; k += step {
		for _, pat := range []byte{0xff, 0x77, 0x88} {
			b := make([]byte, 32)
			for i := 0; i < 32; i++ {
				if i*8 < k {
					b[i] = pat
				}
			}
			emit(b)
		}
	}
	n := c.budget(150, 6000)
	for i := 0; i < n; i++ {
		emit(c.r.Scalar256(bd))
	}
}
