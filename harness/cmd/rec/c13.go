package main

import (
	"bytes"

	"github.com/oasisprotocol/curve25519-voi/primitives/merlin"

	"verifharness/vt"
)

// C13: Merlin operation histories through the public API. Lengths are biased to the rate
// boundary (rate 166): the framing bytes of an operation straddle a block boundary when the
// cursor sits at 163..166 before it.
func init() { recorders["C13"] = recC13 }

func c13len(r *vt.Rng) int {
	switch r.Intn(10) {
	case 0:
		return 0
	case 1:
		return 1
	case 2, 3, 4:
		return 100 + r.Intn(80) // around one block, together with the framing
	case 5:
		return 320 + r.Intn(20) // around two blocks
	case 6:
		return []int{164, 165, 166, 167, 168, 330, 331, 332, 333, 334, 1024}[r.Intn(11)]
	default:
		return r.Intn(48)
	}
}

func recC13(c *ctx) {
	r := c.r
	// ---- complete sweep of the cursor position in front of a cipher operation (PRF / KEY): every alignment of the
	// operation's two framing bytes with the rate boundary occurs for some length in 0..170
	for L := 0; L <= 170; L++ {
		sh := L % 16
		emit := func(e vt.Ev) { e["cfg"] = c.cfg; e["hist"] = 100000 + L; c.w.EmitTo(sh, e) }
		emit(vt.Ev{"op": "reset"})
		t := merlin.NewTranscript("sweep")
		emit(vt.Ev{"op": "new", "id": 1, "label": vt.B([]byte("sweep"))})
		m := r.Bytes(L)
		t.AppendMessage("m", m)
		emit(vt.Ev{"op": "append", "t": 1, "label": vt.B([]byte("m")), "data": vt.B(m)})
		rb := t.BuildRng()
		emit(vt.Ev{"op": "buildrng", "t": 1, "id": 2})
		out := make([]byte, 8)
		t.ExtractBytes(out, "c")
		emit(vt.Ev{"op": "extract", "t": 1, "label": vt.B([]byte("c")), "out": vt.B(out)})
		w := r.Bytes((L * 7) % 171)
		rb.RekeyWithWitnessBytes("w", w)
		emit(vt.Ev{"op": "rekey", "t": 2, "label": vt.B([]byte("w")), "data": vt.B(w)})
		rnd := r.Bytes(32)
		rng, _ := rb.Finalize(r.Entropy(rnd))
		emit(vt.Ev{"op": "finalize", "t": 2, "rnd": vt.B(rnd)})
		if L%3 == 0 { // a zero-length read is an operation of its own (framing is still absorbed)
			_, _ = rng.Read([]byte{})
			emit(vt.Ev{"op": "read", "t": 2, "out": []int{}})
		}
		out2 := bytes.Repeat([]byte{0xc3}, []int{8, 8, 8, 230}[L%4])
		_, _ = rng.Read(out2)
		emit(vt.Ev{"op": "read", "t": 2, "out": vt.B(out2)})
	}
	// ---- complete sweep of the LABEL length of every labelled operation (0..130: the framing is label || le32(len), whatever
	// buffer an implementation assembles it in), with labels that differ only in their last byte giving different challenges
	for L := 0; L <= 130; L++ {
		sh := L % 16
		emit := func(e vt.Ev) { e["cfg"] = c.cfg; e["hist"] = 200000 + L; c.w.EmitTo(sh, e) }
		emit(vt.Ev{"op": "reset"})
		la, le, lw := r.Bytes(L), r.Bytes((L*3)%131), r.Bytes((L*5)%131)
		t := merlin.NewTranscript(string(la))
		emit(vt.Ev{"op": "new", "id": 1, "label": vt.B(la)})
		m := r.Bytes(L % 7)
		t.AppendMessage(string(la), m)
		emit(vt.Ev{"op": "append", "t": 1, "label": vt.B(la), "data": vt.B(m)})
		rb := t.BuildRng()
		emit(vt.Ev{"op": "buildrng", "t": 1, "id": 2})
		out := make([]byte, 8)
		t.ExtractBytes(out, string(le))
		emit(vt.Ev{"op": "extract", "t": 1, "label": vt.B(le), "out": vt.B(out)})
		w := r.Bytes(L % 5)
		rb.RekeyWithWitnessBytes(string(lw), w)
		emit(vt.Ev{"op": "rekey", "t": 2, "label": vt.B(lw), "data": vt.B(w)})
		rnd := r.Bytes(32)
		rng, _ := rb.Finalize(r.Entropy(rnd))
		emit(vt.Ev{"op": "finalize", "t": 2, "rnd": vt.B(rnd)})
		out2 := make([]byte, 8)
		_, _ = rng.Read(out2)
		emit(vt.Ev{"op": "read", "t": 2, "out": vt.B(out2)})
	}
	nh := c.budget(24, 600)
	for h := 0; h < nh; h++ {
		sh := h % 16
		emit := func(e vt.Ev) { e["cfg"] = c.cfg; e["hist"] = h; c.w.EmitTo(sh, e) }
		emit(vt.Ev{"op": "reset"})
		var ts []*merlin.Transcript
		var rbs []*merlin.TranscriptRngBuilder
		type rdr interface{ Read([]byte) (int, error) }
		kinds := []string{} // object kinds by id-1: "t", "rb", "rng"
		objs := []interface{}{}
		newT := func(label []byte) {
			t := merlin.NewTranscript(string(label))
			objs = append(objs, t)
			kinds = append(kinds, "t")
			emit(vt.Ev{"op": "new", "id": len(objs), "label": vt.B(label)})
		}
		_ = ts
		_ = rbs
		newT(r.Bytes(c13len(r) % 200))
		steps := 3 + r.Intn(6)
		if h%6 == 5 {
			// sweep: one append whose length walks across the block boundary, then extract
			steps = 0
			t := objs[0].(*merlin.Transcript)
			m := r.Bytes(100 + (h/6)%70)
			t.AppendMessage("m", m)
			emit(vt.Ev{"op": "append", "t": 1, "label": vt.B([]byte("m")), "data": vt.B(m)})
			out := make([]byte, 32)
			t.ExtractBytes(out, "c")
			emit(vt.Ev{"op": "extract", "t": 1, "label": vt.B([]byte("c")), "out": vt.B(out)})
		}
		for s := 0; s < steps; s++ {
			id := 1 + r.Intn(len(objs))
			switch kinds[id-1] {
			case "t":
				t := objs[id-1].(*merlin.Transcript)
				switch r.Intn(6) {
				case 0, 1:
					label, msg := r.Bytes(c13len(r)%64), r.Bytes(c13len(r))
					t.AppendMessage(string(label), msg)
					emit(vt.Ev{"op": "append", "t": id, "label": vt.B(label), "data": vt.B(msg)})
				case 2, 3:
					label := r.Bytes(c13len(r) % 32)
					out := make([]byte, []int{0, 1, 16, 32, 64, 166, 167, 200, 201, 340, 500}[r.Intn(11)])
					for i := range out {
						out[i] = 0xa5 // stale contents must not matter
					}
					t.ExtractBytes(out, string(label))
					emit(vt.Ev{"op": "extract", "t": id, "label": vt.B(label), "out": vt.B(out)})
				case 4:
					objs = append(objs, t.Clone())
					kinds = append(kinds, "t")
					emit(vt.Ev{"op": "clone", "t": id, "id": len(objs)})
				case 5:
					objs = append(objs, t.BuildRng())
					kinds = append(kinds, "rb")
					emit(vt.Ev{"op": "buildrng", "t": id, "id": len(objs)})
				}
			case "rb":
				rb := objs[id-1].(*merlin.TranscriptRngBuilder)
				if r.Intn(2) == 0 {
					label, w := r.Bytes(r.Intn(12)), r.Bytes(c13len(r)%200)
					rb.RekeyWithWitnessBytes(string(label), w)
					emit(vt.Ev{"op": "rekey", "t": id, "label": vt.B(label), "data": vt.B(w)})
				} else {
					rnd := r.Bytes(32)
					// a Finalize whose entropy source fails (at once, or after fewer than 32 bytes) returns an error and
					// must leave the builder as it was: the retry below has to give the same generator as if it were the first
					if r.Intn(2) == 0 {
						_, e1 := rb.Finalize(failReader{})
						_, e2 := rb.Finalize(bytes.NewReader(r.Bytes(1 + r.Intn(31))))
						if e1 == nil || e2 == nil {
							emit(vt.Ev{"op": "finalizefail", "t": id, "err1": e1 != nil, "err2": e2 != nil}) // rejected by the specification
						}
					}
					rng, err := rb.Finalize(r.Entropy(rnd))
					if err != nil {
						panic(err)
					}
					objs[id-1] = rng
					kinds[id-1] = "rng"
					emit(vt.Ev{"op": "finalize", "t": id, "rnd": vt.B(rnd)})
					// read at once, so that whatever led to this generator is observed even if the history ends here
					first := make([]byte, 16)
					if _, err := rng.Read(first); err != nil {
						panic(err)
					}
					emit(vt.Ev{"op": "read", "t": id, "out": vt.B(first)})
				}
			case "rng":
				rng := objs[id-1].(rdr)
				out := make([]byte, []int{0, 1, 32, 64, 170, 260}[r.Intn(6)])
				for i := range out {
					out[i] = 0x5a // stale contents must not matter
				}
				if _, err := rng.Read(out); err != nil {
					panic(err)
				}
				emit(vt.Ev{"op": "read", "t": id, "out": vt.B(out)})
			}
		}
		// always finish with an extraction from every transcript, so that every prior operation is observed
		for id, k := range kinds {
			if k == "t" {
				out := make([]byte, 16)
				objs[id].(*merlin.Transcript).ExtractBytes(out, "fin")
				emit(vt.Ev{"op": "extract", "t": id + 1, "label": vt.B([]byte("fin")), "out": vt.B(out)})
			}
		}
	}
}
