package main

import (
	"bytes"
	"crypto"
	"math/big"

	"github.com/oasisprotocol/curve25519-voi/primitives/ed25519"
	"github.com/oasisprotocol/curve25519-voi/primitives/ed25519/extra/cache"

	"verifharness/vt"
)

// C09: operation histories of the batch verifier (reused across Reset), with entries of known kind
// added through Add / AddWithOptions / AddExpanded* / cache.Verifier, sizes crossing the expansion
// limit (94 entries) and the Straus/Pippenger limit (190 terms); cached single verification.
func init() { recorders["C09"] = recC09 }

type bentry struct {
	rq    vrequest
	o     vopts
	legal bool // options legal (not the incompatible pair), hash length right
	lo    *ed25519.Options
}

// abstract kind of the entry under its options (Batch.tla): keyOk, keyAdm, sigAdm, eqCof, eqCl, cl
func (b *bentry) kind() vt.Ev {
	c, o := b.rq.cls, b.o
	if !b.legal {
		// doInit returns before looking at the key or the equation flag
		return vt.Ev{"keyOk": c.aDec, "keyAdm": false, "sigAdm": false, "eqCof": false, "eqCl": false, "cl": false}
	}
	keyAdm := c.aDec && (o.soA || !c.aZero) && (o.ncA || c.aCanon)
	needR := !(o.cl && o.soR)
	sigAdm := c.lenOK && c.sLt && (!needR || (c.rDec && (o.soR || !c.rZero))) && (o.ncR || c.rCanon)
	eqCof := c.aDec && c.rDec && c.eqPrime
	eqCl := eqCof && c.rCanon && (c.k8*c.tA+c.tR)%8 == 0
	return vt.Ev{"keyOk": c.aDec, "keyAdm": keyAdm, "sigAdm": sigAdm, "eqCof": eqCof, "eqCl": eqCl, "cl": o.cl}
}

func (b *bentry) single() string {
	return resStr(func() bool { return ed25519.VerifyWithOptions(b.rq.pk, b.rq.msg, b.rq.sig, b.lo) })
}

func recC09(c *ctx) {
	r := c.r
	opts := allOpts()
	rnd := func() *big.Int { return new(big.Int).Mod(vt.FromLE(r.Bytes(40)), vt.L) }
	// entry generator: class index -> request
	var forceOpts *vopts
	mk := func(class int) bentry {
		a, rr := rnd(), rnd()
		tA, tR := 0, 0
		ka, kr, sv, lv := 0, 0, 0, 0
		var o vopts
		switch class {
		case 0: // honest, default options
			o = vopts{false, true, false, false, false}
		case 1: // honest, random legal cofactored options
			o = opts[r.Intn(16)]
		case 2: // torsion on A and/or R: cofactored-valid, cofactorless mostly not
			tA, tR = r.Intn(8), r.Intn(8)
			o = opts[r.Intn(32)]
		case 3: // prime-order defect
			sv = 2
			o = opts[r.Intn(32)]
		case 4: // S + L / high bits
			sv = 1 + 2*r.Intn(2)
			o = opts[r.Intn(16)]
		case 5: // undecodable A
			ka = 2
			o = opts[r.Intn(16)]
		case 6: // wrong-length signature
			lv = 1 + r.Intn(3)
			o = opts[r.Intn(16)]
		case 7: // small-order A (canonical or not)
			a = big.NewInt(0)
			tA = r.Intn(8)
			ka = r.Intn(2)
			o = opts[r.Intn(32)]
		case 8: // small-order R
			rr = big.NewInt(0)
			tR = r.Intn(8)
			kr = r.Intn(2)
			o = opts[r.Intn(32)]
		case 9: // undecodable R
			kr = 2
			o = opts[r.Intn(32)]
		case 12: // honest, cofactorless requested (legal or not)
			o = opts[16+r.Intn(16)]
		case 10: // the incompatible option pair
			o = vopts{true, true, false, true, true}
		default: // honest under a preset
			o = []vopts{{false, true, false, false, false}, {true, true, true, false, true}, {true, true, false, false, false}, {true, true, true, true, false}}[r.Intn(4)]
		}
		if forceOpts != nil {
			o = *forceOpts
		}
		A, R := mkSide(r, ka, a, tA), mkSide(r, kr, rr, tR)
		if !A.known || A.zero {
			a = big.NewInt(0)
		}
		f := []string{"pure", "pure", "ctx", "ph"}[r.Intn(4)]
		var ctxb []byte
		msg := r.Bytes(1 + r.Intn(40))
		if f == "ctx" {
			ctxb = r.Bytes(1 + r.Intn(20))
		}
		if f == "ph" {
			msg = r.Bytes(64)
		}
		rq := makeRequest(r, A, R, a, f, ctxb, msg, sv, lv, nil)
		lo := &ed25519.Options{Verify: o.lib(), Context: string(ctxb)}
		if f == "ph" {
			lo.Hash = crypto.SHA512
		}
		return bentry{rq: rq, o: o, legal: !(o.ncR && o.cl), lo: lo}
	}
	wrongLenKey := func() bentry {
		b := mk(0)
		b.rq.pk = b.rq.pk[:31]
		b.rq.cls.aDec = false
		return b
	}

	// a wrong-length key RELATED to the key of a valid entry (that key followed by extra bytes), carrying that entry's valid
	// signature: whatever the verifier remembers about neighbouring entries, this one has a malformed key
	relatedKey := func(b0 bentry, extra int) bentry {
		b := b0
		b.rq.pk = append(append([]byte(nil), b0.rq.pk...), make([]byte, extra)...)
		b.rq.cls.aDec = false
		return b
	}

	// callers commonly reuse one buffer for the key of successive calls: every key goes through keybuf (each call is
	// complete before the buffer is overwritten, so this must not matter)
	keybuf := make([]byte, 32)
	kb := func(pk []byte) []byte {
		if len(pk) != 32 {
			return pk
		}
		copy(keybuf, pk)
		return keybuf
	}
	nh := c.budget(40, 800)
	shards := 16
	for h := 0; h < nh; h++ {
		sh := h % shards
		emit := func(e vt.Ev) { e["cfg"] = c.cfg; e["hist"] = h; c.w.EmitTo(sh, e) }
		capHint := 0
		if h%3 == 0 {
			capHint = 1 + r.Intn(8)
		}
		bv := ed25519.NewBatchVerifierWithCapacity(capHint)
		cv := cache.NewVerifier(cache.NewLRUCache(1 + r.Intn(3)))
		emit(vt.Ev{"op": "new"})
		add := func(b bentry, via int) {
			e := vt.Ev{"op": "add", "kind": b.kind(), "single": "", "keynil": false}
			switch via {
			case 0:
				e["via"] = "plain"
				if b.lo.Verify.AllowSmallOrderR && !b.lo.Verify.AllowSmallOrderA && !b.lo.Verify.AllowNonCanonicalA && !b.lo.Verify.AllowNonCanonicalR &&
					!b.lo.Verify.CofactorlessVerify && b.lo.Context == "" && b.lo.Hash == 0 && r.Intn(2) == 0 {
					bv.Add(kb(b.rq.pk), b.rq.msg, b.rq.sig)
				} else {
					bv.AddWithOptions(kb(b.rq.pk), b.rq.msg, b.rq.sig, b.lo)
				}
			case 1:
				e["via"] = "expanded"
				xk, err := ed25519.NewExpandedPublicKey(b.rq.pk)
				if err != nil {
					xk = nil
					e["keynil"] = true
				}
				if xk != nil && b.o == (vopts{false, true, false, false, false}) && b.lo.Context == "" && b.lo.Hash == 0 && r.Intn(2) == 0 {
					bv.AddExpanded(xk, b.rq.msg, b.rq.sig)
				} else {
					bv.AddExpandedWithOptions(xk, b.rq.msg, b.rq.sig, b.lo)
				}
			case 2:
				e["via"] = "expanded" // through the caching verifier: a nil key when the bytes do not expand
				_, err := ed25519.NewExpandedPublicKey(b.rq.pk)
				e["keynil"] = err != nil
				e["cache"] = true
				cv.AddWithOptions(bv, kb(b.rq.pk), b.rq.msg, b.rq.sig, b.lo)
			}
			if len(b.rq.pk) == 32 {
				e["single"] = b.single()
			} else {
				e["single"] = "false" // single verification documents a panic for a wrong key length
			}
			emit(e)
		}
		verify := func() {
			var rd *bytes.Reader
			if r.Intn(3) == 0 {
				rd = bytes.NewReader(r.Bytes(64))
			}
			var all bool
			var vec []bool
			if rd == nil {
				all, vec = bv.Verify(nil)
			} else {
				all, vec = bv.Verify(rd)
			}
			if vec == nil {
				vec = []bool{}
			}
			emit(vt.Ev{"op": "verify", "all": all, "vec": vec})
		}
		batchonly := func() { emit(vt.Ev{"op": "batchonly", "res": bv.VerifyBatchOnly(nil)}) }

		switch h % 5 {
		case 0, 1, 2: // random histories
			steps := 6 + r.Intn(16)
			for s := 0; s < steps; s++ {
				switch x := r.Intn(20); {
				case x < 12:
					cl := r.Intn(13)
					if r.Intn(3) != 0 {
						cl = []int{0, 1, 11, 0, 1, 12}[r.Intn(6)] // mostly valid entries, so that the batch fast path is taken
					}
					b := mk(cl)
					if r.Intn(25) == 0 {
						b = wrongLenKey()
					}
					add(b, r.Intn(3))
				case x < 14:
					verify()
				case x < 16:
					batchonly()
				case x < 17:
					bv.ForceNoPublicKeyExpansion()
					emit(vt.Ev{"op": "force"})
				default:
					bv.Reset()
					emit(vt.Ev{"op": "reset"})
				}
			}
			verify()
			batchonly()
		case 3: // bulk: valid entries up to a threshold size, then one special entry at a random position
			n := []int{93, 94, 95, 96, 188, 189, 190, 191}[r.Intn(8)]
			if c.tier != "thorough" && h > 10 {
				n = []int{93, 94, 95}[r.Intn(3)]
			}
			via := r.Intn(3)
			special, at := -1, r.Intn(n)
			if r.Intn(2) == 0 {
				special = 2 + r.Intn(11)
			}
			if r.Intn(4) == 0 {
				bv.ForceNoPublicKeyExpansion()
				emit(vt.Ev{"op": "force"})
			}
			for i := 0; i < n; i++ {
				if i == at && special >= 0 {
					add(mk(special), r.Intn(3))
				} else {
					add(mk([]int{0, 1, 11}[r.Intn(3)]), via)
				}
			}
			batchonly()
			verify()
			bv.Reset()
			emit(vt.Ev{"op": "reset"})
			add(mk(0), 0)
			verify()
		case 4: // reuse after reset with every flag set before
			add(mk(5), 0)
			add(mk(2), 1)
			bv.ForceNoPublicKeyExpansion()
			emit(vt.Ev{"op": "force"})
			verify()
			bv.Reset()
			emit(vt.Ev{"op": "reset"})
			for i := 0; i < 3+r.Intn(4); i++ {
				add(mk([]int{0, 1, 11}[r.Intn(3)]), r.Intn(3))
			}
			batchonly()
			verify()
			// all-honest batches whose entries differ only in their options (cofactorless requests included),
			// on the expanding and on the non-expanding path
			bv.Reset()
			emit(vt.Ev{"op": "reset"})
			if r.Intn(2) == 0 {
				bv.ForceNoPublicKeyExpansion()
				emit(vt.Ev{"op": "force"})
			}
			for i := 0; i < 2+r.Intn(4); i++ {
				add(mk([]int{0, 1, 12}[r.Intn(3)]), r.Intn(3))
			}
			batchonly()
			verify()
			// a cofactorless request whose R IS decompressed (small-order R forbidden), honest or torsion-shifted,
			// among honest cofactored entries, through each addition path
			for via := 0; via < 3; via++ {
				bv.Reset()
				emit(vt.Ev{"op": "reset"})
				if r.Intn(2) == 0 {
					bv.ForceNoPublicKeyExpansion()
					emit(vt.Ev{"op": "force"})
				}
				add(mk(0), r.Intn(3))
				forceOpts = &vopts{soA: r.Intn(2) == 0, soR: false, ncA: r.Intn(2) == 0, ncR: false, cl: true}
				add(mk([]int{0, 2}[r.Intn(2)]), via)
				forceOpts = nil
				add(mk(1), r.Intn(3))
				batchonly()
				verify()
			}
		}
		// reuse after Reset: valid entries, Reset, then malformed entries in the slots the valid ones occupied
		if h%4 == 0 {
			bv.Reset()
			emit(vt.Ev{"op": "reset"})
			via := r.Intn(3)
			for i := 0; i < 3; i++ {
				add(mk(0), via)
			}
			batchonly()
			bv.Reset()
			emit(vt.Ev{"op": "reset"})
			for _, cl := range []int{6, 0, 9} {
				add(mk(cl), via)
			}
			batchonly()
			verify()
			bv.Reset()
			emit(vt.Ev{"op": "reset"})
			for _, cl := range []int{5, 4, 0} {
				add(mk(cl), r.Intn(3))
			}
			batchonly()
			verify()
		}
		// Verify is a pure function of the entries: repeated without Reset, after BatchOnly, after further additions, with a
		// well-formed entry whose signature is invalid among valid ones (and no malformed entry)
		if h%4 == 0 || h%4 == 3 {
			bv.Reset()
			emit(vt.Ev{"op": "reset"})
			via := r.Intn(3)
			add(mk(0), via)
			add(mk(3), via)
			add(mk(0), via)
			verify()
			verify()
			batchonly()
			verify()
			add(mk(0), via)
			verify()
			verify()
		}
		// an entry whose key is the previous entry's key plus trailing bytes, on the expanding and on the forced path
		if h%4 == 1 || h%4 == 2 {
			for _, extra := range []int{1, 8, 32} {
				bv.Reset()
				emit(vt.Ev{"op": "reset"})
				if h%4 == 2 {
					bv.ForceNoPublicKeyExpansion()
					emit(vt.Ev{"op": "force"})
				}
				b0 := mk(0)
				add(b0, 0)
				add(relatedKey(b0, extra), 0)
				add(mk(0), 0)
				batchonly()
				verify()
			}
		}
		// malformed entries through the NON-expanding addition path (forced, so that it does not take 94 entries to get
		// there): every kind of malformed entry among valid ones
		if h%4 == 2 {
			for _, cl := range []int{4, 5, 6, 9, -1} {
				bv.Reset()
				emit(vt.Ev{"op": "reset"})
				bv.ForceNoPublicKeyExpansion()
				emit(vt.Ev{"op": "force"})
				add(mk(0), 0)
				if cl < 0 {
					add(wrongLenKey(), 0)
				} else {
					add(mk(cl), 0)
				}
				add(mk(1), 0)
				batchonly()
				verify()
			}
		}
		// batch completeness probe: an all-valid batch whose keys and R values carry torsion (mixed order): valid under the
		// cofactored rules singly, so the batch equation (which must clear the cofactor of EVERY term) has to hold too
		if h%4 == 3 {
			bv.Reset()
			emit(vt.Ev{"op": "reset"})
			if r.Intn(3) == 0 {
				bv.ForceNoPublicKeyExpansion()
				emit(vt.Ev{"op": "force"})
			}
			via := r.Intn(3)
			for i := 0; i < 2+r.Intn(3); i++ {
				forceOpts = &vopts{soA: r.Intn(2) == 0, soR: true, ncA: false, ncR: false, cl: false}
				add(mk(2), via)
				forceOpts = nil
				if r.Intn(2) == 0 {
					add(mk(0), r.Intn(3))
				}
			}
			batchonly()
			verify()
		}
		// batch soundness probe: two entries whose S are off by +1 and -1 (their errors cancel unless their random
		// coefficients differ), adjacent or d positions apart among valid entries (coefficients must be independent
		// across the whole batch, not only between neighbours)
		if h%4 == 1 {
			dists := []int{1, 2, 3, 4, 7, 8, 15, 16, 17, 31, 32, 33, 48, 64}
			d := dists[(h/4)%len(dists)]
			pre := r.Intn(4)
			if h%8 == 1 {
				d, pre = 1, 0 // the minimal form: the two entries alone
			}
			bv.Reset()
			emit(vt.Ev{"op": "reset"})
			if r.Intn(3) == 0 {
				bv.ForceNoPublicKeyExpansion()
				emit(vt.Ev{"op": "force"})
			}
			bad := func(delta int64) {
				b := mk(0)
				sv := vt.FromLE(b.rq.sig[32:])
				sv.Add(sv, big.NewInt(delta))
				sv.Mod(sv, vt.L)
				copy(b.rq.sig[32:], vt.LE(sv, 32))
				b.rq.cls.eqPrime = false
				add(b, r.Intn(3))
			}
			for i := 0; i < pre; i++ {
				add(mk(0), r.Intn(3))
			}
			bad(1)
			for i := 1; i < d; i++ {
				add(mk(0), r.Intn(3))
			}
			bad(-1)
			batchonly()
			verify()
		}
		// cached single verification under hits, misses and evictions: must equal plain verification
		for i := 0; i < 6; i++ {
			b := mk(r.Intn(13))
			res := resStr(func() bool { return cv.VerifyWithOptions(kb(b.rq.pk), b.rq.msg, b.rq.sig, b.lo) })
			emit(vt.Ev{"op": "cachedverify", "res": res, "single": b.single()})
			if i%2 == 1 { // same key again: served from the cache
				res2 := resStr(func() bool { return cv.VerifyWithOptions(kb(b.rq.pk), b.rq.msg, b.rq.sig, b.lo) })
				emit(vt.Ev{"op": "cachedverify", "res": res2, "single": b.single()})
			}
		}
	}
}
