//go:build verif

package main

import (
	"io"
	stded "crypto/ed25519"
	"bytes"
	"encoding/json"
	"os"
	"sort"
	"sync"
	"time"

	"github.com/oasisprotocol/curve25519-voi/curve"
	"github.com/oasisprotocol/curve25519-voi/curve/scalar"
	"github.com/oasisprotocol/curve25519-voi/primitives/ed25519"
	"github.com/oasisprotocol/curve25519-voi/primitives/ed25519/extra/cache"
	"github.com/oasisprotocol/curve25519-voi/primitives/x25519"

	"verifharness/vt"
)

// C18: concurrent use. (a) lock-level traces of shared LRU caches under free-running goroutines,
// (b) TLC-generated schedules replayed deterministically through the pre-lock gate,
// (c) concurrent API workload whose results must equal the sequential results (run under -race).
func init() { recorders["C18"] = recC18; recorders["C18cold"] = recC18Cold }

// recC18Cold: the very first library calls of the process are made by 16 goroutines released together (anything the
// library initialises lazily is initialised under contention). Inputs and expected verdicts come from the standard
// library's crypto/ed25519, so nothing of the library runs beforehand.
func recC18Cold(c *ctx) {
	type tv struct {
		pub, msg, sig []byte
		want          bool
	}
	var tvs []tv
	for i := 0; i < 6; i++ {
		seed := c.r.Bytes(32)
		k := stded.NewKeyFromSeed(seed)
		msg := c.r.Bytes(24)
		sig := stded.Sign(k, msg)
		tvs = append(tvs, tv{append([]byte(nil), k[32:]...), msg, sig, true})
		bad := append([]byte(nil), sig...)
		bad[5] ^= 0x10
		tvs = append(tvs, tv{append([]byte(nil), k[32:]...), msg, bad, false})
		msg2 := append(append([]byte(nil), msg...), 1)
		tvs = append(tvs, tv{append([]byte(nil), k[32:]...), msg2, sig, false})
	}
	const G = 16
	start := make(chan struct{})
	match := make([]bool, G)
	var wg sync.WaitGroup
	for g := 0; g < G; g++ {
		wg.Add(1)
		go func(g int) {
			defer wg.Done()
			defer func() {
				if p := recover(); p != nil {
					match[g] = false
				}
			}()
			<-start
			ok := true
			for it := 0; it < 3; it++ {
				for i := range tvs {
					t := &tvs[(i+g)%len(tvs)]
					switch (g + it) % 3 {
					case 0:
						ok = ok && ed25519.Verify(t.pub, t.msg, t.sig) == t.want
					case 1:
						ep, err := ed25519.NewExpandedPublicKey(t.pub)
						ok = ok && err == nil && ed25519.VerifyExpanded(ep, t.msg, t.sig) == t.want
					case 2:
						bv := ed25519.NewBatchVerifier()
						bv.Add(t.pub, t.msg, t.sig)
						all, _ := bv.Verify(nil)
						ok = ok && all == t.want
					}
				}
			}
			match[g] = ok
		}(g)
	}
	close(start)
	if !waitTimeout(&wg, 180*time.Second) {
		c.abandon(vt.Ev{"op": "conc", "kind": "cold-start", "goroutine": -1, "match": false, "timeout": true})
	}
	for g, m := range match {
		c.w.Emit(vt.Ev{"op": "conc", "cfg": c.cfg, "kind": "cold-start", "goroutine": g, "match": m})
	}
}

type keyring struct {
	priv []ed25519.PrivateKey
	pub  [][]byte
	id   map[[32]byte]int
	xk   []*ed25519.ExpandedPublicKey
}

func newKeyring(r *vt.Rng, n int) *keyring {
	k := &keyring{id: map[[32]byte]int{}}
	for i := 0; i < n; i++ {
		p := ed25519.NewKeyFromSeed(r.Bytes(32))
		k.priv = append(k.priv, p)
		pub := append([]byte(nil), p[32:]...)
		k.pub = append(k.pub, pub)
		var a [32]byte
		copy(a[:], pub)
		k.id[a] = i + 1
		x, _ := ed25519.NewExpandedPublicKey(pub)
		k.xk = append(k.xk, x)
	}
	return k
}

func (k *keyring) idOf(b []byte) int {
	var a [32]byte
	copy(a[:], b)
	if v, ok := k.id[a]; ok {
		return v
	}
	return -1
}

type collector struct {
	mu  sync.Mutex
	evs []*cache.VerifEvent
}

func (c *collector) sink(e *cache.VerifEvent) {
	c.mu.Lock()
	c.evs = append(c.evs, e)
	c.mu.Unlock()
}

func (c *collector) drain() []*cache.VerifEvent {
	c.mu.Lock()
	defer c.mu.Unlock()
	out := c.evs
	c.evs = nil
	sort.Slice(out, func(i, j int) bool { return out[i].Seq < out[j].Seq })
	return out
}

func lockEvent(k *keyring, e *cache.VerifEvent, cfg string) vt.Ev {
	var ord []int
	for _, o := range e.Order {
		ord = append(ord, k.idOf(o[:]))
	}
	if ord == nil {
		ord = []int{}
	}
	idx := [][]int{}
	for _, x := range e.Index {
		pos := int(x[2][0])
		if pos == 0xff {
			pos = -1
		}
		idx = append(idx, []int{k.idOf(x[0]), k.idOf(x[1]), pos})
	}
	return vt.Ev{"op": e.Op, "cfg": cfg, "key": k.idOf(e.Key[:]), "cap": e.Capacity, "order": ord, "index": idx, "hseq": e.Seq}
}

// waitTimeout waits for the group; false when it did not finish in time (a library call hangs)
func waitTimeout(wg *sync.WaitGroup, d time.Duration) bool {
	done := make(chan struct{})
	go func() { wg.Wait(); close(done) }()
	select {
	case <-done:
		return true
	case <-time.After(d):
		return false
	}
}

func recC18(c *ctx) {
	r := c.r
	col := &collector{}
	cache.VerifSetTracer(col.sink)
	defer cache.VerifSetTracer(nil)
	shard := 0
	// ---- (a) free-running goroutines on shared caches
	rounds := c.budget(8, 64)
	for round := 0; round < rounds; round++ {
		capn := 1 + round%4
		kr := newKeyring(r, 2*capn+1)
		msgs := make([][]byte, len(kr.pub))
		sigs := make([][]byte, len(kr.pub))
		for i := range kr.pub {
			msgs[i] = r.Bytes(16)
			sigs[i] = ed25519.Sign(kr.priv[i], msgs[i])
		}
		lc := cache.NewLRUCache(capn)
		ver := cache.NewVerifier(lc)
		c.w.EmitTo(shard, vt.Ev{"op": "newcache", "cfg": c.cfg, "cap": capn})
		var wg sync.WaitGroup
		var resMu sync.Mutex
		allOK := true
		start := make(chan struct{})
		ng := 8
		seeds := make([]int64, ng)
		for g := range seeds {
			seeds[g] = r.Int63()
		}
		for g := 0; g < ng; g++ {
			wg.Add(1)
			go func(g int) {
				defer wg.Done()
				gr := vt.NewRng(seeds[g])
				<-start
				bv := ed25519.NewBatchVerifier()
				for i := 0; i < 150; i++ {
					ki := gr.Intn(len(kr.pub))
					ok := true
					func() {
						// a panic of the library on these well-formed calls is a failed result, not a dead recorder
						defer func() {
							if p := recover(); p != nil {
								ok = false
							}
						}()
						switch gr.Intn(6) {
						case 0:
							var ck curve.CompressedEdwardsY
							copy(ck[:], kr.pub[ki])
							if v := lc.Get(&ck); v != nil {
								cy := v.CompressedY()
								ok = bytes.Equal(cy[:], kr.pub[ki]) // never a key belonging to a different public key
							}
						case 1:
							var ck curve.CompressedEdwardsY
							copy(ck[:], kr.pub[ki])
							lc.Put(&ck, kr.xk[ki])
						case 2, 3:
							ok = ver.Verify(kr.pub[ki], msgs[ki], sigs[ki])
							if gr.Intn(4) == 0 { // and a wrong message must still be rejected through the cache
								ok = ok && !ver.Verify(kr.pub[ki], []byte("other"), sigs[ki])
							}
						case 4:
							ver.AddPublicKey(kr.pub[ki])
						case 5:
							ver.Add(bv, kr.pub[ki], msgs[ki], sigs[ki])
							if gr.Intn(3) == 0 {
								all, _ := bv.Verify(nil)
								ok = all
								bv.Reset()
							}
						}
					}()
					if !ok {
						resMu.Lock()
						allOK = false
						resMu.Unlock()
					}
				}
			}(g)
		}
		close(start)
		if !waitTimeout(&wg, 180*time.Second) {
			c.abandon(vt.Ev{"op": "conc", "kind": "cache-api-results", "match": false, "timeout": true})
		}
		for _, e := range col.drain() {
			c.w.EmitTo(shard, lockEvent(kr, e, c.cfg))
		}
		c.w.EmitTo(shard, vt.Ev{"op": "conc", "cfg": c.cfg, "kind": "cache-api-results", "match": allOK})
		shard++
	}
	// ---- (b) TLC-generated schedules through the gate
	if c.extra != "" {
		replaySchedules(c, col, c.extra, &shard)
	}
	// ---- (c) concurrent API workload vs sequential results
	concAPI(c, &shard)
}

// schedule file: {"capacity": n, "clients": [..], "histories": [[[client, op, key, hit, victim], ...], ...]}
type schedFile struct {
	Capacity  int               `json:"capacity"`
	Clients   []int             `json:"clients"`
	Histories [][][]interface{} `json:"histories"`
}

func replaySchedules(c *ctx, col *collector, path string, shard *int) {
	b, err := os.ReadFile(path)
	if err != nil {
		panic(err)
	}
	var sf schedFile
	if err := json.Unmarshal(b, &sf); err != nil {
		panic(err)
	}
	kr := newKeyring(c.r, 4)
	for hi, h := range sf.Histories {
		// per client: the keys of its upserts, in order (every upsert starts with a Get)
		plan := map[int][]int{}
		for _, st := range h {
			cl, op, key := int(st[0].(float64)), st[1].(string), int(st[2].(float64))
			if op == "get" {
				plan[cl] = append(plan[cl], key)
			}
		}
		lc := cache.NewLRUCache(sf.Capacity)
		ver := cache.NewVerifier(lc)
		sh := *shard + hi%16
		c.w.EmitTo(sh, vt.Ev{"op": "newcache", "cfg": c.cfg, "cap": sf.Capacity})
		// gate: a goroutine announces itself at the gate and waits for a token
		type gst struct {
			atGate chan struct{}
			token  chan struct{}
			done   chan struct{}
		}
		gs := map[int]*gst{}
		for _, cl := range sf.Clients {
			gs[cl] = &gst{atGate: make(chan struct{}, 1), token: make(chan struct{}), done: make(chan struct{})}
		}
		// the gate hook does not know which client calls it: clients register their state under their goroutine id
		var slot sync.Map
		cache.VerifSetGate(func(op string, key [32]byte) {
			v, ok := slot.Load(goid())
			if !ok {
				return
			}
			g := v.(*gst)
			g.atGate <- struct{}{}
			<-g.token
		})
		for _, cl := range sf.Clients {
			g := gs[cl]
			keys := plan[cl]
			go func(g *gst, keys []int) {
				slot.Store(goid(), g)
				defer func() {
					_ = recover() // the recorded critical sections then no longer match the schedule
					slot.Delete(goid())
					close(g.done)
				}()
				for _, k := range keys {
					ver.AddPublicKey(kr.pub[k-1])
				}
			}(g, keys)
		}
		// wait until every goroutine that has work is at its first gate (or done)
		waitGate := func(g *gst) bool {
			select {
			case <-g.atGate:
				return true
			case <-g.done:
				return false
			}
		}
		at := map[int]bool{}
		for _, cl := range sf.Clients {
			at[cl] = waitGate(gs[cl])
		}
		for _, st := range h {
			cl := int(st[0].(float64))
			if !at[cl] {
				continue
			}
			gs[cl].token <- struct{}{}
			at[cl] = waitGate(gs[cl])
		}
		// free run for whatever is left (only happens if the code takes more lock steps than the model)
		for _, cl := range sf.Clients {
			for at[cl] {
				gs[cl].token <- struct{}{}
				at[cl] = waitGate(gs[cl])
			}
		}
		cache.VerifSetGate(nil)
		var observed [][]interface{}
		evs := col.drain()
		for _, e := range evs {
			c.w.EmitTo(sh, lockEvent(kr, e, c.cfg))
			observed = append(observed, []interface{}{e.Op, kr.idOf(e.Key[:])})
		}
		var expected [][]interface{}
		for _, st := range h {
			expected = append(expected, []interface{}{st[1], int(st[2].(float64))})
		}
		if observed == nil {
			observed = [][]interface{}{}
		}
		c.w.EmitTo(sh, vt.Ev{"op": "sched", "cfg": c.cfg, "hist": hi, "expected": expected, "observed": observed})
	}
	*shard += 16
}

// failAfter is an entropy source yielding k zero bytes and then an error (safe for concurrent construction)
type failAfter int

func (f failAfter) Read(p []byte) (int, error) { return 0, io.ErrUnexpectedEOF }

// concAPI: many goroutines use the library concurrently (shared tables, shared expanded keys, own batch
// verifiers); every result is compared with the result of the same call made sequentially beforehand.
func concAPI(c *ctx, shard *int) {
	r := c.r
	type job struct {
		seed, msg, sig, pub, xs, xu, xout []byte
		sc                                []byte
		mulb                              []byte
	}
	n := 24
	jobs := make([]job, n)
	for i := range jobs {
		j := &jobs[i]
		j.seed, j.msg = r.Bytes(32), r.Bytes(20)
		priv := ed25519.NewKeyFromSeed(j.seed)
		j.pub = append([]byte(nil), priv[32:]...)
		j.sig = ed25519.Sign(priv, j.msg)
		j.xs, j.xu = r.Bytes(32), r.Bytes(32)
		j.xout, _ = x25519.X25519(j.xs, x25519.Basepoint)
		j.sc = r.Bytes(32)
		j.sc[31] &= 0x0f
		s, _ := scalar.NewFromBits(j.sc)
		var p curve.EdwardsPoint
		p.MulBasepoint(curve.ED25519_BASEPOINT_TABLE, s)
		j.mulb, _ = p.MarshalBinary()
	}
	shared, _ := ed25519.NewExpandedPublicKey(jobs[0].pub)
	sharedScalar, _ := scalar.NewFromBits(bytes.Repeat([]byte{0x7f}, 32)) // unreduced
	sharedPoint := curve.NewEdwardsPoint().Set(curve.ED25519_BASEPOINT_POINT)
	ver := cache.NewVerifier(cache.NewLRUCache(3))
	// error paths first: hedged signing with an entropy source that breaks (whatever a failed call holds on to must not
	// come back to haunt the concurrent phase), repeated inside the goroutines
	failSign := func(priv ed25519.PrivateKey, msg []byte, rd io.Reader) bool {
		sig, err := priv.Sign(rd, msg, &ed25519.Options{AddedRandomness: true})
		return err != nil && sig == nil
	}
	failOK := true
	for i := 0; i < 32; i++ {
		failOK = failOK && failSign(ed25519.NewKeyFromSeed(jobs[i%n].seed), jobs[i%n].msg, r.FailingEntropy(r.Bytes(64), r.Intn(32)))
	}
	c.w.EmitTo(*shard, vt.Ev{"op": "conc", "cfg": c.cfg, "kind": "hedged-sign-fails-on-broken-entropy", "goroutine": -1, "match": failOK})
	var wg sync.WaitGroup
	match := make([]bool, 16)
	for g := 0; g < 16; g++ {
		wg.Add(1)
		go func(g int) {
			defer wg.Done()
			ok := true
			defer func() {
				if p := recover(); p != nil {
					match[g] = false
				}
			}()
			bv := ed25519.NewBatchVerifier()
			for it := 0; it < 40; it++ {
				j := &jobs[(g+it)%n]
				priv := ed25519.NewKeyFromSeed(j.seed)
				ok = ok && bytes.Equal(priv[32:], j.pub)
				ok = ok && bytes.Equal(ed25519.Sign(priv, j.msg), j.sig)
				ok = ok && ed25519.Verify(j.pub, j.msg, j.sig)
				ok = ok && ed25519.VerifyExpanded(shared, jobs[0].msg, jobs[0].sig)
				ok = ok && ver.Verify(j.pub, j.msg, j.sig)
				o := &ed25519.Options{Context: "ctx-" + string(rune('a'+g))}
				cs, err := priv.Sign(nil, j.msg, o)
				ok = ok && err == nil && ed25519.VerifyWithOptions(j.pub, j.msg, cs, o)
				x, err := x25519.X25519(j.xs, x25519.Basepoint)
				ok = ok && err == nil && bytes.Equal(x, j.xout)
				s, _ := scalar.NewFromBits(j.sc)
				var p curve.EdwardsPoint
				p.MulBasepoint(curve.ED25519_BASEPOINT_TABLE, s)
				mb, _ := p.MarshalBinary()
				ok = ok && bytes.Equal(mb, j.mulb)
				// operands shared between goroutines (package-level constants and one shared unreduced scalar) are
				// read-only for every arithmetic method
				var t1, t2, t3, t4 scalar.Scalar
				t1.Sub(scalar.BASEPOINT_ORDER, s)
				t2.Add(sharedScalar, s)
				t3.Mul(sharedScalar, &t1)
				t4.Neg(sharedScalar)
				t4.Sub(&t4, sharedScalar)
				var q1, q2 curve.EdwardsPoint
				q1.Add(curve.ED25519_BASEPOINT_POINT, &p)
				q2.Sub(&q1, sharedPoint)
				q2.Mul(sharedPoint, sharedScalar)
				ok = ok && sharedPoint.Equal(curve.ED25519_BASEPOINT_POINT) == 1
				if it%8 == 3 {
					ok = ok && failSign(priv, j.msg, failAfter(it%32))
				}
				bv.Add(j.pub, j.msg, j.sig)
				if it%8 == 7 {
					all, _ := bv.Verify(nil)
					ok = ok && all
					bv.Reset()
				}
			}
			match[g] = ok
		}(g)
	}
	if !waitTimeout(&wg, 180*time.Second) {
		c.abandon(vt.Ev{"op": "conc", "kind": "api-vs-sequential", "goroutine": -1, "match": false, "timeout": true})
	}
	for g, m := range match {
		c.w.EmitTo(*shard, vt.Ev{"op": "conc", "cfg": c.cfg, "kind": "api-vs-sequential", "goroutine": g, "match": m})
	}
	*shard++
}
