package main

import (
	"bytes"
	"crypto"
	"crypto/sha512"
	"math/big"

	"github.com/oasisprotocol/curve25519-voi/curve"
	"github.com/oasisprotocol/curve25519-voi/curve/scalar"
	"github.com/oasisprotocol/curve25519-voi/primitives/ed25519"
	"github.com/oasisprotocol/curve25519-voi/primitives/ed25519/extra/ecvrf"
	"github.com/oasisprotocol/curve25519-voi/primitives/h2c"

	"verifharness/vt"
)

// C15: ECVRF. Honest proofs (recomputed byte for byte by the specification), adversarial proofs built
// WITH the secret key (torsion-shifted Gamma / public key, s + L, non-canonical encodings, bit flips),
// forgeries for small-order keys, cross-version verification.
func init() { recorders["C15"] = recC15 }

var vrfDST = append([]byte("ECVRF_edwards25519_XMD:SHA-512_ELL2_NU_"), 4)

type vrfCtx struct {
	t *htab
}

func (v *vrfCtx) sha(in []byte) []byte { return v.t.h(crypto.SHA512, in) }

// hash tables for encode_to_curve(Y || alpha); H computed with the library (a wrong H makes the spec's lookups miss)
func (v *vrfCtx) hpoint(y, alpha []byte) *curve.EdwardsPoint {
	s := append(append([]byte(nil), y...), alpha...)
	v.t.xmd(crypto.SHA512, vrfDST, s, 48)
	p, err := h2c.Edwards25519_XMD_SHA512_ELL2_NU(vrfDST, s)
	if err != nil {
		panic(err)
	}
	return p
}
func (v *vrfCtx) chal(v10 bool, y []byte, H, G, U, V *curve.EdwardsPoint) *big.Int {
	in := []byte{4, 2}
	if !v10 {
		in = append(in, y...)
	}
	for _, p := range []*curve.EdwardsPoint{H, G, U, V} {
		in = append(in, vt.Enc(p)...)
	}
	in = append(in, 0)
	d := v.sha(in)
	return vt.FromLE(d[:16])
}
func (v *vrfCtx) beta(G *curve.EdwardsPoint) {
	var c8 curve.EdwardsPoint
	c8.MulByCofactor(G)
	v.sha(append(append([]byte{4, 3}, vt.Enc(&c8)...), 0))
}
func bigScalar(x *big.Int) *scalar.Scalar { return vt.ScalarFromBig(x) }
func clampBig(h []byte) *big.Int {
	b := append([]byte(nil), h[:32]...)
	b[0] &= 248
	b[31] &= 127
	b[31] |= 64
	return vt.FromLE(b)
}

func recC15(c *ctx) {
	r := c.r
	n := c.budget(4, 64)
	verify := func(kind string, v10 bool, pk, pi, alpha []byte, t *htab) {
		var ok bool
		var beta []byte
		if v10 {
			ok, beta = ecvrf.Verify_v10(pk, pi, alpha)
		} else {
			ok, beta = ecvrf.Verify(pk, pi, alpha)
		}
		p2h, err := ecvrf.ProofToHash(pi)
		e := vt.Ev{"op": "vrfverify", "cfg": c.cfg, "kind": kind, "v10": v10, "pk": vt.B(pk), "pi": vt.B(pi), "alpha": vt.B(alpha), "ok": ok,
			"beta": vt.B(beta), "p2hok": err == nil, "p2h": vt.B(p2h), "sha": t.ents}
		if t.ents == nil {
			e["sha"] = []vt.Ev{}
		}
		c.w.Emit(e)
	}
	// tables for a verification of (pk, pi, alpha): every hash the specification will ask for, computed from the
	// bytes with library arithmetic (if a step cannot be carried out the verifier rejects before hashing)
	vtables := func(v10 bool, pk, pi, alpha []byte) *htab {
		v := &vrfCtx{t: &htab{}}
		if len(pk) != 32 || len(pi) != 80 {
			return v.t
		}
		var Y, G curve.EdwardsPoint
		if Y.UnmarshalBinary(pk) != nil || G.UnmarshalBinary(pi[:32]) != nil {
			return v.t
		}
		H := v.hpoint(pk, alpha)
		cc := make([]byte, 32)
		copy(cc, pi[32:48])
		cs, _ := scalar.NewFromBits(cc)
		ss, err := scalar.NewFromBytesModOrder(pi[48:])
		if err != nil {
			return v.t
		}
		var nY, nG, U, V curve.EdwardsPoint
		nY.Neg(&Y)
		nG.Neg(&G)
		U.DoubleScalarMulBasepointVartime(cs, &nY, ss)
		V.MultiscalarMulVartime([]*scalar.Scalar{ss, cs}, []*curve.EdwardsPoint{H, &nG})
		v.chal(v10, pk, H, &G, &U, &V)
		v.beta(&G)
		return v.t
	}
	voff := 0
	if c.cfg != "default" && c.tier == "thorough" {
		voff = 2
	}
	// ---- input-length sweep: for EVERY alpha length 0..200 an honest proof (the four proving entry points rotate) must verify
	// for its own alpha and for no neighbour of it (last byte changed, one byte dropped, one byte appended); the verdicts are
	// fixed by the class of the request (Trace_C15: vrfsweep), so the sweep costs no real-scale recomputation
	{
		ssk := ed25519.NewKeyFromSeed(r.Bytes(32))
		spk := []byte(ssk[32:])
		for ln := 0; ln <= 200; ln++ {
			alpha := r.Bytes(ln)
			v10 := ln%2 == 1
			var pi []byte
			e := vt.Ev{"op": "vrfsweep", "cfg": c.cfg, "n": ln, "v10": v10, "entry": ln % 4}
			if !c.try("vrfsweep", e, func() {
				switch ln % 4 {
				case 0:
					pi = ecvrf.Prove(ssk, alpha)
				case 1:
					pi = ecvrf.Prove_v10(ssk, alpha)
				case 2:
					pi, _ = ecvrf.ProveWithAddedRandomness(r.Entropy(r.Bytes(32)), ssk, alpha)
				case 3:
					pi, _ = ecvrf.ProveWithAddedRandomness_v10(r.Entropy(r.Bytes(32)), ssk, alpha)
				}
				ver := func(a []byte) bool {
					if v10 {
						ok, _ := ecvrf.Verify_v10(spk, pi, a)
						return ok
					}
					ok, _ := ecvrf.Verify(spk, pi, a)
					return ok
				}
				e["same"] = ver(alpha)
				e["app"] = ver(append(append([]byte(nil), alpha...), 0))
				e["last"], e["trunc"] = false, false
				if ln > 0 {
					fl := append([]byte(nil), alpha...)
					fl[ln-1] ^= 1
					e["last"] = ver(fl)
					e["trunc"] = ver(alpha[:ln-1])
				}
			}) {
				continue
			}
			c.w.Emit(e)
		}
	}
	for i := 0; i < n; i++ {
		seed := r.Bytes(32)
		sk := ed25519.NewKeyFromSeed(seed)
		pk := []byte(sk[32:])
		alpha := r.Bytes([]int{0, 1, 20, 100, 64 + r.Intn(40), r.Intn(200)}[r.Intn(6)])
		// the four proving entry points rotate; the rotation starts elsewhere on the second configuration so that a
		// quick run (two proofs per configuration) still goes through all four
		variant := (i + voff) % 4
		v10 := variant%2 == 1
		addRand := variant >= 2
		z := r.Bytes(32)
		// the key and alpha are handed over as sub-slices of larger poisoned buffers: a callee must not write past them
		skBuf := append(append([]byte(nil), sk...), bytes.Repeat([]byte{0xa7}, 96)...)
		alBuf := append(append([]byte(nil), alpha...), bytes.Repeat([]byte{0xa7}, 32)...)
		sk = ed25519.PrivateKey(skBuf[:64])
		alpha = alBuf[:len(alpha)]
		// an entropy source that breaks in the middle of a read: the call must fail, and nothing it absorbed may leak into
		// the proof made next (which is recomputed from the seed by the specification)
		{
			var perr error
			var ppi []byte
			c.try("vrfprovefail", vt.Ev{}, func() {
				if v10 {
					ppi, perr = ecvrf.ProveWithAddedRandomness_v10(r.FailingEntropy(z, r.Intn(32)), sk, alpha)
				} else {
					ppi, perr = ecvrf.ProveWithAddedRandomness(r.FailingEntropy(z, r.Intn(32)), sk, alpha)
				}
			})
			if perr == nil || ppi != nil {
				c.w.Emit(vt.Ev{"op": "vrfprovefail", "cfg": c.cfg, "err": perr != nil, "pinil": ppi == nil})
			}
		}
		var pi []byte
		switch {
		case !addRand && !v10:
			pi = ecvrf.Prove(sk, alpha)
		case !addRand && v10:
			pi = ecvrf.Prove_v10(sk, alpha)
		case addRand && !v10:
			pi, _ = ecvrf.ProveWithAddedRandomness(r.Entropy(z), sk, alpha)
		default:
			pi, _ = ecvrf.ProveWithAddedRandomness_v10(r.Entropy(z), sk, alpha)
		}
		tailOK := bytes.Equal(skBuf[64:], bytes.Repeat([]byte{0xa7}, 96)) && bytes.Equal(alBuf[len(alpha):], bytes.Repeat([]byte{0xa7}, 32)) &&
			bytes.Equal(skBuf[:32], seed)
		// ---- the honest proof, recomputed by the specification from the seed
		v := &vrfCtx{t: &htab{}}
		h0 := v.sha(seed)
		x := clampBig(h0)
		H := v.hpoint(pk, alpha)
		var G curve.EdwardsPoint
		G.Mul(H, bigScalarBits(x))
		var nin []byte
		if addRand {
			nin = append(nin, z...)
		}
		nin = append(nin, h0[32:]...)
		if addRand {
			nin = append(nin, make([]byte, 1024-64)...)
		}
		nin = append(nin, vt.Enc(H)...)
		kd := v.sha(nin)
		k := new(big.Int).Mod(vt.FromLE(kd), vt.L)
		var kB, kH curve.EdwardsPoint
		kB.MulBasepoint(curve.ED25519_BASEPOINT_TABLE, bigScalar(k))
		kH.Mul(H, bigScalar(k))
		v.chal(v10, pk, H, &G, &kB, &kH)
		v.beta(&G)
		beta, _ := ecvrf.ProofToHash(pi)
		c.w.Emit(vt.Ev{"op": "vrfprove", "cfg": c.cfg, "seed": vt.B(seed), "pk": vt.B(pk), "alpha": vt.B(alpha), "v10": v10, "addRand": addRand,
			"z": vt.B(z), "pi": vt.B(pi), "beta": vt.B(beta), "sha": v.t.ents, "tailok": tailOK})
		// ---- verification of the honest proof, and under the other challenge format
		verify("honest", v10, pk, pi, alpha, vtables(v10, pk, pi, alpha))
		verify("crossversion", !v10, pk, pi, alpha, vtables(!v10, pk, pi, alpha))
		// in a quick run the third and fourth proof (the added-randomness entry points) get the honest verifications only
		if c.tier != "thorough" && i >= 2 {
			continue
		}
		// ---- altered proofs
		flip := append([]byte(nil), pi...)
		bit := r.Intn(640)
		flip[bit/8] ^= 1 << uint(bit%8)
		verify("bitflip", v10, pk, flip, alpha, vtables(v10, pk, flip, alpha))
		sl := append([]byte(nil), pi...)
		copy(sl[48:], vt.LE(new(big.Int).Add(vt.FromLE(pi[48:]), vt.L), 32))
		verify("s+L", v10, pk, sl, alpha, vtables(v10, pk, sl, alpha))
		alpha2 := append(append([]byte(nil), alpha...), 1)
		verify("otheralpha", v10, pk, pi, alpha2, vtables(v10, pk, pi, alpha2))
		pk2 := ed25519.NewKeyFromSeed(r.Bytes(32))[32:]
		verify("otherkey", v10, pk2, pi, alpha, vtables(v10, pk2, pi, alpha))
		verify("shortproof", v10, pk, pi[:79], alpha, &htab{})
		// the s < L check of the proof decoder on the scalar boundary family (a rotating part per run)
		bd := vt.WordClasses()
		for j := (i + int(c.r.Int63()%5)) % 5; j < len(bd); j += 5 {
			pb := append(append([]byte(nil), pi[:48]...), bd[j]...)
			b, err := ecvrf.ProofToHash(pb)
			c.w.Emit(vt.Ev{"op": "vrfp2h", "cfg": c.cfg, "pi": vt.B(pb), "p2hok": err == nil, "p2h": vt.B(b)})
		}
		// the same decoder on the honest s with the top bits set (s + 2^253 .. s + 2^255: at or above L, whatever a masking
		// loader makes of it), through the decoder alone and through full verification
		for _, hv := range vt.HighBitVariants(pi[48:80]) {
			pb := append(append([]byte(nil), pi[:48]...), hv...)
			b, err := ecvrf.ProofToHash(pb)
			c.w.Emit(vt.Ev{"op": "vrfp2h", "cfg": c.cfg, "pi": vt.B(pb), "p2hok": err == nil, "p2h": vt.B(b)})
			okv := false
			c.try("vrfhigh", vt.Ev{}, func() {
				if v10 {
					okv, _ = ecvrf.Verify_v10(pk, pb, alpha)
				} else {
					okv, _ = ecvrf.Verify(pk, pb, alpha)
				}
			})
			c.w.Emit(vt.Ev{"op": "vrfsweep", "cfg": c.cfg, "n": -1, "v10": v10, "entry": -1, "same": true, "last": okv, "trunc": false, "app": false})
		}
		// ---- proofs built with the secret for a torsion-shifted Gamma: only the cofactor handling decides
		for _, ti := range []int{4, 2, 1 + r.Intn(7)} {
			var G2 curve.EdwardsPoint
			G2.Add(&G, vt.Torsion(ti))
			k2 := new(big.Int).Mod(vt.FromLE(r.Bytes(40)), vt.L)
			var k2B, k2H curve.EdwardsPoint
			k2B.MulBasepoint(curve.ED25519_BASEPOINT_TABLE, bigScalar(k2))
			k2H.Mul(H, bigScalar(k2))
			vv := &vrfCtx{t: &htab{}}
			cc := vv.chal(v10, pk, H, &G2, &k2B, &k2H)
			s2 := new(big.Int).Mod(new(big.Int).Add(k2, new(big.Int).Mul(cc, x)), vt.L)
			p2 := append(append(append([]byte(nil), vt.Enc(&G2)...), vt.LE(cc, 16)...), vt.LE(s2, 32)...)
			verify("torsionGamma", v10, pk, p2, alpha, vtables(v10, pk, p2, alpha))
		}
		// ---- forgery attempt for each small-order public key: Gamma = identity, U = kB, V = kH, s = k
		if i%2 == 0 {
			for ti := 0; ti < 8; ti++ {
				ypk := vt.Enc(vt.Torsion(ti))
				vv := &vrfCtx{t: &htab{}}
				HH := vv.hpoint(ypk, alpha)
				k3 := new(big.Int).Mod(vt.FromLE(r.Bytes(40)), vt.L)
				var k3B, k3H, id curve.EdwardsPoint
				id.Identity()
				k3B.MulBasepoint(curve.ED25519_BASEPOINT_TABLE, bigScalar(k3))
				k3H.Mul(HH, bigScalar(k3))
				for _, vv10 := range []bool{false, true} {
					cc := (&vrfCtx{t: &htab{}}).chal(vv10, ypk, HH, &id, &k3B, &k3H)
					p3 := append(append(append([]byte(nil), vt.Enc(&id)...), vt.LE(cc, 16)...), vt.LE(k3, 32)...)
					verify("smallorderkey", vv10, ypk, p3, alpha, vtables(vv10, ypk, p3, alpha))
				}
			}
			// non-canonical Gamma (identity as y = p + 1) and non-canonical public key
			for _, nc := range vt.NonCanonical(vt.Enc(vt.Torsion(0))) {
				p4 := append(append([]byte(nil), nc...), pi[32:]...)
				verify("noncanonicalGamma", v10, pk, p4, alpha, vtables(v10, pk, p4, alpha))
				verify("noncanonicalKey", v10, nc, pi, alpha, vtables(v10, nc, pi, alpha))
			}
		}
	}
	_ = sha512.Size
}

func bigScalarBits(x *big.Int) *scalar.Scalar {
	s, err := scalar.NewFromBits(vt.LE(x, 32))
	if err != nil {
		panic(err)
	}
	return s
}
