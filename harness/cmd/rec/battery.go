package main

import (
	"bytes"
	"crypto"
	"crypto/sha256"
	"fmt"

	"github.com/oasisprotocol/curve25519-voi/curve"
	"github.com/oasisprotocol/curve25519-voi/curve/scalar"
	"github.com/oasisprotocol/curve25519-voi/primitives/ed25519"
	"github.com/oasisprotocol/curve25519-voi/primitives/ed25519/extra/ecvrf"
	"github.com/oasisprotocol/curve25519-voi/primitives/h2c"
	"github.com/oasisprotocol/curve25519-voi/primitives/merlin"
	"github.com/oasisprotocol/curve25519-voi/primitives/sr25519"
	"github.com/oasisprotocol/curve25519-voi/primitives/x25519"
)

// battery evaluates a fixed set of library calls on fixed inputs and reads every exported package-level
// value; it is run before and after a recording. The library has no documented mutable global state, so the
// two digests must be equal whatever the recording did in between (an exceptional input, a failed call or a
// shared operand must not leave anything behind in constants, tables, pools or caches).
func battery() (digest string, err error) {
	defer func() {
		if p := recover(); p != nil {
			err = fmt.Errorf("panic: %v", p)
		}
	}()
	h := sha256.New()
	put := func(b []byte, e error) {
		if e != nil {
			h.Write([]byte("error:" + e.Error()))
		}
		h.Write(b)
		h.Write([]byte{0xff})
	}
	enc := func(p *curve.EdwardsPoint) { put(p.MarshalBinary()) }
	// exported values
	enc(curve.ED25519_BASEPOINT_POINT)
	put(curve.ED25519_BASEPOINT_COMPRESSED[:], nil)
	put(curve.X25519_BASEPOINT[:], nil)
	put(curve.RISTRETTO_BASEPOINT_COMPRESSED[:], nil)
	put(curve.RISTRETTO_BASEPOINT_POINT.MarshalBinary())
	for _, t := range curve.EIGHT_TORSION {
		enc(t)
		var d curve.EdwardsPoint
		d.Add(t, curve.ED25519_BASEPOINT_POINT) // reads T as well
		enc(&d)
	}
	enc(curve.ED25519_BASEPOINT_TABLE.Basepoint())
	put(curve.RISTRETTO_BASEPOINT_TABLE.Basepoint().MarshalBinary())
	var ob [32]byte
	put(ob[:], scalar.BASEPOINT_ORDER.ToBytes(ob[:]))
	put(x25519.Basepoint, nil)
	for _, vo := range []*ed25519.VerifyOptions{ed25519.VerifyOptionsDefault, ed25519.VerifyOptionsStdLib, ed25519.VerifyOptionsFIPS_186_5, ed25519.VerifyOptionsZIP_215} {
		put([]byte(fmt.Sprintf("%+v", *vo)), nil)
	}
	// functional probes on fixed inputs: field, scalar, group, every protocol
	seed := bytes.Repeat([]byte{0x42}, 32)
	sk := ed25519.NewKeyFromSeed(seed)
	msg := []byte("battery")
	sig := ed25519.Sign(sk, msg)
	put(sig, nil)
	for _, vo := range []*ed25519.VerifyOptions{ed25519.VerifyOptionsDefault, ed25519.VerifyOptionsStdLib, ed25519.VerifyOptionsFIPS_186_5, ed25519.VerifyOptionsZIP_215} {
		ok := ed25519.VerifyWithOptions(ed25519.PublicKey(sk[32:]), msg, sig, &ed25519.Options{Verify: vo})
		put([]byte{map[bool]byte{false: 0, true: 1}[ok]}, nil)
	}
	s3 := scalar.NewFromUint64(3)
	var p1, p2 curve.EdwardsPoint
	p1.MulBasepoint(curve.ED25519_BASEPOINT_TABLE, s3)
	p2.Mul(curve.ED25519_BASEPOINT_POINT, s3)
	enc(&p1)
	enc(&p2)
	put([]byte{byte(p1.Equal(&p2)), map[bool]byte{false: 0, true: 1}[curve.EIGHT_TORSION[1].IsTorsionFree()], map[bool]byte{false: 0, true: 1}[p1.IsTorsionFree()]}, nil)
	var sc scalar.Scalar
	sc.Sub(scalar.BASEPOINT_ORDER, s3)
	put(ob[:], sc.ToBytes(ob[:]))
	put(x25519.X25519(seed, x25519.Basepoint))
	put(x25519.X25519(seed, sig[:32]))
	for _, dst := range []string{"QUUX-V01-CS02-with-edwards25519_XMD:SHA-512_ELL2_RO_", "x"} {
		if p, e := h2c.Edwards25519_XMD_SHA512_ELL2_RO([]byte(dst), msg); e == nil {
			enc(p)
		} else {
			put(nil, e)
		}
		if p, e := h2c.Edwards25519_XMD_SHA512_ELL2_NU([]byte(dst), msg); e == nil {
			enc(p)
		} else {
			put(nil, e)
		}
		if p, e := h2c.Ristretto255_XMD_R255MAP_RO(crypto.SHA512, []byte(dst), msg); e == nil {
			put(p.MarshalBinary())
		} else {
			put(nil, e)
		}
	}
	pi := ecvrf.Prove(sk, msg)
	put(pi, nil)
	ok, beta := ecvrf.Verify(ed25519.PublicKey(sk[32:]), pi, msg)
	put(beta, nil)
	put([]byte{map[bool]byte{false: 0, true: 1}[ok]}, nil)
	if msk, e := sr25519.NewMiniSecretKeyFromBytes(seed); e == nil {
		kp := msk.ExpandUniform().KeyPair()
		put(kp.MarshalBinary())
		kp2 := msk.ExpandEd25519().KeyPair()
		put(kp2.MarshalBinary())
		ctx := sr25519.NewSigningContext([]byte("battery"))
		if sg, e2 := kp.Sign(bytes.NewReader(make([]byte, 64)), ctx.NewTranscriptBytes(msg)); e2 == nil {
			put(sg.MarshalBinary())
			put([]byte{map[bool]byte{false: 0, true: 1}[kp.PublicKey().Verify(ctx.NewTranscriptBytes(msg), sg)]}, nil)
		} else {
			put(nil, e2)
		}
	} else {
		put(nil, e)
	}
	tr := merlin.NewTranscript("battery")
	tr.AppendMessage("m", msg)
	chal := make([]byte, 48)
	tr.ExtractBytes(chal, "c")
	put(chal, nil)
	var rp curve.RistrettoPoint
	if _, e := rp.SetUniformBytes(bytes.Repeat([]byte{0x17}, 64)); e == nil {
		put(rp.MarshalBinary())
	} else {
		put(nil, e)
	}
	return fmt.Sprintf("%x", h.Sum(nil)), nil
}
