package main

import (
	"bytes"
	"crypto"
	stded "crypto/ed25519"
	"crypto/sha512"
	"errors"
	"fmt"
	"io"
	"math/big"

	"github.com/oasisprotocol/curve25519-voi/primitives/ed25519"

	"verifharness/vt"
)

// C02: key generation and signing.
func init() { recorders["C02"] = recC02 }

type failReader struct{}

func (failReader) Read([]byte) (int, error) { return 0, errors.New("entropy failure") }

func sha(in []byte) vt.Ev {
	d := sha512.Sum512(in)
	return vt.Ev{"in": vt.B(in), "out": vt.B(d[:])}
}

func recC02(c *ctx) {
	r := c.r
	seed := r.Bytes(32)
	priv := ed25519.NewKeyFromSeed(seed)
	presets := []*ed25519.VerifyOptions{nil, ed25519.VerifyOptionsDefault, ed25519.VerifyOptionsStdLib, ed25519.VerifyOptionsFIPS_186_5,
		ed25519.VerifyOptionsZIP_215, {AllowNonCanonicalR: true, CofactorlessVerify: true}}
	voEv := func(v *ed25519.VerifyOptions) vt.Ev {
		if v == nil {
			return vt.Ev{"soA": false, "soR": false, "ncA": false, "ncR": false, "cl": false}
		}
		return vt.Ev{"soA": v.AllowSmallOrderA, "soR": v.AllowSmallOrderR, "ncA": v.AllowNonCanonicalA, "ncR": v.AllowNonCanonicalR, "cl": v.CofactorlessVerify}
	}
	// ---- (1) the complete option-validation lattice
	hashes := []struct {
		name string
		h    crypto.Hash
	}{{"none", crypto.Hash(0)}, {"sha512", crypto.SHA512}, {"other", crypto.SHA256}, {"other", crypto.SHA384}}
	for _, hh := range hashes {
		for _, cl := range []int{0, 1, 255, 256} {
			for _, ml := range []int{0, 63, 64, 65} {
				for _, pl := range []int{0, 63, 64, 65} {
					for m := 0; m < 8; m++ {
						addRand, selfV, entFail := m&1 != 0, m&2 != 0, m&4 != 0
						for _, vo := range presets {
							o := &ed25519.Options{Hash: hh.h, Context: string(bytes.Repeat([]byte{'c'}, cl)), AddedRandomness: addRand, SelfVerify: selfV, Verify: vo}
							pk := make([]byte, pl)
							copy(pk, priv)
							var rd io.Reader = bytes.NewReader(bytes.Repeat([]byte{7}, 64))
							if entFail {
								rd = failReader{}
							}
							var sig []byte
							var err error
							func() {
								defer func() {
									if p := recover(); p != nil {
										err = errors.New("panic")
										sig = nil
									}
								}()
								sig, err = ed25519.PrivateKey(pk).Sign(rd, make([]byte, ml), o)
							}()
							e := vt.Ev{"op": "signopt", "cfg": c.cfg, "hash": hh.name, "ctxLen": cl, "msgLen": ml, "privLen": pl, "addRand": addRand,
								"selfVerify": selfV, "entropyFails": entFail, "vonil": vo == nil, "vo": voEv(vo), "err": err != nil, "gotsig": len(sig) == 64}
							if err != nil && err.Error() == "panic" {
								e["panic"] = true
							}
							c.w.Emit(e)
						}
					}
				}
			}
		}
	}
	// ---- (2) signatures recomputed at real scale; (3) verified under every preset, in a batch, and bit-flipped
	n := c.budget(16, 400)
	fs := []string{"pure", "ctx", "ph"}
	for i := 0; i < n; i++ {
		seed := r.Bytes(32)
		if i%4 == 3 {
			seed = searchSeed(r) // clamped scalar with extreme radix-16 digits
		}
		priv := ed25519.NewKeyFromSeed(seed)
		pub := []byte(priv[32:])
		f := fs[i%3]
		var ctxb []byte
		if f != "pure" {
			ctxb = r.Bytes([]int{1, 16, 255}[r.Intn(3)])
		}
		if f == "ph" && r.Intn(2) == 0 {
			ctxb = nil
		}
		msg := r.Bytes([]int{0, 1, 31, 64, 200}[r.Intn(5)])
		if f == "ph" {
			msg = r.Bytes(64)
		}
		addRand := i%2 == 1
		z := r.Bytes(32)
		o := &ed25519.Options{Context: string(ctxb), AddedRandomness: addRand, SelfVerify: i%5 == 0}
		if f == "ph" {
			o.Hash = crypto.SHA512
		}
		sig, err := priv.Sign(r.Entropy(z), msg, o)
		if err != nil || len(sig) != 64 {
			// signing a well-formed request must succeed: logged, and rejected by the specification
			c.w.Emit(vt.Ev{"op": "signfail", "cfg": c.cfg, "seed": vt.B(seed), "msg": vt.B(msg), "f": f, "ctx": vt.B(ctxb),
				"addRand": addRand, "selfVerify": o.SelfVerify, "error": fmt.Sprint(err)})
			continue
		}
		// hash table: the three SHA-512 evaluations of RFC 8032 signing, computed with the standard library
		h0 := sha512.Sum512(seed)
		dom := vt.Dom2(f, ctxb)
		var nin []byte
		nin = append(nin, dom...)
		if addRand {
			nin = append(nin, z...)
		}
		nin = append(nin, h0[32:]...)
		if addRand {
			nin = append(nin, make([]byte, 1024-(len(dom)+32+32))...)
		}
		nin = append(nin, msg...)
		var kin []byte
		kin = append(kin, dom...)
		kin = append(kin, sig[:32]...)
		kin = append(kin, pub...)
		kin = append(kin, msg...)
		e := vt.Ev{"op": "sign", "cfg": c.cfg, "seed": vt.B(seed), "msg": vt.B(msg), "f": f, "ctx": vt.B(ctxb), "addRand": addRand, "z": vt.B(z),
			"pk": vt.B(pub), "sig": vt.B(sig), "sha": []vt.Ev{sha(seed), sha(nin), sha(kin)}}
		if f == "pure" && !addRand {
			e["std"] = vt.B(stded.Sign(stded.NewKeyFromSeed(seed), msg))
			e["stdpk"] = vt.B(stded.NewKeyFromSeed(seed)[32:])
		}
		c.w.Emit(e)

		// GenerateKey(reader) = NewKeyFromSeed(the 32 bytes read); accessors
		if i%4 == 0 {
			gp, gk, gerr := ed25519.GenerateKey(r.Entropy(seed))
			okacc := gerr == nil && bytes.Equal(gk, priv) && bytes.Equal(gp, pub) && bytes.Equal(priv.Seed(), seed) &&
				bytes.Equal(priv.Public().(ed25519.PublicKey), pub) && priv.Equal(gk) && ed25519.PublicKey(pub).Equal(gp) &&
				bytes.Equal(priv[:32], seed)
			c.w.Emit(vt.Ev{"op": "sigcheck", "cfg": c.cfg, "kind": "accept", "res": []bool{okacc}, "seed": vt.B(seed), "what": "GenerateKey/Seed/Public/Equal"})
			// what the accessors and constructors return is the caller's to modify: scribbling over it must not reach
			// the private key (which is then used to sign again)
			if gerr == nil {
				scribble := func(b []byte) {
					for j := range b {
						b[j] ^= 0xa5
					}
				}
				scribble(gp)
				scribble(gk.Public().(ed25519.PublicKey))
				scribble(gk.Seed())
				// the seed as a 32-byte window into a larger caller buffer (spare capacity holding live data): the key must be the
				// caller's own copy and nothing behind the window may be written
				frame := append(append([]byte(nil), seed...), bytes.Repeat([]byte{0x5c}, 64)...)
				seed2 := frame[:32]
				k2 := ed25519.NewKeyFromSeed(seed2)
				tailOK := bytes.Equal(frame[32:], bytes.Repeat([]byte{0x5c}, 64))
				scribble(frame)
				if !tailOK {
					c.w.Emit(vt.Ev{"op": "sigcheck", "cfg": c.cfg, "kind": "accept", "res": []bool{false}, "seed": vt.B(seed), "what": "NewKeyFromSeed wrote behind the seed it was given"})
				}
				sA, eA := gk.Sign(nil, msg, &ed25519.Options{Context: string(ctxb), Hash: o.Hash})
				sB, eB := k2.Sign(nil, msg, &ed25519.Options{Context: string(ctxb), Hash: o.Hash})
				sC, eC := priv.Sign(nil, msg, &ed25519.Options{Context: string(ctxb), Hash: o.Hash})
				okali := eA == nil && eB == nil && eC == nil && bytes.Equal(gk, priv) && bytes.Equal(k2, priv) && bytes.Equal(sA, sC) && bytes.Equal(sB, sC)
				c.w.Emit(vt.Ev{"op": "sigcheck", "cfg": c.cfg, "kind": "accept", "res": []bool{okali}, "seed": vt.B(seed), "what": "returned slices do not alias the private key"})
			}
		}
		// every preset, singly and in one mixed batch
		var res []bool
		bv := ed25519.NewBatchVerifier()
		for _, vo := range presets[:5] {
			o2 := &ed25519.Options{Context: string(ctxb), Hash: o.Hash, Verify: vo}
			res = append(res, ed25519.VerifyWithOptions(pub, msg, sig, o2))
			if vo != ed25519.VerifyOptionsStdLib {
				bv.AddWithOptions(pub, msg, sig, o2)
			}
		}
		ball, bres := bv.Verify(nil)
		res = append(res, ball)
		res = append(res, bres...)
		c.w.Emit(vt.Ev{"op": "sigcheck", "cfg": c.cfg, "kind": "accept", "res": res, "seed": vt.B(seed)})
		// flips: every 7th signature bit, one key bit, one message bit, the context
		var neg []bool
		o3 := &ed25519.Options{Context: string(ctxb), Hash: o.Hash, Verify: presets[1+i%4]}
		for bit := i % 7; bit < 512; bit += 7 {
			s2 := append([]byte(nil), sig...)
			s2[bit/8] ^= 1 << uint(bit%8)
			neg = append(neg, ed25519.VerifyWithOptions(pub, msg, s2, o3))
		}
		p2 := append([]byte(nil), pub...)
		p2[r.Intn(32)] ^= 1 << uint(r.Intn(8))
		neg = append(neg, ed25519.VerifyWithOptions(p2, msg, sig, o3))
		if len(msg) > 0 {
			m2 := append([]byte(nil), msg...)
			m2[r.Intn(len(m2))] ^= 1 << uint(r.Intn(8))
			neg = append(neg, ed25519.VerifyWithOptions(pub, m2, sig, o3))
		}
		o4 := *o3
		o4.Context = string(ctxb) + "x"
		if len(o4.Context) <= 255 {
			neg = append(neg, ed25519.VerifyWithOptions(pub, msg, sig, &o4))
		}
		c.w.Emit(vt.Ev{"op": "sigcheck", "cfg": c.cfg, "kind": "reject", "res": neg, "seed": vt.B(seed)})
		// added randomness: R differs from the deterministic R and between entropy values
		if addRand {
			o5 := *o
			o5.AddedRandomness = false
			det, err1 := priv.Sign(nil, msg, &o5)
			z2 := append([]byte(nil), z...)
			z2[0] ^= 1
			sig2, err2 := priv.Sign(r.Entropy(z2), msg, o)
			if err1 != nil || err2 != nil {
				c.w.Emit(vt.Ev{"op": "signfail", "cfg": c.cfg, "seed": vt.B(seed), "error": fmt.Sprint(err1, err2)})
				continue
			}
			c.w.Emit(vt.Ev{"op": "sigcheck", "cfg": c.cfg, "kind": "reject", "seed": vt.B(seed),
				"res": []bool{bytes.Equal(det[:32], sig[:32]), bytes.Equal(sig2[:32], sig[:32])}})
		}
	}
}

// searchSeed finds a seed whose clamped scalar has extreme signed radix-16 digits in its top nibbles
// (top byte 0x7f..: digit 63 = 8 after carry) - the rarely used entries of the fixed-base table.
func searchSeed(r *vt.Rng) []byte {
	for {
		s := r.Bytes(32)
		h := sha512.Sum512(s)
		a := vt.FromLE(h[:32])
		_ = big.NewInt
		if h[31]&0x3f >= 0x38 || h[30] >= 0xf8 || h[0]&0xf8 == 0xf8 {
			_ = a
			return s
		}
	}
}
