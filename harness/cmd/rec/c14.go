package main

import (
	"bytes"
	"crypto"
	_ "crypto/md5"
	_ "crypto/sha1"
	_ "crypto/sha256"
	_ "crypto/sha512"

	"golang.org/x/crypto/sha3"

	"github.com/oasisprotocol/curve25519-voi/curve"
	"github.com/oasisprotocol/curve25519-voi/primitives/h2c"

	"verifharness/vt"
)

// C14: hash-to-curve. SHA-2 / SHAKE are outside the system under test: every event carries the table
// of hash evaluations (input -> output) computed with the standard library on the inputs that RFC 9380
// prescribes; the TLA+ specification rebuilds each input itself and looks it up.
func init() { recorders["C14"] = recC14 }

var oversize = []byte("H2C-OVERSIZE-DST-")

type htab struct{ ents []vt.Ev }

func (t *htab) h(hf crypto.Hash, in []byte) []byte {
	h := hf.New()
	h.Write(in)
	out := h.Sum(nil)
	t.ents = append(t.ents, vt.Ev{"in": vt.B(in), "out": vt.B(out)})
	return out
}
func (t *htab) x(xf sha3.ShakeHash, in []byte, n int) []byte {
	x := xf.Clone()
	x.Reset()
	x.Write(in)
	out := make([]byte, n)
	x.Read(out)
	t.ents = append(t.ents, vt.Ev{"in": vt.B(in), "n": n, "out": vt.B(out)})
	return out
}

// the hash evaluations of expand_message_xmd (RFC 9380 5.3.1), for the table only
func (t *htab) xmd(hf crypto.Hash, dst, msg []byte, n int) {
	b, r := hf.Size(), hf.New().BlockSize()
	if b < 32 || n == 0 || n > 65535 || (n+b-1)/b > 255 {
		return
	}
	if len(dst) > 255 {
		dst = t.h(hf, append(append([]byte(nil), oversize...), dst...))
	}
	dstp := append(append([]byte(nil), dst...), byte(len(dst)))
	in := make([]byte, r)
	in = append(in, msg...)
	in = append(in, byte(n>>8), byte(n), 0)
	in = append(in, dstp...)
	b0 := t.h(hf, in)
	bi := t.h(hf, append(append(append([]byte(nil), b0...), 1), dstp...))
	ell := (n + b - 1) / b
	for i := 2; i <= ell; i++ {
		x := make([]byte, b)
		for j := range x {
			x[j] = b0[j] ^ bi[j]
		}
		bi = t.h(hf, append(append(x, byte(i)), dstp...))
	}
}
func (t *htab) xof(xf sha3.ShakeHash, dst, msg []byte, n int) {
	if n == 0 || n > 65535 {
		return
	}
	if len(dst) > 255 {
		dst = t.x(xf, append(append([]byte(nil), oversize...), dst...), 32)
	}
	in := append([]byte(nil), msg...)
	in = append(in, byte(n>>8), byte(n))
	in = append(in, dst...)
	in = append(in, byte(len(dst)))
	t.x(xf, in, n)
}

func recC14(c *ctx) {
	r := c.r
	type hf struct {
		name string
		h    crypto.Hash
	}
	hashes := []hf{{"sha224", crypto.SHA224}, {"sha256", crypto.SHA256}, {"sha384", crypto.SHA384}, {"sha512", crypto.SHA512},
		{"sha512_256", crypto.SHA512_256}, {"sha3_256", crypto.SHA3_256}, {"sha3_512", crypto.SHA3_512}}
	xofs := map[string]sha3.ShakeHash{"shake128": sha3.NewShake128(), "shake256": sha3.NewShake256()}
	dstLens := []int{0, 1, 16, 254, 255, 256, 257, 1000}
	thorough := c.tier == "thorough"
	xmd := func(h hf, dst, msg []byte, n int) {
		out := make([]byte, n)
		var err error
		// DST and message as ADJACENT sub-slices of one caller buffer (the DST has spare capacity whose first byte is the
		// first message byte, the message is followed by live data): the library must not write into either
		frame := append(append(append([]byte(nil), dst...), msg...), 0xa5, 0x5a, 0xa5, 0x5a)
		dst, msg = frame[:len(dst)], frame[len(dst):len(dst)+len(msg)]
		before := append([]byte(nil), frame...)
		defer func() {
			if !bytes.Equal(before, frame) {
				c.w.Emit(vt.Ev{"op": "argscorrupt", "cfg": c.cfg, "during": "ExpandMessageXMD", "hash": h.name, "dstlen": len(dst), "msglen": len(msg), "n": n, "sha": []vt.Ev{}})
			}
		}()
		if !c.try("ExpandMessageXMD", vt.Ev{"hash": h.name, "n": n, "dstlen": len(dst)}, func() { err = h2c.ExpandMessageXMD(out, h.h, dst, msg) }) {
			return
		}
		t := &htab{}
		t.xmd(h.h, dst, msg, n)
		e := vt.Ev{"op": "xmd", "cfg": c.cfg, "hash": h.name, "b": h.h.Size(), "r": h.h.New().BlockSize(), "dst": vt.B(dst), "msg": vt.B(msg),
			"n": n, "ok": err == nil, "sha": t.ents}
		if t.ents == nil {
			e["sha"] = []vt.Ev{}
		}
		if err == nil {
			e["out"] = vt.B(out)
		}
		c.w.Emit(e)
	}
	xof := func(name string, dst, msg []byte, n int) {
		out := make([]byte, n)
		inst := xofs[name]
		if r.Intn(3) == 0 { // an instance the caller has already absorbed data into: the library must start from a clean state
			inst = inst.Clone()
			inst.Write([]byte("left over from an earlier use"))
		}
		var err error
		frame := append(append(append([]byte(nil), dst...), msg...), 0xa5, 0x5a, 0xa5, 0x5a)
		dst, msg = frame[:len(dst)], frame[len(dst):len(dst)+len(msg)]
		before := append([]byte(nil), frame...)
		defer func() {
			if !bytes.Equal(before, frame) {
				c.w.Emit(vt.Ev{"op": "argscorrupt", "cfg": c.cfg, "during": "ExpandMessageXOF", "xof": name, "dstlen": len(dst), "msglen": len(msg), "n": n, "sha": []vt.Ev{}})
			}
		}()
		if !c.try("ExpandMessageXOF", vt.Ev{"xof": name, "n": n, "dstlen": len(dst)}, func() { err = h2c.ExpandMessageXOF(out, inst, dst, msg) }) {
			return
		}
		t := &htab{}
		t.xof(xofs[name], dst, msg, n)
		e := vt.Ev{"op": "xof", "cfg": c.cfg, "xof": name, "dst": vt.B(dst), "msg": vt.B(msg), "n": n, "ok": err == nil, "sha": t.ents}
		if t.ents == nil {
			e["sha"] = []vt.Ev{}
		}
		if err == nil {
			e["out"] = vt.B(out)
		}
		c.w.Emit(e)
	}
	// ---- expand_message: every DST length class x output length class x hash
	for _, h := range hashes {
		b := h.h.Size()
		for _, dl := range dstLens {
			ns := []int{0, 1, b - 1, b, b + 1, 2 * b, 2*b + 1, 255 * b, 255*b + 1, 65535, 65536}
			if !thorough {
				ns = []int{0, 1, b, b + 1, 2*b + 1, 255 * b, 255*b + 1, 65536}
				if dl != 255 && dl != 256 && dl != 16 {
					ns = []int{b + 1, 255*b + 1}
				}
			}
			for _, n := range ns {
				if n >= 255*b && n < 65535 && !thorough && !((h.name == "sha512" || h.name == "sha256") && (dl == 16 || dl == 256)) {
					continue // the 255-block expansions are expensive to validate: two hashes x two DST classes in quick
				}
				xmd(h, r.Bytes(dl), r.Bytes(r.Intn(40)), n)
			}
		}
	}
	for name := range map[string]bool{"shake128": true, "shake256": true} {
		for _, dl := range dstLens {
			ns := []int{0, 1, 31, 32, 33, 64, 167, 168, 169, 300, 65535, 65536}
			if !thorough {
				ns = []int{0, 1, 48, 169, 65536}
				if dl == 256 && name == "shake128" {
					ns = append(ns, 65535)
				}
			}
			for _, n := range ns {
				xof(name, r.Bytes(dl), r.Bytes(r.Intn(40)), n)
			}
		}
	}
	// ---- suites with a hash function too weak for the 128-bit target (digest below 32 bytes): every generic XMD suite
	// must fail with an error and no point (RFC 9380 5.3.1: expand_message_xmd aborts)
	for _, wh := range []struct {
		name string
		h    crypto.Hash
		b    int
	}{{"md5", crypto.MD5, 16}, {"sha1", crypto.SHA1, 20}, {"sha224", crypto.SHA224, 28}, {"sha512_224", crypto.SHA512_224, 28}} {
		if !wh.h.Available() {
			continue
		}
		dst, msg := r.Bytes(16), r.Bytes(10)
		for _, kind := range []string{"ro", "nu", "r255"} {
			var err error
			ptnil := true
			nbytes := map[string]int{"ro": 96, "nu": 48, "r255": 64}[kind]
			if !c.try("suiteabort", vt.Ev{"kind": kind, "hash": wh.name}, func() {
				switch kind {
				case "ro":
					p, er := h2c.Edwards25519_XMD_ELL2_RO(wh.h, dst, msg)
					err, ptnil = er, p == nil
				case "nu":
					p, er := h2c.Edwards25519_XMD_ELL2_NU(wh.h, dst, msg)
					err, ptnil = er, p == nil
				case "r255":
					p, er := h2c.Ristretto255_XMD_R255MAP_RO(wh.h, dst, msg)
					err, ptnil = er, p == nil
				}
			}) {
				continue
			}
			c.w.Emit(vt.Ev{"op": "suiteabort", "cfg": c.cfg, "kind": kind, "hash": wh.name, "b": wh.b, "n": nbytes, "ok": err == nil, "ptnil": ptnil,
				"sha": []vt.Ev{}})
		}
	}
	// ---- suites
	n := c.budget(16, 240)
	for i := 0; i < n; i++ {
		dst := r.Bytes([]int{1, 16, 40, 255, 256}[r.Intn(5)])
		msg := r.Bytes(r.Intn(60))
		// adjacent sub-slices of one caller buffer (see xmd above)
		frame := append(append(append([]byte(nil), dst...), msg...), 0xa5, 0x5a, 0xa5, 0x5a)
		dst, msg = frame[:len(dst)], frame[len(dst):len(dst)+len(msg)]
		before := append([]byte(nil), frame...)
		t := &htab{}
		e := vt.Ev{"op": "suite", "cfg": c.cfg, "dst": vt.B(dst), "msg": vt.B(msg)}
		var enc []byte
		var err error
		tok := true
		if !c.try("suite", vt.Ev{"i": i % 8}, func() {
			switch i % 8 {
			case 6:
				e["suite"], e["n"], e["kind"], e["hash"], e["b"], e["r"] = "edwards25519_XMD:SHA-384_ELL2_NU_", 48, "nu", "sha384", 48, 128
				t.xmd(crypto.SHA384, dst, msg, 48)
				p, er := h2c.Edwards25519_XMD_ELL2_NU(crypto.SHA384, dst, msg)
				if err = er; er == nil {
					enc, _ = p.MarshalBinary()
					tok = tConsistent(p)
				}
			case 7:
				e["suite"], e["n"], e["kind"], e["xof"] = "edwards25519_XOF:SHAKE128_ELL2_NU_", 48, "nu", "shake128"
				t.xof(xofs["shake128"], dst, msg, 48)
				p, er := h2c.Edwards25519_XOF_ELL2_NU(xofs["shake128"], dst, msg)
				if err = er; er == nil {
					enc, _ = p.MarshalBinary()
					tok = tConsistent(p)
				}
			case 0:
				e["suite"], e["n"], e["kind"], e["hash"], e["b"], e["r"] = "edwards25519_XMD:SHA-512_ELL2_RO_", 96, "ro", "sha512", 64, 128
				t.xmd(crypto.SHA512, dst, msg, 96)
				p, er := h2c.Edwards25519_XMD_SHA512_ELL2_RO(dst, msg)
				if err = er; er == nil {
					enc, _ = p.MarshalBinary()
					tok = tConsistent(p)
				}
			case 1:
				e["suite"], e["n"], e["kind"], e["hash"], e["b"], e["r"] = "edwards25519_XMD:SHA-512_ELL2_NU_", 48, "nu", "sha512", 64, 128
				t.xmd(crypto.SHA512, dst, msg, 48)
				p, er := h2c.Edwards25519_XMD_SHA512_ELL2_NU(dst, msg)
				if err = er; er == nil {
					enc, _ = p.MarshalBinary()
					tok = tConsistent(p)
				}
			case 2:
				e["suite"], e["n"], e["kind"], e["hash"], e["b"], e["r"] = "edwards25519_XMD:SHA-256_ELL2_RO_", 96, "ro", "sha256", 32, 64
				t.xmd(crypto.SHA256, dst, msg, 96)
				p, er := h2c.Edwards25519_XMD_ELL2_RO(crypto.SHA256, dst, msg)
				if err = er; er == nil {
					enc, _ = p.MarshalBinary()
					tok = tConsistent(p)
				}
			case 3:
				e["suite"], e["n"], e["kind"], e["xof"] = "edwards25519_XOF:SHAKE256_ELL2_RO_", 96, "ro", "shake256"
				t.xof(xofs["shake256"], dst, msg, 96)
				p, er := h2c.Edwards25519_XOF_ELL2_RO(xofs["shake256"], dst, msg)
				if err = er; er == nil {
					enc, _ = p.MarshalBinary()
					tok = tConsistent(p)
				}
			case 4:
				e["suite"], e["n"], e["kind"], e["hash"], e["b"], e["r"] = "ristretto255_XMD:SHA-512_R255MAP_RO_", 64, "r255", "sha512", 64, 128
				t.xmd(crypto.SHA512, dst, msg, 64)
				p, er := h2c.Ristretto255_XMD_R255MAP_RO(crypto.SHA512, dst, msg)
				if err = er; er == nil {
					enc, _ = p.MarshalBinary()
					tok = tConsistent(p)
				}
			case 5:
				e["suite"], e["n"], e["kind"], e["xof"] = "ristretto255_XOF:SHAKE128_R255MAP_RO_", 64, "r255", "shake128"
				t.xof(xofs["shake128"], dst, msg, 64)
				p, er := h2c.Ristretto255_XOF_R255MAP_RO(xofs["shake128"], dst, msg)
				if err = er; er == nil {
					enc, _ = p.MarshalBinary()
					tok = tConsistent(p)
				}
			}
		}) {
			continue
		}
		e["ok"], e["sha"], e["tok"] = err == nil, t.ents, tok
		if err == nil {
			e["out"] = vt.B(enc)
		}
		c.w.Emit(e)
		if !bytes.Equal(before, frame) {
			c.w.Emit(vt.Ev{"op": "argscorrupt", "cfg": c.cfg, "during": "suite", "i": i % 8, "sha": []vt.Ev{}})
		}
	}
}

// tConsistent checks, through the public API only, that a returned point is a consistent extended point: addition reads
// the T coordinate, encoding and Equal do not, so (P + B) - B must give P back and P + identity must equal P.
func tConsistent(p interface{}) bool {
	switch q := p.(type) {
	case *curve.EdwardsPoint:
		var d, e, id, f curve.EdwardsPoint
		d.Add(q, curve.ED25519_BASEPOINT_POINT)
		e.Sub(&d, curve.ED25519_BASEPOINT_POINT)
		id.Identity()
		f.Add(&id, q)
		return e.Equal(q) == 1 && f.Equal(q) == 1
	case *curve.RistrettoPoint:
		var d, e curve.RistrettoPoint
		d.Add(q, curve.RISTRETTO_BASEPOINT_POINT)
		e.Sub(&d, curve.RISTRETTO_BASEPOINT_POINT)
		return e.Equal(q) == 1
	}
	return true
}
