// Command rec drives the real library and records ndjson traces for the TLA+
// trace specifications. One sub-recorder per property.
package main

import (
	"flag"
	"fmt"
	"os"
	"runtime/debug"
	"strings"
	"time"

	"verifharness/vt"
)

type ctx struct {
	w     *vt.Writer
	r     *vt.Rng
	tier  string
	n     int // requested event budget (0 = default for tier)
	cfg   string
	extra string
}

func (c *ctx) budget(quick, thorough int) int {
	if c.n > 0 {
		return c.n
	}
	if c.tier == "thorough" {
		return thorough
	}
	return quick
}

var recorders = map[string]func(*ctx){}

// try runs a library call on a well-formed request under recover: a panic inside the library is an observation
// about the code (logged as an event that every trace specification rejects), not a reason for the recorder to die.
func (c *ctx) try(op string, info vt.Ev, f func()) (ok bool) {
	defer func() {
		if p := recover(); p != nil {
			e := vt.Ev{"op": "libpanic", "cfg": c.cfg, "during": op, "msg": fmt.Sprint(p)}
			for k, v := range info {
				e[k] = v
			}
			c.w.Emit(e)
			ok = false
		}
	}()
	f()
	return true
}

// panicOrigin finds the innermost frame of a recovered panic outside the Go runtime and says whether it is library code.
func panicOrigin(stack []byte) (string, bool) {
	lines := strings.Split(string(stack), "\n")
	seenPanic := false
	for i := 0; i+1 < len(lines); i++ {
		fn := lines[i]
		if strings.HasPrefix(fn, "panic(") {
			seenPanic = true
			continue
		}
		if !seenPanic || strings.HasPrefix(fn, "\t") || strings.HasPrefix(fn, "runtime.") || strings.HasPrefix(fn, "runtime/") {
			continue
		}
		where := fn + " " + strings.TrimSpace(lines[i+1])
		return where, strings.Contains(fn, "github.com/oasisprotocol/curve25519-voi/")
	}
	return "", false
}

// abandon ends the recording after a library call failed to return: the event is written, the files are closed and
// the process exits (the stuck goroutines cannot be stopped any other way). The specification rejects the event.
func (c *ctx) abandon(e vt.Ev) {
	e["cfg"] = c.cfg
	c.w.Emit(e)
	c.w.Close()
	fmt.Printf("recorded %d events (abandoned: a library call did not return)\n", c.w.N)
	os.Exit(0)
}

func main() {
	prop := flag.String("prop", "", "property id")
	seed := flag.Int64("seed", 1, "seed")
	tier := flag.String("tier", "quick", "quick|thorough")
	out := flag.String("out", ".", "output directory")
	shards := flag.Int("shards", 16, "number of shard files")
	n := flag.Int("n", 0, "event budget override")
	cfg := flag.String("cfg", "default", "configuration label written into events")
	extra := flag.String("extra", "", "recorder specific argument")
	flag.Parse()
	f, ok := recorders[*prop]
	if !ok {
		fmt.Fprintln(os.Stderr, "unknown recorder", *prop)
		os.Exit(2)
	}
	w := vt.NewWriter(*out, *prop, *shards)
	c := &ctx{w: w, r: vt.NewRng(*seed), tier: *tier, n: *n, cfg: *cfg, extra: *extra}
	// cold-start recorders make the process's FIRST library calls themselves (concurrently): no battery in front of them
	cold := strings.HasSuffix(*prop, "cold")
	var before string
	var berr error
	if !cold {
		before, berr = battery()
	}
	// a recording takes seconds; one that has not ended after a quarter of an hour (thorough: an hour) contains a
	// library call that does not return. That is an observation about the code: it is logged as an event every trace
	// specification rejects, and the process ends.
	limit := 900 * time.Second
	if *tier == "thorough" {
		limit = 3600 * time.Second
	}
	done := make(chan struct{})
	go func() {
		defer func() {
			if p := recover(); p != nil {
				// a panic raised INSIDE the library (innermost frame outside the runtime is the module's) on the recorder's
				// well-formed calls is an observation about the code; a panic in the recorder itself stays fatal
				if where, lib := panicOrigin(debug.Stack()); lib {
					c.w.Emit(vt.Ev{"op": "libpanic", "cfg": c.cfg, "during": "recorder", "msg": fmt.Sprint(p), "where": where})
					close(done)
					return
				}
				panic(p)
			}
		}()
		f(c)
		close(done)
	}()
	select {
	case <-done:
	case <-time.After(limit):
		c.abandon(vt.Ev{"op": "hang", "msg": "the recording did not end within the limit: a library call does not return"})
	}
	// whatever the recording did, it must not have left anything behind in the library's package-level state
	after, aerr := battery()
	if cold {
		before = after
	}
	if before != after || berr != nil || aerr != nil {
		c.w.Emit(vt.Ev{"op": "globalstate", "cfg": c.cfg, "before": before, "after": after, "errbefore": fmt.Sprint(berr), "errafter": fmt.Sprint(aerr),
			"msg": "fixed calls on fixed inputs / exported values differ before and after the recording: the library's package-level state was modified"})
	}
	w.Close()
	fmt.Printf("recorded %d events\n", w.N)
}
