module verifharness

go 1.21

require (
	github.com/oasisprotocol/curve25519-voi v0.0.0
	golang.org/x/crypto v0.0.0-20220321153916-2c7772ba3064
)

require golang.org/x/sys v0.0.0-20220325203850-36772127a21f // indirect

replace github.com/oasisprotocol/curve25519-voi => /repo
