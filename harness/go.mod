module verifharness

go 1.21

require github.com/oasisprotocol/curve25519-voi v0.0.0

replace github.com/oasisprotocol/curve25519-voi => /repo
