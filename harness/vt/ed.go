package vt

import (
	"crypto/sha512"
	"math/big"

	"github.com/oasisprotocol/curve25519-voi/curve"
	"github.com/oasisprotocol/curve25519-voi/curve/scalar"
)

// Construction helpers for Ed25519-style requests of KNOWN class: points [a]B + [i]T8 with known
// a and i, their canonical and non-canonical encodings, dom2 framing, the challenge.

// T8 is the generator of E[8] used for torsion indices: EIGHT_TORSION[1] (EIGHT_TORSION[i] = [i]T8,
// checked by C20).
func Torsion(i int) *curve.EdwardsPoint { return curve.EIGHT_TORSION[i%8] }

func ScalarFromBig(v *big.Int) *scalar.Scalar {
	s, err := scalar.NewFromBytesModOrder(LE(new(big.Int).Mod(v, L), 32))
	if err != nil {
		panic(err)
	}
	return s
}

// Point returns [a]B + [i]T8.
func Point(a *big.Int, i int) *curve.EdwardsPoint {
	var p curve.EdwardsPoint
	p.MulBasepoint(curve.ED25519_BASEPOINT_TABLE, ScalarFromBig(a))
	p.Add(&p, Torsion(i))
	return &p
}

func Enc(p *curve.EdwardsPoint) []byte {
	b, _ := p.MarshalBinary()
	return b
}

// NonCanonical returns the non-canonical encodings of the same point, if any exist: y + p when
// y < 19 (both sign bits where x = 0), and the sign bit set when x = 0.
func NonCanonical(enc []byte) [][]byte {
	var out [][]byte
	y := FromLE(enc)
	sign := y.Bit(255)
	y.SetBit(y, 255, 0)
	xZero := y.Cmp(big.NewInt(1)) == 0 || y.Cmp(new(big.Int).Sub(P, big.NewInt(1))) == 0
	if xZero && sign == 0 {
		b := append([]byte(nil), enc...)
		b[31] |= 0x80
		out = append(out, b)
	}
	if y.Cmp(big.NewInt(19)) < 0 {
		yp := new(big.Int).Add(y, P)
		b := LE(yp, 32)
		b[31] |= byte(sign << 7)
		out = append(out, b)
		if xZero {
			c := append([]byte(nil), b...)
			c[31] ^= 0x80
			out = append(out, c)
		}
	}
	return out
}

// Undecodable returns a 32-byte string that is not the encoding of a curve point (found by search
// through the library's own decoder: used only to construct inputs, the class layer's claim
// "does not decode" is re-decided at real scale by the trace specification on a sample).
func Undecodable(r *Rng) []byte {
	for {
		b := r.Bytes(32)
		var c curve.CompressedEdwardsY
		_, _ = c.SetBytes(b)
		var p curve.EdwardsPoint
		if _, err := p.SetCompressedY(&c); err != nil {
			return b
		}
	}
}

const dom2Prefix = "SigEd25519 no Ed25519 collisions"

// Dom2 is RFC 8032's dom2(F, C); nil for pure Ed25519.
func Dom2(f string, ctx []byte) []byte {
	switch f {
	case "pure":
		return nil
	case "ctx":
		return append(append([]byte(dom2Prefix), 0, byte(len(ctx))), ctx...)
	case "ph":
		return append(append([]byte(dom2Prefix), 1, byte(len(ctx))), ctx...)
	}
	panic("bad f")
}

// Challenge returns the SHA-512 input, digest and k = digest mod L.
func Challenge(f string, ctx, rb, ab, msg []byte) (hin, h []byte, k *big.Int) {
	hin = append(hin, Dom2(f, ctx)...)
	hin = append(hin, rb...)
	hin = append(hin, ab...)
	hin = append(hin, msg...)
	d := sha512.Sum512(hin)
	k = new(big.Int).Mod(FromLE(d[:]), L)
	return hin, d[:], k
}
