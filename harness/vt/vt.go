// Package vt holds what every recorder shares: the ndjson trace writer, the
// seeded generator and the boundary-value families for 256-bit integers.
package vt

import (
	"bufio"
	"encoding/json"
	"fmt"
	"io"
	"math/big"
	"math/rand"
	"os"
	"path/filepath"
)

// Ev is one trace event. Byte strings are logged as lists of small integers
// because TLC integers are 32 bit and its Json module maps arrays to sequences.
type Ev map[string]interface{}

// B converts a byte string for logging.
func B(b []byte) []int {
	out := make([]int, len(b))
	for i, v := range b {
		out[i] = int(v)
	}
	return out
}

// I8 converts signed digits.
func I8(b []int8) []int {
	out := make([]int, len(b))
	for i, v := range b {
		out[i] = int(v)
	}
	return out
}

// Writer spreads events round-robin over n shard files.
type Writer struct {
	fs   []*os.File
	ws   []*bufio.Writer
	next int
	N    int
	Seq  int
}

func NewWriter(dir, prefix string, shards int) *Writer {
	w := &Writer{}
	for i := 0; i < shards; i++ {
		f, err := os.Create(filepath.Join(dir, fmt.Sprintf("%s-%02d.ndjson", prefix, i)))
		if err != nil {
			panic(err)
		}
		w.fs = append(w.fs, f)
		w.ws = append(w.ws, bufio.NewWriterSize(f, 1<<16))
	}
	return w
}

// Emit writes the event to the next shard.
func (w *Writer) Emit(e Ev) { w.EmitTo(w.next, e); w.next = (w.next + 1) % len(w.ws) }

// EmitTo writes to a given shard (for stateful traces that must stay together).
func (w *Writer) EmitTo(shard int, e Ev) {
	w.Seq++
	e["seq"] = w.Seq
	b, err := json.Marshal(e)
	if err != nil {
		panic(err)
	}
	s := shard % len(w.ws)
	w.ws[s].Write(b)
	w.ws[s].WriteByte('\n')
	w.N++
}

func (w *Writer) Close() {
	for i := range w.ws {
		w.ws[i].Flush()
		w.fs[i].Close()
	}
}

// Rng is the seeded source for everything random in a recorder.
type Rng struct{ *rand.Rand }

func NewRng(seed int64) *Rng { return &Rng{rand.New(rand.NewSource(seed))} }

func (r *Rng) Bytes(n int) []byte {
	b := make([]byte, n)
	r.Read(b)
	return b
}

func (r *Rng) Pick(xs [][]byte) []byte { return xs[r.Intn(len(xs))] }

var (
	L, _ = new(big.Int).SetString("7237005577332262213973186563042994240857116359379907606001950938285454250989", 10)
	P    = new(big.Int).Sub(new(big.Int).Lsh(big.NewInt(1), 255), big.NewInt(19))
)

// LE returns n little-endian bytes of v (v mod 256^n).
func LE(v *big.Int, n int) []byte {
	m := new(big.Int).Lsh(big.NewInt(1), uint(8*n))
	x := new(big.Int).Mod(v, m)
	be := x.Bytes()
	out := make([]byte, n)
	for i := range be {
		out[len(be)-1-i] = be[i]
	}
	return out
}

func FromLE(b []byte) *big.Int {
	be := make([]byte, len(b))
	for i := range b {
		be[len(b)-1-i] = b[i]
	}
	return new(big.Int).SetBytes(be)
}

func rep(b byte, n int) []byte {
	out := make([]byte, n)
	for i := range out {
		out[i] = b
	}
	return out
}

// Boundary256 is the boundary family of 256-bit strings used for scalars:
// kL+e, 2^k, 2^k-1, 2^252 neighbourhood, digit patterns that maximise recoding
// carries, all-ones limbs of both limb widths, word-seam patterns.
func Boundary256() [][]byte {
	var out [][]byte
	add := func(v *big.Int) {
		if v.Sign() >= 0 && v.BitLen() <= 256 {
			out = append(out, LE(v, 32))
		}
	}
	for k := int64(0); k <= 16; k++ {
		for e := int64(-2); e <= 2; e++ {
			add(new(big.Int).Add(new(big.Int).Mul(L, big.NewInt(k)), big.NewInt(e)))
		}
	}
	for k := uint(0); k <= 256; k++ {
		p := new(big.Int).Lsh(big.NewInt(1), k)
		add(p)
		add(new(big.Int).Sub(p, big.NewInt(1)))
		if k%29 == 0 || k%52 == 0 || k%64 == 0 || k >= 250 {
			add(new(big.Int).Add(p, big.NewInt(1)))
			add(new(big.Int).Sub(p, big.NewInt(2)))
		}
	}
	for _, b := range []byte{0x77, 0x88, 0x78, 0x87, 0xff, 0x80, 0x7f, 0x08, 0xf7, 0x0f, 0xf0, 0xaa, 0x55, 0x01, 0x10, 0x11, 0x99, 0xee} {
		out = append(out, rep(b, 32))
		x := rep(b, 32)
		x[31] &= 0x7f
		out = append(out, x)
		y := rep(b, 32)
		y[31] &= 0x0f
		out = append(out, y)
		z := rep(b, 32)
		z[31] = 0x10
		out = append(out, z)
	}
	// all-ones in single limbs of width 52 and 29, and across 64-bit seams
	for _, w := range []uint{52, 29, 64} {
		for i := uint(0); i*w < 256; i++ {
			m := new(big.Int).Sub(new(big.Int).Lsh(big.NewInt(1), w), big.NewInt(1))
			add(new(big.Int).Lsh(m, i*w))
			add(new(big.Int).Sub(new(big.Int).Lsh(big.NewInt(1), 255), new(big.Int).Lsh(m, i*w)))
		}
	}
	for _, s := range []uint{58, 60, 62, 63, 122, 126, 127, 186, 190, 191} {
		add(new(big.Int).Lsh(big.NewInt(0xffff), s))
		add(new(big.Int).Lsh(big.NewInt(0x8001), s))
	}
	// L with bits 252..255 toggled, L-neighbourhood with high bits
	for e := int64(-2); e <= 2; e++ {
		for hb := 0; hb < 16; hb++ {
			v := new(big.Int).Add(L, big.NewInt(e))
			b := LE(v, 32)
			b[31] = (b[31] & 0x0f) | byte(hb<<4)
			out = append(out, b)
		}
	}
	out = append(out, WordClasses()...)
	// products that stress the Montgomery reduction
	lm1 := new(big.Int).Sub(L, big.NewInt(1))
	add(lm1)
	add(new(big.Int).Rsh(L, 1))
	add(new(big.Int).Add(new(big.Int).Rsh(L, 1), big.NewInt(1)))
	add(new(big.Int).Sqrt(L))
	add(new(big.Int).Add(new(big.Int).Sqrt(L), big.NewInt(1)))
	return out
}

// WordClasses returns the 5^4 strings in which every 64-bit word is, independently, 0 / below / equal to / above / maximal
// relative to the corresponding word of L: the classes of any limb-wise comparison against the group order.
func WordClasses() [][]byte {
	var out [][]byte
	lb := LE(L, 32)
	var lw [4]uint64
	for i := 0; i < 4; i++ {
		for j := 7; j >= 0; j-- {
			lw[i] = lw[i]<<8 | uint64(lb[8*i+j])
		}
	}
	for c := 0; c < 625; c++ {
		b := make([]byte, 32)
		cc := c
		for i := 0; i < 4; i++ {
			var w uint64
			switch cc % 5 {
			case 0:
				w = 0
			case 1:
				w = lw[i] - 1
			case 2:
				w = lw[i]
			case 3:
				w = lw[i] + 1
			case 4:
				w = ^uint64(0)
				if i == 3 {
					w = lw[3] | (lw[3] - 1) // keep the top nibble: 0x1fff...
				}
			}
			cc /= 5
			for j := 0; j < 8; j++ {
				b[8*i+j] = byte(w >> (8 * uint(j)))
			}
		}
		out = append(out, b)
	}
	return out
}

// Mix returns a value from the boundary family or a random/structured one.
func (r *Rng) Scalar256(bd [][]byte) []byte {
	switch r.Intn(10) {
	case 0, 1, 2, 3:
		return append([]byte(nil), r.Pick(bd)...)
	case 4:
		// sparse
		b := make([]byte, 32)
		for i := 0; i < 1+r.Intn(4); i++ {
			b[r.Intn(32)] |= 1 << uint(r.Intn(8))
		}
		return b
	case 5:
		// dense
		b := rep(0xff, 32)
		for i := 0; i < 1+r.Intn(4); i++ {
			b[r.Intn(32)] &^= 1 << uint(r.Intn(8))
		}
		return b
	case 6:
		// kL + small for random k up to 31
		v := new(big.Int).Mul(L, big.NewInt(int64(r.Intn(16))))
		v.Add(v, big.NewInt(int64(r.Intn(7)-3)))
		if v.Sign() < 0 {
			v.SetInt64(0)
		}
		return LE(v, 32)
	default:
		return r.Bytes(32)
	}
}

// MontLadder is the x-only Montgomery ladder of RFC 7748 on plain integers: the u-coordinate of [k](u, .) on
// curve25519 or its twist (no clamping; 0 for the point at infinity). Used only to CONSTRUCT inputs.
func MontLadder(k, u *big.Int) *big.Int {
	mod := func(x *big.Int) *big.Int { return x.Mod(x, P) }
	a24 := big.NewInt(121665)
	x1 := new(big.Int).Mod(u, P)
	x2, z2, x3, z3 := big.NewInt(1), big.NewInt(0), new(big.Int).Set(x1), big.NewInt(1)
	for t := k.BitLen() - 1; t >= 0; t-- {
		if k.Bit(t) == 1 {
			x2, x3, z2, z3 = x3, x2, z3, z2
		}
		A := mod(new(big.Int).Add(x2, z2))
		AA := mod(new(big.Int).Mul(A, A))
		B := mod(new(big.Int).Sub(x2, z2))
		BB := mod(new(big.Int).Mul(B, B))
		E := mod(new(big.Int).Sub(AA, BB))
		C := mod(new(big.Int).Add(x3, z3))
		D := mod(new(big.Int).Sub(x3, z3))
		DA := mod(new(big.Int).Mul(D, A))
		CB := mod(new(big.Int).Mul(C, B))
		t1 := mod(new(big.Int).Add(DA, CB))
		x3 = mod(new(big.Int).Mul(t1, t1))
		t2 := mod(new(big.Int).Sub(DA, CB))
		z3 = mod(new(big.Int).Mul(x1, mod(new(big.Int).Mul(t2, t2))))
		x2 = mod(new(big.Int).Mul(AA, BB))
		z2 = mod(new(big.Int).Mul(E, mod(new(big.Int).Add(AA, mod(new(big.Int).Mul(a24, E))))))
		if k.Bit(t) == 1 {
			x2, x3, z2, z3 = x3, x2, z3, z2
		}
	}
	if z2.Sign() == 0 {
		return big.NewInt(0)
	}
	return mod(new(big.Int).Mul(x2, new(big.Int).ModInverse(z2, P)))
}

// TwistL is the prime order of the large subgroup of the quadratic twist of curve25519 (twist order 4*TwistL).
var TwistL = func() *big.Int {
	// 2(p+1) - 8L = 4 L'
	t := new(big.Int).Lsh(new(big.Int).Add(P, big.NewInt(1)), 1)
	t.Sub(t, new(big.Int).Lsh(L, 3))
	return t.Rsh(t, 2)
}()

// PreimageForOutput finds, for a clamped scalar k (as an integer) and a wanted output u-coordinate, an input
// u-coordinate with [k]in = out; ok is false when out does not lie in a prime-order subgroup (curve or twist).
func PreimageForOutput(k, out *big.Int) (*big.Int, bool) {
	for _, q := range []*big.Int{L, TwistL} {
		if MontLadder(q, out).Sign() == 0 {
			kinv := new(big.Int).ModInverse(new(big.Int).Mod(k, q), q)
			if kinv == nil {
				return nil, false
			}
			in := MontLadder(kinv, out)
			return in, MontLadder(k, in).Cmp(new(big.Int).Mod(out, P)) == 0
		}
	}
	return nil, false
}

// chunkReader delivers data in pieces of at most chunk bytes: a legal io.Reader (pipes, sockets and
// iotest.OneByteReader behave like this); callers that need n bytes must use io.ReadFull.
type chunkReader struct {
	data  []byte
	chunk int
}

func (c *chunkReader) Read(p []byte) (int, error) {
	if len(c.data) == 0 {
		return 0, io.EOF
	}
	n := len(p)
	if n > c.chunk {
		n = c.chunk
	}
	if n > len(c.data) {
		n = len(c.data)
	}
	copy(p, c.data[:n])
	c.data = c.data[n:]
	return n, nil
}

// FailingEntropy yields the first `after` bytes of data (in pieces) and then fails: an entropy source that breaks in the
// middle of a read. Callers must report the error, and whatever they absorbed must not leak into later calls.
func (r *Rng) FailingEntropy(data []byte, after int) io.Reader {
	if after > len(data) {
		after = len(data)
	}
	return &failReader{inner: r.Entropy(data[:after]), left: after}
}

type failReader struct {
	inner io.Reader
	left  int
}

func (f *failReader) Read(p []byte) (int, error) {
	if f.left <= 0 {
		return 0, io.ErrUnexpectedEOF
	}
	if len(p) > f.left {
		p = p[:f.left]
	}
	n, err := f.inner.Read(p)
	f.left -= n
	if err != nil || f.left <= 0 && n == 0 {
		return n, io.ErrUnexpectedEOF
	}
	return n, nil
}

// HighBitVariants returns b with each of the bits 253, 254, 255 set (and all three): values at or above 2^253 > L that a
// decoder masking or ignoring top bits would take for b
func HighBitVariants(b []byte) [][]byte {
	var out [][]byte
	for _, m := range []byte{0x20, 0x40, 0x80, 0xe0} {
		c := append([]byte(nil), b...)
		c[31] |= m
		out = append(out, c)
	}
	return out
}

// Entropy is an entropy source that yields exactly data, in pieces of a size drawn from {1, 7, 31, all}.
func (r *Rng) Entropy(data []byte) io.Reader {
	return &chunkReader{data: append([]byte(nil), data...), chunk: []int{1, 7, 31, len(data) + 1}[r.Intn(4)]}
}
