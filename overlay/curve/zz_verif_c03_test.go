package curve

import (
	"math/big"
	"math/rand"
	"os"
	"strconv"
	"testing"

	"github.com/oasisprotocol/curve25519-voi/curve/scalar"
)

// Recorder for C03 (and the group half of C16): group operations and every scalar-multiplication
// entry point, on mixed-order points in random projective scalings and 255-bit (unreduced) scalars.

var vL, _ = new(big.Int).SetString("7237005577332262213973186563042994240857116359379907606001950938285454250989", 10)

func vle(v *big.Int) []byte {
	m := new(big.Int).Lsh(big.NewInt(1), 256)
	x := new(big.Int).Mod(v, m)
	be := x.Bytes()
	out := make([]byte, 32)
	for i := range be {
		out[len(be)-1-i] = be[i]
	}
	return out
}

// boundary scalars: 0, 1, 8, L-1, L, L+1, kL+e, 2^252.., 2^255-1, digit patterns that maximise recoding carries
func verifBoundaryScalars() [][]byte {
	var out [][]byte
	add := func(v *big.Int) {
		if v.Sign() >= 0 && v.BitLen() <= 255 {
			out = append(out, vle(v))
		}
	}
	for _, k := range []int64{0, 1, 2, 3, 7, 8, 15, 16} {
		for _, e := range []int64{-1, 0, 1} {
			add(new(big.Int).Add(new(big.Int).Mul(vL, big.NewInt(k)), big.NewInt(e)))
		}
	}
	for _, k := range []uint{1, 3, 4, 8, 63, 64, 127, 128, 129, 252, 253, 254, 255} {
		p := new(big.Int).Lsh(big.NewInt(1), k)
		add(p)
		add(new(big.Int).Sub(p, big.NewInt(1)))
		add(new(big.Int).Sub(p, big.NewInt(19)))
	}
	top := new(big.Int).Lsh(big.NewInt(1), 255)
	add(new(big.Int).Sub(top, new(big.Int).Lsh(big.NewInt(1), 200)))
	for _, b := range []byte{0x77, 0x88, 0x78, 0x87, 0xff, 0x80, 0x7f, 0xf7, 0x08, 0xaa, 0x55} {
		x := make([]byte, 32)
		for i := range x {
			x[i] = b
		}
		x[31] &= 0x7f
		out = append(out, x)
		y := append([]byte(nil), x...)
		y[31] = 0x0f & b
		out = append(out, y)
	}
	return out
}

// vexpand builds an expanded point, in one of three ways: fresh; fresh, with the value returned by its accessor
// scribbled over (what an accessor returns is the caller's to modify); or as a value copy of a long-lived
// expanded point that is afterwards re-set to another point (a copy must keep the point it was copied with)
var vexpandScratch ExpandedEdwardsPoint

func vexpand(g *vpool, p *EdwardsPoint) *ExpandedEdwardsPoint {
	switch g.r.Intn(3) {
	case 0:
		ep := NewExpandedEdwardsPoint(p)
		q := ep.Point()
		q.Neg(q)
		q.Add(q, ED25519_BASEPOINT_POINT)
		return ep
	case 1:
		vexpandScratch.SetEdwardsPoint(p)
		cp := vexpandScratch
		vexpandScratch.SetEdwardsPoint(g.point())
		return &cp
	}
	return NewExpandedEdwardsPoint(p)
}

// vsame reports whether the caller's argument slices still hold exactly the objects they held before a call (a callee
// must not reorder, compact or overwrite the slices it is given)
func vsame(ss, ss0 []*scalar.Scalar, ps, ps0 []*EdwardsPoint) bool {
	if len(ss) != len(ss0) || len(ps) != len(ps0) {
		return false
	}
	for i := range ss {
		if ss[i] != ss0[i] {
			return false
		}
	}
	for i := range ps {
		if ps[i] != ps0[i] {
			return false
		}
	}
	return true
}

type vmul struct {
	g   *vpool
	bd  [][]byte
	w   *vwriter
	cfg string
}

func (m *vmul) sbytes() []byte {
	switch m.g.r.Intn(5) {
	case 0, 1:
		return append([]byte(nil), m.bd[m.g.r.Intn(len(m.bd))]...)
	case 2: // reduced random
		s, _ := scalar.NewFromBytesModOrderWide(m.g.bytes(64))
		var b [32]byte
		_ = s.ToBytes(b[:])
		return b[:]
	default: // any 255-bit value
		b := m.g.bytes(32)
		b[31] &= 0x7f
		return b
	}
}

func vscalar(b []byte) *scalar.Scalar {
	s, err := scalar.NewFromBits(b)
	if err != nil {
		panic(err)
	}
	return s
}

// emit one multiplication event: terms (scalar bytes, index into distinct points), result
func (m *vmul) emit(kind string, pts []*EdwardsPoint, terms [][2]interface{}, out *EdwardsPoint, extra vev) {
	e := vev{"op": "mul", "kind": kind, "cfg": m.cfg}
	var ps []vev
	for _, p := range pts {
		ps = append(ps, vpt(vev{}, p))
	}
	if ps == nil {
		ps = []vev{}
	}
	var ts []vev
	for _, t := range terms {
		ts = append(ts, vev{"s": vb(t[0].([]byte)), "p": t[1].(int)})
	}
	if ts == nil {
		ts = []vev{}
	}
	e["pts"], e["terms"] = ps, ts
	e["out"] = vpt(vev{}, out)
	enc, _ := out.MarshalBinary()
	e["enc"] = vb(enc)
	e["invs"] = vinv(&out.inner.Z)
	for k, v := range extra {
		e[k] = v
	}
	m.w.emit(e)
}

// n terms over at most 4 distinct points
func (m *vmul) terms(n int) ([]*EdwardsPoint, [][2]interface{}, []*scalar.Scalar, []*EdwardsPoint) {
	nd := 4
	if n < nd {
		nd = n
	}
	var pts []*EdwardsPoint
	for i := 0; i < nd; i++ {
		pts = append(pts, m.g.point())
	}
	var terms [][2]interface{}
	var ss []*scalar.Scalar
	var ps []*EdwardsPoint
	for i := 0; i < n; i++ {
		b := m.sbytes()
		j := i % nd
		if i >= nd {
			j = m.g.r.Intn(nd)
		}
		terms = append(terms, [2]interface{}{b, j})
		ss = append(ss, vscalar(b))
		ps = append(ps, pts[j])
	}
	return pts, terms, ss, ps
}

func TestVerifRecC03(t *testing.T) {
	dir := os.Getenv("VERIF_OUT")
	if dir == "" {
		t.Skip("VERIF_OUT not set")
	}
	seed, _ := strconv.ParseInt(os.Getenv("VERIF_SEED"), 10, 64)
	n, _ := strconv.Atoi(os.Getenv("VERIF_N"))
	big_, _ := strconv.Atoi(os.Getenv("VERIF_BIG"))
	shards, _ := strconv.Atoi(os.Getenv("VERIF_SHARDS"))
	if shards == 0 {
		shards = 16
	}
	cfg := os.Getenv("VERIF_CFG")
	w := newVWriter(dir, "C03-"+cfg, shards)
	defer w.close()
	g := &vpool{r: rand.New(rand.NewSource(seed))}
	m := &vmul{g: g, bd: verifBoundaryScalars(), w: w, cfg: cfg}
	B := ED25519_BASEPOINT_POINT

	grp := func(op string, ins []*EdwardsPoint, out *EdwardsPoint) {
		e := vev{"op": "grp", "kind": op, "cfg": cfg}
		var ps []vev
		for _, p := range ins {
			ps = append(ps, vpt(vev{}, p))
		}
		if ps == nil {
			ps = []vev{}
		}
		e["pts"] = ps
		e["out"] = vpt(vev{}, out)
		w.emit(e)
	}
	// ---- group law: every torsion point against every torsion point, plus mixed/scaled operands
	for i := 0; i < 8; i++ {
		for j := 0; j < 8; j++ {
			var a, b, o EdwardsPoint
			a.Set(EIGHT_TORSION[i])
			b.Set(EIGHT_TORSION[j])
			if (i+j)%2 == 1 {
				g.scale(&a)
			}
			o.Add(&a, &b)
			grp("add", []*EdwardsPoint{&a, &b}, &o)
			var o2 EdwardsPoint
			o2.Sub(&a, &b)
			grp("sub", []*EdwardsPoint{&a, &b}, &o2)
		}
	}
	ngrp := 200
	if n > 0 {
		ngrp = 4 * n
	}
	for i := 0; i < ngrp; i++ {
		a, b := g.point(), g.point()
		var o EdwardsPoint
		switch i % 7 {
		case 0:
			o.Add(a, b)
			grp("add", []*EdwardsPoint{a, b}, &o)
		case 1:
			o.Sub(a, b)
			grp("sub", []*EdwardsPoint{a, b}, &o)
		case 2:
			o.Neg(a)
			grp("neg", []*EdwardsPoint{a}, &o)
		case 3:
			o.Add(a, a)
			grp("add", []*EdwardsPoint{a, a}, &o)
		case 4:
			o.MulByCofactor(a)
			grp("cof", []*EdwardsPoint{a}, &o)
		case 5:
			k := g.r.Intn(6)
			var ps []*EdwardsPoint
			for j := 0; j < k; j++ {
				ps = append(ps, g.point())
			}
			o.Sum(ps)
			grp("sum", ps, &o)
		case 6: // P + (-P), P - P: the identity in a non-trivial representation
			var na EdwardsPoint
			na.Neg(a)
			g.scale(&na)
			o.Add(a, &na)
			grp("add", []*EdwardsPoint{a, &na}, &o)
		}
	}

	// ---- aliased receivers: the receiver is one of the operands (every other method of the package and of
	// curve/scalar tolerates this); the operands are logged from snapshots taken before the call
	snap := func(ps ...*EdwardsPoint) []*EdwardsPoint {
		var out []*EdwardsPoint
		for _, p := range ps {
			c := *p
			out = append(out, &c)
		}
		return out
	}
	nal := 21
	if n > 0 {
		nal = 2 * n
	}
	for i := 0; i < nal; i++ {
		a, b := g.point(), g.point()
		switch i % 7 {
		case 0:
			in := snap(a, b)
			a.Add(a, b)
			grp("add", in, a)
		case 1:
			in := snap(a, b)
			b.Add(a, b)
			grp("add", in, b)
		case 2:
			in := snap(a, b)
			if i%2 == 0 {
				a.Sub(a, b)
				grp("sub", in, a)
			} else {
				b.Sub(a, b)
				grp("sub", in, b)
			}
		case 3:
			in := snap(a)
			a.Neg(a)
			grp("neg", in, a)
		case 4:
			in := snap(a, a)
			a.Add(a, a)
			grp("add", in, a)
		case 5:
			in := snap(a)
			a.MulByCofactor(a)
			grp("cof", in, a)
		case 6: // the receiver is one of the summands (any position)
			k := 1 + g.r.Intn(4)
			ps := []*EdwardsPoint{a}
			for j := 1; j < k; j++ {
				ps = append(ps, g.point())
			}
			at := g.r.Intn(k)
			ps[0], ps[at] = ps[at], ps[0]
			in := snap(ps...)
			a.Sum(ps)
			grp("sum", in, a)
		}
	}
	// the receiver of Sum at EVERY position of a three-element list
	for at := 0; at < 3; at++ {
		a := g.point()
		ps := []*EdwardsPoint{g.point(), g.point(), g.point()}
		ps[at] = a
		in := snap(ps...)
		a.Sum(ps)
		grp("sum", in, a)
	}
	aliased := func(kind string) {
		switch kind {
		case "mul":
			p, b := g.point(), m.sbytes()
			in := snap(p)
			p.Mul(p, vscalar(b))
			m.emit(kind, in, [][2]interface{}{{b, 0}}, p, vev{"alias": true})
		case "dsm", "expdsm":
			A, a, b := g.point(), m.sbytes(), m.sbytes()
			in := snap(A, B)
			if kind == "dsm" {
				A.DoubleScalarMulBasepointVartime(vscalar(a), A, vscalar(b))
			} else {
				x := NewExpandedEdwardsPoint(A)
				x.Point().ExpandedDoubleScalarMulBasepointVartime(vscalar(a), x, vscalar(b))
				A.ExpandedDoubleScalarMulBasepointVartime(vscalar(a), x, vscalar(b))
			}
			m.emit(kind, in, [][2]interface{}{{a, 0}, {b, 1}}, A, vev{"alias": true})
		case "msm", "msmvt":
			k := []int{1, 2, 3, 5}[g.r.Intn(4)]
			pts, terms, ss, ps := m.terms(k)
			in := snap(pts...)
			o := ps[g.r.Intn(k)]
			if kind == "msm" {
				o.MultiscalarMul(ss, ps)
			} else {
				o.MultiscalarMulVartime(ss, ps)
			}
			m.emit(kind, in, terms, o, vev{"alias": true})
		case "expmsm":
			ks, kd := g.r.Intn(3), 1+g.r.Intn(3)
			pts, terms, ss, ps := m.terms(ks + kd)
			in := snap(pts...)
			var sp []*ExpandedEdwardsPoint
			for _, p := range ps[:ks] {
				sp = append(sp, NewExpandedEdwardsPoint(p))
			}
			o := ps[ks+g.r.Intn(kd)]
			o.ExpandedMultiscalarMulVartime(ss[:ks], sp, ss[ks:], ps[ks:])
			m.emit(kind, in, terms, o, vev{"alias": true, "nstatic": ks})
		}
	}
	akinds := []string{"mul", "dsm", "expdsm", "msm", "msmvt", "expmsm"}
	na := 6
	if n > 0 {
		na = n / 3
	}
	for i := 0; i < na; i++ {
		aliased(akinds[i%len(akinds)])
	}

	// ---- scalar multiplication: every entry point
	one := func(kind string) {
		var o EdwardsPoint
		switch kind {
		case "mul":
			p, b := g.point(), m.sbytes()
			o.Mul(p, vscalar(b))
			m.emit(kind, []*EdwardsPoint{p}, [][2]interface{}{{b, 0}}, &o, nil)
		case "mulbase":
			b := m.sbytes()
			o.MulBasepoint(ED25519_BASEPOINT_TABLE, vscalar(b))
			m.emit(kind, []*EdwardsPoint{B}, [][2]interface{}{{b, 0}}, &o, nil)
		case "mulbasegeneric":
			// the packed 32x8 table through the generic fixed-base routine, whatever the CPU
			b := m.sbytes()
			unpackEdwardsBasepointTable().Mul(&o, vscalar(b))
			m.emit(kind, []*EdwardsPoint{B}, [][2]interface{}{{b, 0}}, &o, nil)
		case "newtable":
			// a table built at run time for an arbitrary point
			p, b := g.point(), m.sbytes()
			tbl := NewEdwardsBasepointTable(p)
			o.MulBasepoint(tbl, vscalar(b))
			m.emit(kind, []*EdwardsPoint{p}, [][2]interface{}{{b, 0}}, &o, nil)
		case "dsm", "expdsm":
			A, a, b := g.point(), m.sbytes(), m.sbytes()
			if kind == "dsm" {
				o.DoubleScalarMulBasepointVartime(vscalar(a), A, vscalar(b))
			} else {
				o.ExpandedDoubleScalarMulBasepointVartime(vscalar(a), vexpand(g, A), vscalar(b))
			}
			m.emit(kind, []*EdwardsPoint{A, B}, [][2]interface{}{{a, 0}, {b, 1}}, &o, nil)
		case "msm", "msmvt":
			k := []int{0, 1, 2, 3, 5, 8}[g.r.Intn(6)]
			pts, terms, ss, ps := m.terms(k)
			ss0, ps0 := append([]*scalar.Scalar(nil), ss...), append([]*EdwardsPoint(nil), ps...)
			if kind == "msm" {
				o.MultiscalarMul(ss, ps)
			} else {
				o.MultiscalarMulVartime(ss, ps)
			}
			m.emit(kind, pts, terms, &o, vev{"argsok": vsame(ss, ss0, ps, ps0)})
		case "expseq":
			// one long-lived expanded point through a SEQUENCE of calls: triple multiplications (half of their scalars
			// yield a negative d_0) in between must leave the precomputed tables as they were
			A := g.point()
			xp := NewExpandedEdwardsPoint(A)
			for step := 0; step < 3; step++ {
				ra, _ := scalar.NewFromBytesModOrderWide(g.bytes(64))
				rb, _ := scalar.NewFromBytesModOrderWide(g.bytes(64))
				var tmp EdwardsPoint
				tmp.ExpandedTripleScalarMulBasepointVartime(ra, xp, rb, g.point())
				a, b := m.sbytes(), m.sbytes()
				var o1 EdwardsPoint
				o1.ExpandedDoubleScalarMulBasepointVartime(vscalar(a), xp, vscalar(b))
				m.emit("expdsm", []*EdwardsPoint{A, B}, [][2]interface{}{{a, 0}, {b, 1}}, &o1, vev{"seqstep": step})
				var o2 EdwardsPoint
				o2.ExpandedMultiscalarMulVartime([]*scalar.Scalar{vscalar(a)}, []*ExpandedEdwardsPoint{xp}, []*scalar.Scalar{vscalar(b)}, []*EdwardsPoint{B})
				m.emit("expmsm", []*EdwardsPoint{A, B}, [][2]interface{}{{a, 0}, {b, 1}}, &o2, vev{"nstatic": 1, "seqstep": step})
			}
			return
		case "expmsm":
			ks, kd := g.r.Intn(4), g.r.Intn(4)
			pts, terms, ss, ps := m.terms(ks + kd)
			var sp []*ExpandedEdwardsPoint
			for _, p := range ps[:ks] {
				sp = append(sp, vexpand(g, p))
			}
			o.ExpandedMultiscalarMulVartime(ss[:ks], sp, ss[ks:], ps[ks:])
			m.emit(kind, pts, terms, &o, vev{"nstatic": ks})
		}
	}
	kinds := []string{"mul", "mulbase", "mulbasegeneric", "newtable", "dsm", "expdsm", "msm", "msmvt", "expmsm", "expseq"}
	if n == 0 {
		n = 36
	}
	for i := 0; i < n; i++ {
		one(kinds[i%len(kinds)])
	}
	// top-of-range scalars through the NAF based routines (digit at position 255)
	for _, hb := range [][]byte{m.bd[len(m.bd)-1], vle(new(big.Int).Sub(new(big.Int).Lsh(big.NewInt(1), 255), big.NewInt(1)))} {
		A := g.point()
		var o EdwardsPoint
		lo := m.sbytes()
		o.DoubleScalarMulBasepointVartime(vscalar(hb), A, vscalar(lo))
		m.emit("dsm", []*EdwardsPoint{A, B}, [][2]interface{}{{hb, 0}, {lo, 1}}, &o, nil)
		o.DoubleScalarMulBasepointVartime(vscalar(lo), A, vscalar(hb))
		m.emit("dsm", []*EdwardsPoint{A, B}, [][2]interface{}{{lo, 0}, {hb, 1}}, &o, nil)
	}
	// ---- agreement sweep over the top of the scalar range: for every top byte 0x77..0x7f (the recentred top digit of every
	// recoding is at its maximum there) with three fills, EVERY single-scalar entry point must return the same encoding,
	// and that encoding is [s]P computed once by the specification (event "agree")
	if os.Getenv("VERIF_NOAGREE") == "" {
		fills := []byte{0x00, 0xff, 0x88}
		for tb := 0x77; tb <= 0x7f; tb++ {
			for fi, fill := range fills {
				sb := make([]byte, 32)
				for i := range sb {
					sb[i] = fill
				}
				sb[31] = byte(tb)
				P := B
				if (tb+fi)%2 == 1 {
					P = g.point()
				}
				sc := vscalar(sb)
				zero := scalar.NewFromUint64(0)
				var outs [][]int
				var names []string
				add := func(name string, f func(o *EdwardsPoint)) {
					var o EdwardsPoint
					f(&o)
					enc, _ := o.MarshalBinary()
					outs = append(outs, vb(enc))
					names = append(names, name)
				}
				add("Mul", func(o *EdwardsPoint) { o.Mul(P, sc) })
				add("MulBasepoint(NewTable(P))", func(o *EdwardsPoint) { o.MulBasepoint(NewEdwardsBasepointTable(P), sc) })
				add("MultiscalarMul", func(o *EdwardsPoint) { o.MultiscalarMul([]*scalar.Scalar{sc}, []*EdwardsPoint{P}) })
				add("MultiscalarMulVartime", func(o *EdwardsPoint) { o.MultiscalarMulVartime([]*scalar.Scalar{sc}, []*EdwardsPoint{P}) })
				add("DoubleScalarMulBasepointVartime", func(o *EdwardsPoint) { o.DoubleScalarMulBasepointVartime(sc, P, zero) })
				ep := NewExpandedEdwardsPoint(P)
				add("ExpandedDoubleScalarMulBasepointVartime", func(o *EdwardsPoint) { o.ExpandedDoubleScalarMulBasepointVartime(sc, ep, zero) })
				add("ExpandedMultiscalarMulVartime", func(o *EdwardsPoint) {
					o.ExpandedMultiscalarMulVartime([]*scalar.Scalar{sc}, []*ExpandedEdwardsPoint{ep}, nil, nil)
				})
				if P == B {
					add("MulBasepoint(ED25519_BASEPOINT_TABLE)", func(o *EdwardsPoint) { o.MulBasepoint(ED25519_BASEPOINT_TABLE, sc) })
					add("DoubleScalarMulBasepointVartime(0,B,s)", func(o *EdwardsPoint) { o.DoubleScalarMulBasepointVartime(zero, P, sc) })
				}
				w.emit(vev{"op": "agree", "kind": "topbyte", "cfg": cfg, "s": vb(sb), "pts": []vev{vpt(vev{}, P)}, "outs": outs, "names": names})
			}
		}
	}
	// ---- short lists with the base point (the constant itself and a copy) at every position, distinct short scalars: a fast
	// path keyed on a special point must keep scalars and points paired
	{
		Bc := *B
		Q := g.point()
		short := func() []byte {
			b := make([]byte, 32)
			copy(b, g.bytes(6))
			b[0] |= 1
			return b
		}
		for _, lst := range [][]*EdwardsPoint{{B, Q}, {Q, B}, {&Bc, Q}, {B, &Bc}, {B, Q, &Bc}, {Q, &Bc, B}} {
			var terms [][2]interface{}
			var ss []*scalar.Scalar
			idx := map[*EdwardsPoint]int{}
			var pts []*EdwardsPoint
			for _, pp := range lst {
				if _, ok := idx[pp]; !ok {
					idx[pp] = len(pts)
					pts = append(pts, pp)
				}
				sb := short()
				terms = append(terms, [2]interface{}{sb, idx[pp]})
				ss = append(ss, vscalar(sb))
			}
			var o EdwardsPoint
			o.MultiscalarMulVartime(ss, lst)
			m.emit("msmvt", pts, terms, &o, vev{"size": len(lst), "special": "basepoint"})
			o.MultiscalarMul(ss, lst)
			m.emit("msm", pts, terms, &o, vev{"size": len(lst), "special": "basepoint"})
		}
	}
	// ---- threshold sizes (Straus/Pippenger at 190, Pippenger windows at 500 and 800)
	sizes := []int{189, 190, 191, 500, 800}
	if big_ > 1 {
		sizes = []int{189, 190, 191, 499, 500, 501, 799, 800, 801}
	}
	if big_ == 0 {
		sizes = []int{190}
	}
	pick := sizes[int(seed)%len(sizes)]
	for _, sz := range sizes {
		if big_ == 1 && sz != pick && sz != 190 && sz != 191 {
			continue
		}
		pts, terms, ss, ps := m.terms(sz)
		// a few exactly-zero scalars in the middle of the list (never only at its end)
		for _, at := range []int{1, sz / 3, sz / 2} {
			if at < sz-1 {
				zero := make([]byte, 32)
				terms[at][0] = zero
				ss[at] = vscalar(zero)
			}
		}
		ss0, ps0 := append([]*scalar.Scalar(nil), ss...), append([]*EdwardsPoint(nil), ps...)
		var o EdwardsPoint
		o.MultiscalarMulVartime(ss, ps)
		m.emit("msmvt", pts, terms, &o, vev{"size": sz, "argsok": vsame(ss, ss0, ps, ps0)})
	}
	for _, sd := range [][2]int{{94, 95}, {95, 96}, {0, 191}, {191, 0}} {
		if big_ == 0 && sd[0] != 95 {
			continue
		}
		pts, terms, ss, ps := m.terms(sd[0] + sd[1])
		var sp []*ExpandedEdwardsPoint
		for _, p := range ps[:sd[0]] {
			sp = append(sp, vexpand(g, p))
		}
		var o EdwardsPoint
		o.ExpandedMultiscalarMulVartime(ss[:sd[0]], sp, ss[sd[0]:], ps[sd[0]:])
		m.emit("expmsm", pts, terms, &o, vev{"nstatic": sd[0], "size": sd[0] + sd[1]})
	}
}
