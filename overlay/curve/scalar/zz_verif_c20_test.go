package scalar

import (
	"bufio"
	"encoding/json"
	"os"
	"path/filepath"
	"testing"
)

// TestVerifRecC20 dumps the scalar-field constants limb by limb.
func TestVerifRecC20(t *testing.T) {
	dir := os.Getenv("VERIF_OUT")
	if dir == "" {
		t.Skip("VERIF_OUT not set")
	}
	cfg := os.Getenv("VERIF_CFG")
	f, err := os.Create(filepath.Join(dir, "C20-"+cfg+"-scalar-00.ndjson"))
	if err != nil {
		t.Fatal(err)
	}
	defer f.Close()
	bw := bufio.NewWriter(f)
	defer bw.Flush()
	seq := 0
	emit := func(e map[string]interface{}) {
		seq++
		e["seq"], e["cfg"] = seq, cfg
		b, _ := json.Marshal(e)
		bw.Write(b)
		bw.WriteByte('\n')
	}
	limbs := func(ls []uint64) [][]int {
		o := make([][]int, len(ls))
		for i, l := range ls {
			o[i] = make([]int, 8)
			for j := 0; j < 8; j++ {
				o[i][j] = int(byte(l >> (8 * uint(j))))
			}
		}
		return o
	}
	w := verifLimbWidth()
	for name, v := range map[string][]uint64{"L": verifU(&constL), "R": verifU(&constR), "RR": verifU(&constRR),
		"LFACTOR": {uint64(constLFACTOR)}, "ORDER_WORDS": order[:]} {
		ww := w
		if name == "ORDER_WORDS" {
			ww = 64
		}
		emit(map[string]interface{}{"op": "nat", "name": name, "w": ww, "lw": w, "limbs": limbs(v)})
	}
	var ob [32]byte
	_ = BASEPOINT_ORDER.ToBytes(ob[:])
	ib := make([]int, 32)
	for i, v := range ob {
		ib[i] = int(v)
	}
	emit(map[string]interface{}{"op": "str", "name": "BASEPOINT_ORDER", "val": ib})
}
