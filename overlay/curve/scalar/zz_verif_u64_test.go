//go:build !force32bit

package scalar

func verifLimbWidth() int               { return 52 }
func verifU(s *unpackedScalar) []uint64 { return append([]uint64(nil), s[:]...) }
