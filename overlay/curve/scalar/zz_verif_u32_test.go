//go:build force32bit

package scalar

func verifLimbWidth() int { return 29 }
func verifU(s *unpackedScalar) []uint64 {
	o := make([]uint64, len(s))
	for i, v := range s {
		o[i] = uint64(v)
	}
	return o
}
