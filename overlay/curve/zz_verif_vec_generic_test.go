//go:build !amd64 || purego || force32bit

package curve

func verifDumpVectorTables(w *vwriter, cfg string) {
	w.emit(vev{"op": "veclive", "cfg": cfg, "name": "supportsVectorizedEdwards", "live": false})
}

func verifVector() bool { return false }
