//go:build amd64 && !purego && !force32bit

package curve

import (
	"math/rand"
	"os"
	"strconv"
	"testing"

	"github.com/oasisprotocol/curve25519-voi/internal/field"
)

// Recorder for C04 on the fourth backend: the AVX2 vector lanes (fieldElement2625x4, four field
// elements of ten 26/25-bit limbs each, processed by edwards_vector_amd64.s). Lanes are filled from
// RAW LIMBS with bit excess up to 1.5 (what sums/differences of reduced vectors can reach).

func vlanes(v *fieldElement2625x4) [][][]int {
	// element e in {A,B,C,D}: limb 2i at lane evenLane[e], limb 2i+1 at lane oddLane[e]
	evenLane := []int{0, 1, 4, 5}
	oddLane := []int{2, 3, 6, 7}
	out := make([][][]int, 4)
	for e := 0; e < 4; e++ {
		for i := 0; i < 5; i++ {
			for _, l := range []int{evenLane[e], oddLane[e]} {
				x := uint64(v.inner[i][l])
				b := make([]int, 8)
				for j := 0; j < 8; j++ {
					b[j] = int(byte(x >> (8 * uint(j))))
				}
				out[e] = append(out[e], b)
			}
		}
	}
	return out
}

func TestVerifRecC04Vec(t *testing.T) {
	dir := os.Getenv("VERIF_OUT")
	if dir == "" {
		t.Skip("VERIF_OUT not set")
	}
	if !supportsVectorizedEdwards {
		t.Skip("AVX2 not available")
	}
	seed, _ := strconv.ParseInt(os.Getenv("VERIF_SEED"), 10, 64)
	n, _ := strconv.Atoi(os.Getenv("VERIF_N"))
	if n == 0 {
		n = 600
	}
	cfg := os.Getenv("VERIF_CFG")
	w := newVWriter(dir, "C04v-"+cfg, 16)
	defer w.close()
	r := rand.New(rand.NewSource(seed))
	maxE, maxO := uint32(189812531), uint32(94906265) // 2^26 * 2^1.5, 2^25 * 2^1.5
	gen := func(mode int) fieldElement2625x4 {
		var v fieldElement2625x4
		for i := 0; i < 5; i++ {
			for l := 0; l < 8; l++ {
				mx, nb := maxE, uint(26)
				if l == 2 || l == 3 || l == 6 || l == 7 {
					mx, nb = maxO, 25
				}
				var x uint32
				switch mode {
				case 0:
					x = mx
				case 1:
					x = 0
				case 2:
					x = 1<<nb - 1
				case 3:
					x = uint32(r.Int63n(int64(mx) + 1))
				case 4:
					if r.Intn(2) == 0 {
						x = mx
					}
				case 5:
					x = (1<<nb - 1) + uint32(r.Intn(1<<10))
				default:
					x = uint32(r.Int63n(int64(1) << nb))
				}
				v.inner[i][l] = x
			}
		}
		return v
	}
	ev := func(op string) vev { return vev{"op": op, "cfg": cfg, "bk": "u32"} }
	for i := 0; i < n; i++ {
		a, b := gen(i%7), gen((i/7)%7)
		switch i % 5 {
		case 0, 1:
			var o fieldElement2625x4
			o.Mul(&a, &b)
			e := ev("vmul")
			e["a"], e["b"], e["out"] = vlanes(&a), vlanes(&b), vlanes(&o)
			w.emit(e)
		case 2:
			o := a
			o.SquareAndNegateD()
			e := ev("vsqnd")
			e["a"], e["out"] = vlanes(&a), vlanes(&o)
			w.emit(e)
		case 3:
			o := a
			o.Reduce()
			e := ev("vreduce")
			e["a"], e["out"] = vlanes(&a), vlanes(&o)
			w.emit(e)
			o2 := o
			o2.Neg()
			e2 := ev("vneg")
			e2["a"], e2["out"] = vlanes(&o), vlanes(&o2)
			w.emit(e2)
		case 4:
			var o fieldElement2625x4
			ch := r.Intn(2)
			o.ConditionalSelect(&a, &b, ch)
			e := ev("vsel")
			e["a"], e["b"], e["choice"], e["out"] = vlanes(&a), vlanes(&b), ch, vlanes(&o)
			w.emit(e)
			// Split / new round trip on a reduced vector
			red := a
			red.Reduce()
			var f0, f1, f2, f3 field.Element
			red.Split(&f0, &f1, &f2, &f3)
			e2 := ev("vsplit")
			e2["a"], e2["fe"] = vlanes(&red), [][]int{vfe(&f0), vfe(&f1), vfe(&f2), vfe(&f3)}
			nv := newFieldElement2625x4(&f0, &f1, &f2, &f3)
			e2["out"] = vlanes(&nv)
			w.emit(e2)
			// Split of an UNREDUCED vector (limbs with bit excess, as after a lazy negation or a sum) and the way back
			var g0, g1, g2, g3 field.Element
			a.Split(&g0, &g1, &g2, &g3)
			e3 := ev("vsplit")
			e3["a"], e3["fe"] = vlanes(&a), [][]int{vfe(&g0), vfe(&g1), vfe(&g2), vfe(&g3)}
			nv2 := newFieldElement2625x4(&g0, &g1, &g2, &g3)
			e3["out"] = vlanes(&nv2)
			w.emit(e3)
		}
	}
}
