//go:build amd64 && !purego && !force32bit

package curve

// the tables generated at start-up for the vector backend, converted entry by entry to points
func verifDumpVectorTables(w *vwriter, cfg string) {
	live := vev{"op": "veclive", "cfg": cfg, "name": "supportsVectorizedEdwards", "live": supportsVectorizedEdwards}
	w.emit(live)
	if !supportsVectorizedEdwards {
		return
	}
	emit := func(tbl string, i, j int, cp *cachedPoint) {
		var p EdwardsPoint
		p.setCached(cp)
		e := vpt(vev{"op": "vpt", "cfg": cfg, "name": tbl, "i": i, "j": j}, &p)
		w.emit(e)
	}
	for j := 0; j < 64; j++ {
		emit("voddB", 0, j, &constVECTOR_ODD_MULTIPLES_OF_BASEPOINT[j])
		emit("voddB128", 0, j, &constVECTOR_ODD_MULTIPLES_OF_B_SHL_128[j])
	}
	vt := ED25519_BASEPOINT_TABLE.innerVector
	for i := 0; i < 32; i++ {
		for j := 0; j < 8; j++ {
			emit("vbase", i, j, &vt[i][j])
		}
	}
}

func verifVector() bool { return supportsVectorizedEdwards }
