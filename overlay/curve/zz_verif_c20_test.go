package curve

import (
	"os"
	"testing"

	"github.com/oasisprotocol/curve25519-voi/internal/field"
)

// TestVerifRecC20 dumps every embedded constant and every table entry of package curve.
func TestVerifRecC20(t *testing.T) {
	dir := os.Getenv("VERIF_OUT")
	if dir == "" {
		t.Skip("VERIF_OUT not set")
	}
	cfg := os.Getenv("VERIF_CFG")
	w := newVWriter(dir, "C20-"+cfg+"-curve", 4)
	defer w.close()
	// values handed out by the tables and marshallers are used and scribbled over FIRST: the constants dumped below must
	// still equal their definitions afterwards
	vfresh(w, cfg, "all")
	ev := func(op, name string) vev { return vev{"op": op, "cfg": cfg, "name": name} }
	fe := func(name string, e *field.Element) {
		x := ev("fe", name)
		x["val"] = vfe(e)
		w.emit(x)
	}
	fe("EDWARDS_D", &constEDWARDS_D)
	fe("EDWARDS_D2", &constEDWARDS_D2)
	fe("MINUS_ONE", &constMINUS_ONE)
	fe("ONE_MINUS_EDWARDS_D_SQUARED", &constONE_MINUS_EDWARDS_D_SQUARED)
	fe("EDWARDS_D_MINUS_ONE_SQUARED", &constEDWARDS_D_MINUS_ONE_SQUARED)
	fe("SQRT_AD_MINUS_ONE", &constSQRT_AD_MINUS_ONE)
	fe("INVSQRT_A_MINUS_D", &constINVSQRT_A_MINUS_D)
	fe("SQRT_M1", &field.SQRT_M1)
	fe("ONE", &field.One)
	fe("FIELD_MINUS_ONE", &field.MinusOne)
	fe("FIELD_TWO", &field.Two)
	pt := func(name string, p *EdwardsPoint) { w.emit(vpt(ev("pt", name), p)) }
	pt("BASEPOINT", ED25519_BASEPOINT_POINT)
	pt("B_SHL_128", constB_SHL_128)
	pt("RISTRETTO_BASEPOINT", &RISTRETTO_BASEPOINT_POINT.inner)
	var tors []vev
	for _, p := range EIGHT_TORSION {
		tors = append(tors, vpt(vev{}, p))
	}
	tx := ev("torsion", "EIGHT_TORSION")
	tx["pts"] = tors
	w.emit(tx)
	str := func(name string, b []byte) {
		x := ev("str", name)
		x["val"] = vb(b)
		w.emit(x)
	}
	str("ED25519_BASEPOINT_COMPRESSED", ED25519_BASEPOINT_COMPRESSED[:])
	str("X25519_BASEPOINT", X25519_BASEPOINT[:])
	str("RISTRETTO_BASEPOINT_COMPRESSED", RISTRETTO_BASEPOINT_COMPRESSED[:])
	// table basepoints as the library derives them
	pt("TABLE_BASEPOINT", ED25519_BASEPOINT_TABLE.Basepoint())

	niels := func(tbl, src string, i, j int, ypx, ymx, xy2d []int) {
		x := ev("niels", tbl)
		x["src"], x["i"], x["j"], x["ypx"], x["ymx"], x["xy2d"] = src, i, j, ypx, ymx, xy2d
		w.emit(x)
	}
	// packed bytes exactly as embedded, and the unpacked form on this backend
	gen := unpackEdwardsBasepointTable()
	for i := 0; i < 32; i++ {
		for j := 0; j < 8; j++ {
			raw := packedEdwardsBasepointTable[i*8+j]
			niels("base", "packed", i, j, vb(raw[0:32]), vb(raw[32:64]), vb(raw[64:96]))
			n := &gen[i][j]
			niels("base", "unpacked", i, j, vfe(&n.y_plus_x), vfe(&n.y_minus_x), vfe(&n.xy2d))
		}
	}
	if len(packedEdwardsBasepointTable) != 256 || len(packedAffineOddMultiplesOfBasepoint) != 64 || len(packedAffineOddMultiplesOfBShl128) != 64 {
		w.emit(ev("badlen", "tables"))
	}
	for j := 0; j < 64; j++ {
		raw := packedAffineOddMultiplesOfBasepoint[j]
		niels("oddB", "packed", 0, j, vb(raw[0:32]), vb(raw[32:64]), vb(raw[64:96]))
		n := &constAFFINE_ODD_MULTIPLES_OF_BASEPOINT[j]
		niels("oddB", "unpacked", 0, j, vfe(&n.y_plus_x), vfe(&n.y_minus_x), vfe(&n.xy2d))
		raw = packedAffineOddMultiplesOfBShl128[j]
		niels("oddB128", "packed", 0, j, vb(raw[0:32]), vb(raw[32:64]), vb(raw[64:96]))
		n = &constAFFINE_ODD_MULTIPLES_OF_B_SHL_128[j]
		niels("oddB128", "unpacked", 0, j, vfe(&n.y_plus_x), vfe(&n.y_minus_x), vfe(&n.xy2d))
	}
	verifDumpVectorTables(w, cfg)
}
