package curve

import (
	"math/big"
	"math/rand"
	"os"
	"strconv"
	"testing"
	"time"

	"github.com/oasisprotocol/curve25519-voi/curve/scalar"
)

// Recorder for the group half of C16: TripleScalarMulBasepointVartime and its expanded variant on
// torsion-laden A and C, with a chosen so that the short vector is extreme; the result must lie in
// E[8] exactly when [a]A + [b]B - C does.
func TestVerifRecC16(t *testing.T) {
	dir := os.Getenv("VERIF_OUT")
	if dir == "" {
		t.Skip("VERIF_OUT not set")
	}
	seed, _ := strconv.ParseInt(os.Getenv("VERIF_SEED"), 10, 64)
	n, _ := strconv.Atoi(os.Getenv("VERIF_N"))
	if n == 0 {
		n = 24
	}
	cfg := os.Getenv("VERIF_CFG")
	w := newVWriter(dir, "C16c-"+cfg, 16)
	defer w.close()
	g := &vpool{r: rand.New(rand.NewSource(seed))}
	B := ED25519_BASEPOINT_POINT
	inv := func(q *big.Int) *big.Int { return new(big.Int).ModInverse(q, vL) }
	big2 := func(e uint) *big.Int { return new(big.Int).Lsh(big.NewInt(1), e) }
	special := []*big.Int{big.NewInt(0), big.NewInt(1), new(big.Int).Sub(vL, big.NewInt(1)), inv(big2(64)), new(big.Int).Mul(big2(64), inv(big.NewInt(3))),
		big2(127), big2(128), big2(150), big2(189), inv(big2(100)), new(big.Int).Rsh(vL, 1)}
	for i := 0; i < n; i++ {
		var ab []byte
		if i < len(special) {
			ab = vle(new(big.Int).Mod(special[i], vL))
		} else {
			s, _ := scalar.NewFromBytesModOrderWide(g.bytes(64))
			var tmp [32]byte
			_ = s.ToBytes(tmp[:])
			ab = tmp[:]
		}
		sb, _ := scalar.NewFromBytesModOrderWide(g.bytes(64))
		var bb [32]byte
		_ = sb.ToBytes(bb[:])
		a := vscalar(ab)
		A := g.point()
		// C: the true value plus a torsion point (equation holds), or plus a non-torsion defect
		var C, tmp EdwardsPoint
		C.DoubleScalarMulBasepointVartime(a, A, sb)
		holds := i%3 != 2
		if holds {
			C.Add(&C, EIGHT_TORSION[g.r.Intn(8)])
		} else {
			tmp.Mul(B, vscalar([]byte{byte(1 + g.r.Intn(5)), 0, 0, 0, 0, 0, 0, 0, 0, 0, 0, 0, 0, 0, 0, 0, 0, 0, 0, 0, 0, 0, 0, 0, 0, 0, 0, 0, 0, 0, 0, 0}))
			C.Add(&C, &tmp)
			C.Add(&C, EIGHT_TORSION[g.r.Intn(8)])
		}
		if g.r.Intn(2) == 0 {
			g.scale(&C)
		}
		done := make(chan [2]*EdwardsPoint, 1)
		xa := vexpand(g, A)
		aliasSmall := make(chan [3]bool, 1)
		go func() {
			var o1, o2 EdwardsPoint
			o1.TripleScalarMulBasepointVartime(a, A, sb, &C)
			o2.ExpandedTripleScalarMulBasepointVartime(a, xa, sb, &C)
			// aliased receivers: the receiver is A, is C (plain and expanded); the small-order verdict must be the same
			pa, pc, pcx := *A, C, C
			pa.TripleScalarMulBasepointVartime(a, &pa, sb, &C)
			pc.TripleScalarMulBasepointVartime(a, A, sb, &pc)
			pcx.ExpandedTripleScalarMulBasepointVartime(a, xa, sb, &pcx)
			aliasSmall <- [3]bool{pa.IsSmallOrder(), pc.IsSmallOrder(), pcx.IsSmallOrder()}
			done <- [2]*EdwardsPoint{&o1, &o2}
		}()
		e := vev{"op": "tsm", "cfg": cfg, "a": vb(ab), "b": vb(bb[:]), "A": vpt(vev{}, A), "C": vpt(vev{}, &C), "holds": holds}
		select {
		case o := <-done:
			e["out"], e["outx"] = vpt(vev{}, o[0]), vpt(vev{}, o[1])
			e["small"], e["smallx"] = o[0].IsSmallOrder(), o[1].IsSmallOrder()
			al := <-aliasSmall
			e["smallRecvA"], e["smallRecvC"], e["smallRecvCx"] = al[0], al[1], al[2]
			e["timeout"] = false
			w.emit(e)
		case <-time.After(90 * time.Second): // the operation takes well under a millisecond; the margin is for a heavily loaded machine
			e["timeout"] = true
			w.emit(e)
			return // the spinning goroutine cannot be stopped; the deferred close flushes what was recorded
		}
	}
}
