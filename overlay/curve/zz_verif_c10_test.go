package curve

import (
	"math/rand"
	"os"
	"strconv"
	"testing"

	"github.com/oasisprotocol/curve25519-voi/curve/scalar"
	"github.com/oasisprotocol/curve25519-voi/internal/field"
)

// Recorder for C10: Edwards decoding/encoding/predicates/conversions, with points in
// arbitrary projective scalings (which the public API cannot construct).

type vpool struct {
	r *rand.Rand
}

func (g *vpool) bytes(n int) []byte {
	b := make([]byte, n)
	g.r.Read(b)
	return b
}

// a point = [k]B + T_i, scaled by a random non-zero lambda in all four coordinates
func (g *vpool) point() *EdwardsPoint {
	var p EdwardsPoint
	switch g.r.Intn(6) {
	case 0: // pure torsion
		p.Set(EIGHT_TORSION[g.r.Intn(8)])
	case 1: // prime order
		p.Mul(ED25519_BASEPOINT_POINT, g.scalar())
	default: // mixed
		p.Mul(ED25519_BASEPOINT_POINT, g.scalar())
		p.Add(&p, EIGHT_TORSION[g.r.Intn(8)])
	}
	if g.r.Intn(4) != 0 {
		g.scale(&p)
	}
	return &p
}

func (g *vpool) scalar() *scalar.Scalar {
	s, _ := scalar.NewFromBytesModOrderWide(g.bytes(64))
	if g.r.Intn(8) == 0 {
		s, _ = scalar.NewFromBytesModOrder([]byte{byte(g.r.Intn(4)), 0, 0, 0, 0, 0, 0, 0, 0, 0, 0, 0, 0, 0, 0, 0, 0, 0, 0, 0, 0, 0, 0, 0, 0, 0, 0, 0, 0, 0, 0, 0})
	}
	return s
}

func (g *vpool) scale(p *EdwardsPoint) {
	var l field.Element
	for {
		_, _ = l.SetBytes(g.bytes(32))
		if l.IsZero() == 0 {
			break
		}
	}
	switch g.r.Intn(4) {
	case 0:
		l.MinusOne()
	case 1:
		l.Add(&field.One, &field.One)
	}
	p.inner.X.Mul(&p.inner.X, &l)
	p.inner.Y.Mul(&p.inner.Y, &l)
	p.inner.Z.Mul(&p.inner.Z, &l)
	p.inner.T.Mul(&p.inner.T, &l)
}

// special 32-byte strings: per-byte comparison classes against p, the 19 y >= p, x = 0 cases, torsion
func verifSpecialStrings() [][]byte {
	var out [][]byte
	pb := make([]byte, 32)
	for i := range pb {
		pb[i] = 0xff
	}
	pb[0], pb[31] = 0xed, 0x7f
	for _, top := range []byte{0x7f, 0xff} {
		for d := -3; d <= 18; d++ { // y in p-3 .. 2^255-1
			b := append([]byte(nil), pb...)
			b[0] = byte(0xed + d)
			b[31] = top
			out = append(out, b)
		}
		// one byte below / far below the all-ones pattern, at every position (succeed-fast compare)
		for k := 0; k < 32; k++ {
			for _, b0 := range []byte{0xec, 0xed, 0xee, 0xff} {
				for _, v := range []byte{0xfe, 0x00} {
					b := append([]byte(nil), pb...)
					b[0] = b0
					b[31] = top
					if k == 31 {
						b[k] = (top & 0x80) | (v & 0x7f)
					} else {
						b[k] = v
					}
					out = append(out, b)
				}
			}
		}
		// small y: 0, 1, 2 ... and -1 (x = 0 encodings with and without sign bit)
		for _, y0 := range []byte{0, 1, 2, 3, 4, 5} {
			b := make([]byte, 32)
			b[0] = y0
			b[31] = top & 0x80
			out = append(out, b)
		}
		b := append([]byte(nil), pb...)
		b[0] = 0xec
		b[31] = top
		out = append(out, b)
	}
	for _, t := range EIGHT_TORSION {
		var c CompressedEdwardsY
		c.SetEdwardsPoint(t)
		out = append(out, append([]byte(nil), c[:]...))
		// non-canonical forms: y + p where it fits, sign flipped
		x := append([]byte(nil), c[:]...)
		x[31] ^= 0x80
		out = append(out, x)
	}
	return out
}

// untrusted certificate for the square-root decision of decompression: r = SqrtRatioI(y^2-1, dy^2+1).
// The specification checks the certificate conditions and falls back to its own algorithm if they fail.
func verifSqrtCert(in []byte) []int {
	if len(in) != 32 {
		return vb(make([]byte, 32))
	}
	var y field.Element
	_, _ = y.SetBytes(in)
	return verifSqrtCertY(&y)
}

func verifSqrtCertY(y *field.Element) []int {
	var yy, u, v, r field.Element
	yy.Square(y)
	u.Sub(&yy, &field.One)
	v.Mul(&yy, &constEDWARDS_D)
	v.Add(&v, &field.One)
	_, _ = r.SqrtRatioI(&u, &v)
	return vfe(&r)
}

func TestVerifRecC10(t *testing.T) {
	dir := os.Getenv("VERIF_OUT")
	if dir == "" {
		t.Skip("VERIF_OUT not set")
	}
	seed, _ := strconv.ParseInt(os.Getenv("VERIF_SEED"), 10, 64)
	n, _ := strconv.Atoi(os.Getenv("VERIF_N"))
	ntf, _ := strconv.Atoi(os.Getenv("VERIF_NTF"))
	shards, _ := strconv.Atoi(os.Getenv("VERIF_SHARDS"))
	if shards == 0 {
		shards = 16
	}
	cfg := os.Getenv("VERIF_CFG")
	w := newVWriter(dir, "C10-"+cfg, shards)
	defer w.close()
	defer vfresh(w, cfg, "edwards")
	g := &vpool{r: rand.New(rand.NewSource(seed))}
	ev := func(op string) vev { return vev{"op": op, "cfg": cfg} }

	decode := func(in []byte) {
		var c CompressedEdwardsY
		_, _ = c.SetBytes(in)
		var p EdwardsPoint
		_, err := p.SetCompressedY(&c)
		e := ev("decode")
		e["in"], e["ok"] = vb(in), err == nil
		e["cert"] = verifSqrtCert(in)
		if err == nil {
			vpt(e, &p)
			var o CompressedEdwardsY
			o.SetEdwardsPoint(&p)
			e["out"] = vb(o[:])
		}
		e["canon"] = c.IsCanonicalVartime()
		w.emit(e)
	}
	unmarshal := func(in []byte) {
		var p EdwardsPoint
		p.Set(ED25519_BASEPOINT_POINT) // stale contents that a failed decode must not leave behind
		err := p.UnmarshalBinary(in)
		after, _ := p.MarshalBinary()
		var c CompressedEdwardsY
		copy(c[:], ED25519_BASEPOINT_COMPRESSED[:])
		err2 := c.UnmarshalBinary(in)
		e := ev("unmarshal")
		e["in"], e["ok"], e["after"], e["cok"], e["cafter"] = vb(in), err == nil, vb(after), err2 == nil, vb(c[:])
		e["rcv"] = vpt(vev{}, &p) // the receiver itself: after a failure it must be a VALID representation of the identity
		e["cert"] = verifSqrtCert(in)
		_, err3 := NewCompressedEdwardsYFromBytes(in)
		e["nok"] = err3 == nil
		w.emit(e)
	}
	preds := func(p *EdwardsPoint, tf bool) {
		e := vpt(ev("preds"), p)
		e["isid"], e["small"] = p.IsIdentity(), p.IsSmallOrder()
		if tf {
			e["tfree"] = p.IsTorsionFree()
		}
		enc, _ := p.MarshalBinary()
		e["enc"] = vb(enc)
		var zmy field.Element
		zmy.Sub(&p.inner.Z, &p.inner.Y)
		e["invs"] = vinv(&p.inner.Z, &zmy)
		var c8 EdwardsPoint
		c8.MulByCofactor(p)
		e["c8"] = vpt(vev{}, &c8)
		var m MontgomeryPoint
		m.SetEdwards(p)
		e["mont"] = vb(m[:])
		w.emit(e)
	}
	equal := func(p, q *EdwardsPoint) {
		e := ev("equal")
		e["p"], e["q"], e["eq"] = vpt(vev{}, p), vpt(vev{}, q), p.Equal(q)
		w.emit(e)
	}
	mont2ed := func(u []byte, sign uint8) {
		var m MontgomeryPoint
		_, _ = m.SetBytes(u)
		var p EdwardsPoint
		_, err := p.SetMontgomery(&m, sign)
		e := ev("mont2ed")
		e["u"], e["sign"], e["ok"] = vb(u), sign, err == nil
		var fu, um, up, fy field.Element
		_, _ = fu.SetBytes(u)
		um.Sub(&fu, &field.One)
		up.Add(&fu, &field.One)
		up.Invert(&up)
		fy.Mul(&um, &up)
		e["cert"] = verifSqrtCertY(&fy)
		e["invs"] = [][]int{vfe(&up)}
		if err == nil {
			enc, _ := p.MarshalBinary()
			e["out"] = vb(enc)
			vpt(e, &p) // all four coordinates: the result must be a valid extended point (T = XY/Z), not only encode correctly
		}
		w.emit(e)
	}

	// ---- complete finite families
	for _, s := range verifSpecialStrings() {
		decode(s)
		unmarshal(s)
	}
	for _, l := range []int{0, 1, 16, 31, 33, 63, 64, 96, 1000} {
		unmarshal(g.bytes(l))
		b := make([]byte, l) // a valid prefix with extra / missing bytes
		copy(b, ED25519_BASEPOINT_COMPRESSED[:])
		unmarshal(b)
	}
	scaleWith := func(p *EdwardsPoint, l *field.Element) {
		p.inner.X.Mul(&p.inner.X, l)
		p.inner.Y.Mul(&p.inner.Y, l)
		p.inner.Z.Mul(&p.inner.Z, l)
		p.inner.T.Mul(&p.inner.T, l)
	}
	var two field.Element
	two.Add(&field.One, &field.One)
	for _, tp := range EIGHT_TORSION {
		// torsion points in fixed scalings (1, -1, 2) and a random one: the specification decides these without a long
		// multiplication (a small-order point is torsion free iff it is the identity)
		for k := 0; k < 4; k++ {
			var p EdwardsPoint
			p.Set(tp)
			switch k {
			case 1:
				scaleWith(&p, &field.MinusOne)
			case 2:
				scaleWith(&p, &two)
			case 3:
				g.scale(&p)
			}
			preds(&p, true)
		}
	}
	// the identity and other torsion points as they come out of computations (not in affine form)
	for i := 0; i < 8; i++ {
		a := g.point()
		var na, o EdwardsPoint
		na.Neg(a)
		g.scale(&na)
		o.Add(a, &na)
		preds(&o, true)
		var t8, t4 EdwardsPoint
		t8.MulByCofactor(EIGHT_TORSION[i])
		preds(&t8, true)
		t4.Add(EIGHT_TORSION[i], EIGHT_TORSION[(i+3)%8])
		preds(&t4, true)
		var s EdwardsPoint
		s.Sub(a, a)
		preds(&s, true)
	}
	// special u-coordinates, both settings of bit 255, both signs
	pm := []byte{0xed, 0xff, 0xff, 0xff, 0xff, 0xff, 0xff, 0xff, 0xff, 0xff, 0xff, 0xff, 0xff, 0xff, 0xff, 0xff, 0xff, 0xff, 0xff, 0xff, 0xff, 0xff, 0xff, 0xff, 0xff, 0xff, 0xff, 0xff, 0xff, 0xff, 0xff, 0x7f}
	for d := -3; d <= 18; d++ {
		for _, top := range []byte{0x00, 0x80} {
			for sg := uint8(0); sg < 2; sg++ {
				b := append([]byte(nil), pm...)
				b[0] = byte(0xed + d)
				b[31] |= top
				mont2ed(b, sg)
				c := make([]byte, 32)
				c[0] = byte(d + 3)
				c[31] |= top
				mont2ed(c, sg)
			}
		}
	}
	// ---- sampled
	if n == 0 {
		n = 600
	}
	tfLeft := ntf
	for i := 0; i < n; i++ {
		switch i % 6 {
		case 0:
			decode(g.bytes(32))
		case 1: // valid encoding, possibly with one flipped bit / sign bit / made non-canonical
			enc, _ := g.point().MarshalBinary()
			switch g.r.Intn(4) {
			case 0:
				enc[g.r.Intn(32)] ^= 1 << uint(g.r.Intn(8))
			case 1:
				enc[31] ^= 0x80
			}
			decode(enc)
			unmarshal(enc)
		case 2:
			tf := tfLeft > 0
			if tf {
				tfLeft--
			}
			preds(g.point(), tf)
		case 3:
			p := g.point()
			var q EdwardsPoint
			switch g.r.Intn(4) {
			case 0: // same point, other scaling
				q.Set(p)
				g.scale(&q)
			case 1: // differs by a torsion point
				q.Add(p, EIGHT_TORSION[1+g.r.Intn(7)])
				g.scale(&q)
			case 2: // negation
				q.Neg(p)
			default:
				q.Set(g.point())
			}
			equal(p, &q)
		case 4:
			// u of a real point (maps back) or random u
			var m MontgomeryPoint
			m.SetEdwards(g.point())
			u := append([]byte(nil), m[:]...)
			if g.r.Intn(2) == 0 {
				u = g.bytes(32)
			}
			if g.r.Intn(3) == 0 {
				u[31] |= 0x80
			}
			mont2ed(u, uint8(g.r.Intn(2)))
		case 5:
			unmarshal(g.bytes([]int{0, 31, 32, 32, 32, 33, 64}[g.r.Intn(7)]))
		}
	}
}
