package curve

// Shared helpers of the /verif overlay recorders in package curve (grafted at build
// time with `go test -overlay`; nothing is written to the repository).

import (
	"bufio"
	"encoding/json"
	"fmt"
	"os"
	"path/filepath"

	"github.com/oasisprotocol/curve25519-voi/curve/scalar"
	"github.com/oasisprotocol/curve25519-voi/internal/field"
)

type vev map[string]interface{}

type vwriter struct {
	fs   []*os.File
	ws   []*bufio.Writer
	next int
	seq  int
}

func newVWriter(dir, prefix string, shards int) *vwriter {
	w := &vwriter{}
	for i := 0; i < shards; i++ {
		f, err := os.Create(filepath.Join(dir, fmt.Sprintf("%s-%02d.ndjson", prefix, i)))
		if err != nil {
			panic(err)
		}
		w.fs = append(w.fs, f)
		w.ws = append(w.ws, bufio.NewWriterSize(f, 1<<16))
	}
	return w
}

func (w *vwriter) emit(e vev) {
	w.seq++
	e["seq"] = w.seq
	b, _ := json.Marshal(e)
	w.ws[w.next].Write(b)
	w.ws[w.next].WriteByte('\n')
	w.next = (w.next + 1) % len(w.ws)
}

func (w *vwriter) close() {
	for i := range w.ws {
		w.ws[i].Flush()
		w.fs[i].Close()
	}
}

func vb(b []byte) []int {
	o := make([]int, len(b))
	for i, v := range b {
		o[i] = int(v)
	}
	return o
}

func vfe(e *field.Element) []int {
	var o [32]byte
	_ = e.ToBytes(o[:])
	return vb(o[:])
}

// projective coordinates of a point as four canonical field encodings
func vpt(e vev, p *EdwardsPoint) vev {
	e["x"], e["y"], e["z"], e["t"] = vfe(&p.inner.X), vfe(&p.inner.Y), vfe(&p.inner.Z), vfe(&p.inner.T)
	return e
}

// untrusted inversion certificates for the trace specification (see C25519!InvP): the claimed inverse of e
func vinv(es ...*field.Element) [][]int {
	var out [][]int
	for _, e := range es {
		var i field.Element
		i.Invert(e)
		out = append(out, vfe(&i))
	}
	return out
}

// vfresh: values handed to the caller must be the caller's own.  For every method that returns a byte slice or a point
// pointer: keep the result, reuse the receiver for another value (the kept result must not change), scribble over the
// kept result (the receiver, the package-level constants and the tables must not change).  One event per API; the
// trace specifications accept "fresh" events only with ok = true.
func vfresh(w *vwriter, cfg, family string) {
	emit := func(api string, ok bool, detail string) {
		w.emit(vev{"op": "fresh", "cfg": cfg, "api": api, "ok": ok, "detail": detail})
	}
	scribble := func(b []byte) {
		for i := range b {
			b[i] ^= 0xff
		}
	}
	eq := func(a, b []byte) bool { return string(a) == string(b) }
	var P, Q EdwardsPoint
	P.Add(ED25519_BASEPOINT_POINT, ED25519_BASEPOINT_POINT)
	Q.Add(&P, ED25519_BASEPOINT_POINT)
	encOf := func(p *EdwardsPoint) []byte {
		var c CompressedEdwardsY
		c.SetEdwardsPoint(p)
		return append([]byte(nil), c[:]...)
	}
	encB := encOf(ED25519_BASEPOINT_POINT)
	if family == "edwards" || family == "all" {
		// CompressedEdwardsY.MarshalBinary
		var c CompressedEdwardsY
		c.SetEdwardsPoint(&P)
		b, _ := c.MarshalBinary()
		snap := append([]byte(nil), b...)
		c.SetEdwardsPoint(&Q)
		ok1 := eq(b, snap)
		scribble(b)
		b2, _ := c.MarshalBinary()
		emit("CompressedEdwardsY.MarshalBinary", ok1 && eq(b2, encOf(&Q)), "")
		// EdwardsPoint.MarshalBinary
		var x EdwardsPoint
		x.Set(&P)
		b, _ = x.MarshalBinary()
		snap = append([]byte(nil), b...)
		x.Set(&Q)
		ok1 = eq(b, snap) && eq(snap, encOf(&P))
		scribble(b)
		b2, _ = x.MarshalBinary()
		emit("EdwardsPoint.MarshalBinary", ok1 && eq(b2, encOf(&Q)), "")
		// EdwardsBasepointTable.Basepoint (the embedded table and a user-built one) and ExpandedEdwardsPoint.Point
		for _, tc := range []struct {
			name string
			tbl  *EdwardsBasepointTable
			want []byte
		}{{"ED25519_BASEPOINT_TABLE.Basepoint", ED25519_BASEPOINT_TABLE, encB}, {"NewEdwardsBasepointTable(P).Basepoint", NewEdwardsBasepointTable(&P), encOf(&P)}} {
			r := tc.tbl.Basepoint()
			ok := eq(encOf(r), tc.want)
			r.Add(r, &Q) // the caller uses its result as a receiver
			r.Identity()
			var one EdwardsPoint
			one.MulBasepoint(tc.tbl, scalar.NewFromUint64(1))
			ok = ok && eq(encOf(tc.tbl.Basepoint()), tc.want) && eq(encOf(&one), tc.want) && eq(encOf(ED25519_BASEPOINT_POINT), encB)
			emit(tc.name, ok, "")
		}
		ep := NewExpandedEdwardsPoint(&P)
		r := ep.Point()
		r.Add(r, &Q)
		var d EdwardsPoint
		d.ExpandedDoubleScalarMulBasepointVartime(scalar.NewFromUint64(1), ep, scalar.NewFromUint64(0))
		emit("ExpandedEdwardsPoint.Point", eq(encOf(ep.Point()), encOf(&P)) && eq(encOf(&d), encOf(&P)), "")
		// MontgomeryPoint / constants handed out by value: nothing to alias
	}
	if family == "ristretto" || family == "all" {
		var RP, RQ RistrettoPoint
		RP.Add(RISTRETTO_BASEPOINT_POINT, RISTRETTO_BASEPOINT_POINT)
		RQ.Add(&RP, RISTRETTO_BASEPOINT_POINT)
		rencOf := func(p *RistrettoPoint) []byte {
			var c CompressedRistretto
			c.SetRistrettoPoint(p)
			return append([]byte(nil), c[:]...)
		}
		rencB := rencOf(RISTRETTO_BASEPOINT_POINT)
		var c CompressedRistretto
		c.SetRistrettoPoint(&RP)
		b, _ := c.MarshalBinary()
		snap := append([]byte(nil), b...)
		c.SetRistrettoPoint(&RQ)
		ok1 := eq(b, snap)
		scribble(b)
		b2, _ := c.MarshalBinary()
		emit("CompressedRistretto.MarshalBinary", ok1 && eq(b2, rencOf(&RQ)), "")
		var x RistrettoPoint
		x.Set(&RP)
		b, _ = x.MarshalBinary()
		snap = append([]byte(nil), b...)
		x.Set(&RQ)
		ok1 = eq(b, snap) && eq(snap, rencOf(&RP))
		scribble(b)
		b2, _ = x.MarshalBinary()
		emit("RistrettoPoint.MarshalBinary", ok1 && eq(b2, rencOf(&RQ)), "")
		for _, tc := range []struct {
			name string
			tbl  *RistrettoBasepointTable
			want []byte
		}{{"RISTRETTO_BASEPOINT_TABLE.Basepoint", RISTRETTO_BASEPOINT_TABLE, rencB}, {"NewRistrettoBasepointTable(P).Basepoint", NewRistrettoBasepointTable(&RP), rencOf(&RP)}} {
			r := tc.tbl.Basepoint()
			ok := eq(rencOf(r), tc.want)
			r.Add(r, &RQ)
			r.Identity()
			var one RistrettoPoint
			one.MulBasepoint(tc.tbl, scalar.NewFromUint64(1))
			ok = ok && eq(rencOf(tc.tbl.Basepoint()), tc.want) && eq(rencOf(&one), tc.want) && eq(rencOf(RISTRETTO_BASEPOINT_POINT), rencB)
			emit(tc.name, ok, "")
		}
		ep := NewExpandedRistrettoPoint(&RP)
		r := ep.Point()
		r.Add(r, &RQ)
		emit("ExpandedRistrettoPoint.Point", eq(rencOf(ep.Point()), rencOf(&RP)), "")
	}
}
