package curve

// Shared helpers of the /verif overlay recorders in package curve (grafted at build
// time with `go test -overlay`; nothing is written to the repository).

import (
	"bufio"
	"encoding/json"
	"fmt"
	"os"
	"path/filepath"

	"github.com/oasisprotocol/curve25519-voi/internal/field"
)

type vev map[string]interface{}

type vwriter struct {
	fs   []*os.File
	ws   []*bufio.Writer
	next int
	seq  int
}

func newVWriter(dir, prefix string, shards int) *vwriter {
	w := &vwriter{}
	for i := 0; i < shards; i++ {
		f, err := os.Create(filepath.Join(dir, fmt.Sprintf("%s-%02d.ndjson", prefix, i)))
		if err != nil {
			panic(err)
		}
		w.fs = append(w.fs, f)
		w.ws = append(w.ws, bufio.NewWriterSize(f, 1<<16))
	}
	return w
}

func (w *vwriter) emit(e vev) {
	w.seq++
	e["seq"] = w.seq
	b, _ := json.Marshal(e)
	w.ws[w.next].Write(b)
	w.ws[w.next].WriteByte('\n')
	w.next = (w.next + 1) % len(w.ws)
}

func (w *vwriter) close() {
	for i := range w.ws {
		w.ws[i].Flush()
		w.fs[i].Close()
	}
}

func vb(b []byte) []int {
	o := make([]int, len(b))
	for i, v := range b {
		o[i] = int(v)
	}
	return o
}

func vfe(e *field.Element) []int {
	var o [32]byte
	_ = e.ToBytes(o[:])
	return vb(o[:])
}

// projective coordinates of a point as four canonical field encodings
func vpt(e vev, p *EdwardsPoint) vev {
	e["x"], e["y"], e["z"], e["t"] = vfe(&p.inner.X), vfe(&p.inner.Y), vfe(&p.inner.Z), vfe(&p.inner.T)
	return e
}

// untrusted inversion certificates for the trace specification (see C25519!InvP): the claimed inverse of e
func vinv(es ...*field.Element) [][]int {
	var out [][]int
	for _, e := range es {
		var i field.Element
		i.Invert(e)
		out = append(out, vfe(&i))
	}
	return out
}
