package curve

import (
	"math/rand"
	"os"
	"strconv"
	"testing"

	"github.com/oasisprotocol/curve25519-voi/curve/scalar"
	"github.com/oasisprotocol/curve25519-voi/internal/field"
)

// Recorder for C11 (Ristretto255). Square-root certificates (untrusted, see Trace_C11) are
// computed with the library's own field code on the (u, v) pairs the RFC's formulas need.

func vsqrt(u, v *field.Element) []int {
	var r field.Element
	_, _ = r.SqrtRatioI(u, v)
	return vfe(&r)
}

// certificate for Decode(s): 1 / sqrt(v * u2^2)
func vcertDecode(in []byte) [][]int {
	if len(in) != 32 {
		return [][]int{}
	}
	var s, ss, u1, u2, u1s, u2s, v, w field.Element
	_, _ = s.SetBytes(in)
	ss.Square(&s)
	u1.Sub(&field.One, &ss)
	u2.Add(&field.One, &ss)
	u1s.Square(&u1)
	u2s.Square(&u2)
	v.Neg(&constEDWARDS_D)
	v.Mul(&v, &u1s)
	v.Sub(&v, &u2s)
	w.Mul(&v, &u2s)
	return [][]int{vsqrt(&field.One, &w)}
}

// certificate for Encode(P): 1 / sqrt(u1 * u2^2)
func vcertEncode(p *EdwardsPoint) [][]int {
	var a, b, u1, u2, w field.Element
	a.Add(&p.inner.Z, &p.inner.Y)
	b.Sub(&p.inner.Z, &p.inner.Y)
	u1.Mul(&a, &b)
	u2.Mul(&p.inner.X, &p.inner.Y)
	w.Square(&u2)
	w.Mul(&w, &u1)
	return [][]int{vsqrt(&field.One, &w)}
}

// certificate for MAP(t): sqrt_ratio(u, v)
func vcertMap(tb []byte) []int {
	var t, r, u, v, a, b field.Element
	_, _ = t.SetBytes(tb)
	r.Square(&t)
	r.Mul(&field.SQRT_M1, &r)
	u.Add(&r, &field.One)
	u.Mul(&u, &constONE_MINUS_EDWARDS_D_SQUARED)
	a.Mul(&r, &constEDWARDS_D)
	a.Sub(&field.MinusOne, &a)
	b.Add(&r, &constEDWARDS_D)
	v.Mul(&a, &b)
	return vsqrt(&u, &v)
}

func TestVerifRecC11(t *testing.T) {
	dir := os.Getenv("VERIF_OUT")
	if dir == "" {
		t.Skip("VERIF_OUT not set")
	}
	seed, _ := strconv.ParseInt(os.Getenv("VERIF_SEED"), 10, 64)
	n, _ := strconv.Atoi(os.Getenv("VERIF_N"))
	if n == 0 {
		n = 400
	}
	cfg := os.Getenv("VERIF_CFG")
	w := newVWriter(dir, "C11-"+cfg, 16)
	defer w.close()
	defer vfresh(w, cfg, "ristretto")
	g := &vpool{r: rand.New(rand.NewSource(seed))}
	ev := func(op string) vev { return vev{"op": op, "cfg": cfg} }
	E4 := []*EdwardsPoint{EIGHT_TORSION[0], EIGHT_TORSION[2], EIGHT_TORSION[4], EIGHT_TORSION[6]}
	// a Ristretto element's representative: [k]B (in 2E), optionally + T in E[4], optionally scaled
	elem := func() *RistrettoPoint {
		var p RistrettoPoint
		p.inner.Mul(ED25519_BASEPOINT_POINT, g.scalar())
		return &p
	}
	rep := func(p *RistrettoPoint, i int, scale bool) *RistrettoPoint {
		var q RistrettoPoint
		q.inner.Add(&p.inner, E4[i%4])
		if scale {
			g.scale(&q.inner)
		}
		return &q
	}
	decode := func(in []byte) {
		var c CompressedRistretto
		e := ev("rdecode")
		e["in"] = vb(in)
		var p RistrettoPoint
		p.inner.Set(ED25519_BASEPOINT_POINT) // stale contents
		err := p.UnmarshalBinary(in)
		e["ok"] = err == nil
		after, _ := p.MarshalBinary()
		e["after"] = vb(after)
		e["sqrts"] = vcertDecode(in)
		if err == nil {
			vpt(e, &p.inner)
			e["sqrts"] = append(e["sqrts"].([][]int), vcertEncode(&p.inner)...)
		}
		copy(c[:], RISTRETTO_BASEPOINT_COMPRESSED[:])
		err2 := c.UnmarshalBinary(in)
		e["cok"], e["cafter"] = err2 == nil, vb(c[:])
		if len(in) == 32 {
			var c2 CompressedRistretto
			_, _ = c2.SetBytes(in)
			var p2 RistrettoPoint
			_, err3 := p2.SetCompressed(&c2)
			e["sok"] = err3 == nil
		}
		w.emit(e)
	}
	elemID := 0
	encode := func(p *RistrettoPoint) {
		e := vpt(ev("rencode"), &p.inner)
		e["elem"] = elemID
		b, _ := p.MarshalBinary()
		e["out"] = vb(b)
		e["sqrts"] = vcertEncode(&p.inner)
		e["isid"] = p.IsIdentity()
		w.next = elemID % len(w.ws) // keep the representatives of one element in one shard, in order
		w.emit(e)
	}
	equal := func(p, q *RistrettoPoint) {
		e := ev("requal")
		e["p"], e["q"], e["eq"] = vpt(vev{}, &p.inner), vpt(vev{}, &q.inner), p.Equal(q)
		w.emit(e)
	}
	uniform := func(in []byte) {
		var p RistrettoPoint
		_, err := p.SetUniformBytes(in)
		e := ev("runiform")
		e["in"], e["ok"] = vb(in), err == nil
		if err == nil {
			b, _ := p.MarshalBinary()
			e["out"] = vb(b)
			vpt(e, &p.inner)
			e["sqrts"] = append([][]int{vcertMap(in[:32]), vcertMap(in[32:])}, vcertEncode(&p.inner)...)
		}
		w.emit(e)
	}

	{
		e := ev("rbase") // the embedded constant (deferred from C20): the Ristretto encoding of the base point
		e["val"] = vb(RISTRETTO_BASEPOINT_COMPRESSED[:])
		w.emit(e)
	}
	// ---- special strings: the RFC 9496 A.2/A.3 style families
	pm := make([]byte, 32)
	for i := range pm {
		pm[i] = 0xff
	}
	pm[0], pm[31] = 0xed, 0x7f
	for d := -4; d <= 18; d++ { // s around p: non-canonical field encodings
		b := append([]byte(nil), pm...)
		b[0] = byte(0xed + d)
		decode(b)
		c := append([]byte(nil), b...)
		c[31] |= 0x80
		decode(c)
	}
	for v := 0; v < 24; v++ { // small s (negative = odd ones), identity = 0
		b := make([]byte, 32)
		b[0] = byte(v)
		decode(b)
		c := append([]byte(nil), b...)
		c[31] |= 0x80 // bit 255 set on an otherwise valid encoding
		decode(c)
	}
	{
		b := append([]byte(nil), RISTRETTO_BASEPOINT_COMPRESSED[:]...)
		decode(b)
		b[31] |= 0x80
		decode(b)
	}
	for _, l := range []int{0, 1, 31, 33, 64} {
		decode(g.bytes(l))
		b := make([]byte, l)
		copy(b, RISTRETTO_BASEPOINT_COMPRESSED[:])
		decode(b)
	}
	// the identity and its coset (the four 4-torsion points), in several scalings
	elemID++
	for i := 0; i < 4; i++ {
		var id RistrettoPoint
		id.Identity()
		encode(rep(&id, i, false))
		encode(rep(&id, i, true))
	}
	for _, in := range [][]byte{make([]byte, 64), func() []byte {
		b := make([]byte, 64)
		for i := range b {
			b[i] = 0xff
		}
		return b
	}()} {
		uniform(in)
	}
	rgroup := func(kind string, sa, sb []byte, P, o *RistrettoPoint) {
		e := ev("rgroup")
		e["kind"], e["a"], e["b"], e["P"] = kind, vb(sa), vb(sb), vpt(vev{}, &P.inner)
		b, _ := o.MarshalBinary()
		e["out"] = vb(b)
		vpt(e, &o.inner)
		e["sqrts"] = vcertEncode(&o.inner)
		w.emit(e)
	}
	// ---- group operations through the Ristretto wrappers, result encoded (agree with the reference definition)
	ng := 11
	if n > 1000 {
		ng = 66
	}
	for i := 0; i < ng; i++ {
		P, Q := rep(elem(), g.r.Intn(4), true), rep(elem(), g.r.Intn(4), true)
		sa, sb := g.bytes(32), g.bytes(32)
		sa[31] &= 0x0f
		sb[31] &= 0x0f
		var o RistrettoPoint
		kinds := []string{"dsm", "msmvt", "mul", "addsub", "msm", "xdsm", "xmsmvt", "table", "sum", "select", "roundtrip"}
		kind := kinds[i%len(kinds)]
		switch kind {
		case "msm":
			o.MultiscalarMul([]*scalar.Scalar{vscalar(sa), vscalar(sb)}, []*RistrettoPoint{P, RISTRETTO_BASEPOINT_POINT})
		case "xdsm": // precomputed form of the representative; Point() must give the same element back
			x := NewExpandedRistrettoPoint(P)
			o.ExpandedDoubleScalarMulBasepointVartime(vscalar(sa), x, vscalar(sb))
			var back RistrettoPoint
			back.SetExpanded(x)
			if back.Equal(P) != 1 || x.Point().Equal(P) != 1 {
				o.Identity()
			}
		case "xmsmvt": // [a]P static, [b]B dynamic
			var x ExpandedRistrettoPoint
			x.SetRistrettoPoint(P)
			o.ExpandedMultiscalarMulVartime([]*scalar.Scalar{vscalar(sa)}, []*ExpandedRistrettoPoint{&x},
				[]*scalar.Scalar{vscalar(sb)}, []*RistrettoPoint{RISTRETTO_BASEPOINT_POINT})
		case "table": // a basepoint table built for P
			tbl := NewRistrettoBasepointTable(P)
			o.MulBasepoint(tbl, vscalar(sa))
			var t2 RistrettoPoint
			t2.MulBasepoint(RISTRETTO_BASEPOINT_TABLE, vscalar(sb))
			o.Sum([]*RistrettoPoint{&o, &t2, tbl.Basepoint(), NewRistrettoPoint().Neg(P)})
		case "sum":
			var t1, t2, t3 RistrettoPoint
			t1.Mul(P, vscalar(sa))
			t2.Mul(RISTRETTO_BASEPOINT_POINT, vscalar(sb))
			t3.Neg(Q)
			// the receiver is no summand / the second / the last summand (it must be read before it is written): all three,
			// each its own event
			for v := 0; v < 3; v++ {
				var oo RistrettoPoint
				switch v {
				case 0:
					oo.Sum([]*RistrettoPoint{Q, &t1, &t3, &t2})
				case 1:
					oo.Set(&t1)
					oo.Sum([]*RistrettoPoint{Q, &oo, &t3, &t2})
				case 2:
					oo.Set(&t2)
					oo.Sum([]*RistrettoPoint{Q, &t1, &t3, &oo})
				}
				if v < 2 {
					rgroup(kind, sa, sb, P, &oo)
				} else {
					o.Set(&oo)
				}
			}
		case "select":
			var t1, t2 RistrettoPoint
			t1.DoubleScalarMulBasepointVartime(vscalar(sa), P, vscalar(sb))
			t2.Set(Q)
			o.ConditionalSelect(&t2, &t1, 1)
			var o2 RistrettoPoint
			o2.ConditionalSelect(&t1, &t2, 0)
			if o2.Equal(&o) != 1 {
				o.Identity()
			}
		case "roundtrip": // compress, decompress, continue with the decoded representative
			var t1 RistrettoPoint
			t1.Mul(P, vscalar(sa))
			var c CompressedRistretto
			c.SetRistrettoPoint(&t1)
			var t2, t3 RistrettoPoint
			if _, err := t2.SetCompressed(&c); err != nil {
				t2.Identity()
			}
			t3.MulBasepoint(RISTRETTO_BASEPOINT_TABLE, vscalar(sb))
			o.Add(&t2, &t3)
		case "dsm":
			o.DoubleScalarMulBasepointVartime(vscalar(sa), P, vscalar(sb))
		case "msmvt":
			o.MultiscalarMulVartime([]*scalar.Scalar{vscalar(sa), vscalar(sb)}, []*RistrettoPoint{P, RISTRETTO_BASEPOINT_POINT})
		case "mul":
			o.Mul(P, vscalar(sa))
			var t2 RistrettoPoint
			t2.MulBasepoint(RISTRETTO_BASEPOINT_TABLE, vscalar(sb))
			o.Add(&o, &t2)
		case "addsub":
			o.Mul(P, vscalar(sa))
			var t2 RistrettoPoint
			t2.MulBasepoint(RISTRETTO_BASEPOINT_TABLE, vscalar(sb))
			t2.Neg(&t2)
			o.Sub(&o, &t2)
		}
		rgroup(kind, sa, sb, P, &o)
	}
	// many terms (beyond the Straus/Pippenger threshold), static and dynamic halves with unrelated scalars:
	// sum_i [a_i]P (precomputed) + sum_j [b_j]B (dynamic) = [sum a_i]P + [sum b_j]B
	for _, sd := range [][2]int{{95, 96}, {3, 200}} {
		P := rep(elem(), g.r.Intn(4), true)
		xp := NewExpandedRistrettoPoint(P)
		var ss, ds []*scalar.Scalar
		var sp []*ExpandedRistrettoPoint
		var dp []*RistrettoPoint
		sumA, sumB := scalar.New(), scalar.New()
		for i := 0; i < sd[0]; i++ {
			s, _ := scalar.NewFromBytesModOrderWide(g.bytes(64))
			ss, sp = append(ss, s), append(sp, xp)
			sumA.Add(sumA, s)
		}
		for i := 0; i < sd[1]; i++ {
			s, _ := scalar.NewFromBytesModOrderWide(g.bytes(64))
			ds, dp = append(ds, s), append(dp, RISTRETTO_BASEPOINT_POINT)
			sumB.Add(sumB, s)
		}
		var o RistrettoPoint
		o.ExpandedMultiscalarMulVartime(ss, sp, ds, dp)
		var sa, sb [32]byte
		_ = sumA.ToBytes(sa[:])
		_ = sumB.ToBytes(sb[:])
		rgroup("xmsmbig", sa[:], sb[:], P, &o)
	}
	// ---- sampled
	for i := 0; i < n; i++ {
		switch i % 6 {
		case 0:
			decode(g.bytes(32))
		case 1: // a valid encoding, possibly mutated
			b, _ := elem().MarshalBinary()
			switch g.r.Intn(4) {
			case 0:
				b[g.r.Intn(32)] ^= 1 << uint(g.r.Intn(8))
			case 1:
				b[31] |= 0x80
			}
			decode(b)
		case 2: // all four coset representatives, scaled, must encode identically
			p := elem()
			elemID++
			for k := 0; k < 4; k++ {
				encode(rep(p, k, g.r.Intn(2) == 0))
			}
		case 3:
			p := elem()
			var q *RistrettoPoint
			switch g.r.Intn(4) {
			case 0:
				q = rep(p, 1+g.r.Intn(3), true) // same element, other representative
			case 1:
				q = elem() // different element
			case 2: // differs by a point of order 8: a different element (and not a valid representative pair)
				var x RistrettoPoint
				x.inner.Add(&p.inner, ED25519_BASEPOINT_POINT)
				q = &x
			default:
				var x RistrettoPoint
				x.Neg(p)
				q = &x
			}
			equal(p, q)
		case 4:
			in := g.bytes(64)
			switch g.r.Intn(5) {
			case 0:
				in[31] |= 0x80
				in[63] |= 0x80
			case 1: // r_1 = 0 or small
				for j := 0; j < 32; j++ {
					in[j] = 0
				}
				in[0] = byte(g.r.Intn(3))
			case 2: // values >= p
				copy(in[:32], pm)
				in[0] = byte(0xed + g.r.Intn(19))
			}
			uniform(in)
		case 5:
			uniform(g.bytes([]int{0, 32, 63, 65}[g.r.Intn(4)]))
		}
	}
}
