// Package verifobs, machine-level variant: grafted next to the UNINSTRUMENTED library for the C08
// machine-level observation (valgrind/lackey). Start and Stop only call two marker functions whose
// addresses delimit a recording in the instruction trace; the signature is computed outside the process.
package verifobs

var armed bool

//go:noinline
func MarkStart(x int) int { return x + 1 }

//go:noinline
func MarkStop(x int) int { return x + 2 }

var sink int

// Arm switches the markers on (off during warm-up).
func Arm(on bool) { armed = on }

// Machine reports that signatures are computed from the instruction trace, not in process.
func Machine() bool { return true }

func Start() {
	if armed {
		sink = MarkStart(sink)
	}
}

func Stop() (uint64, uint64) {
	if armed {
		sink = MarkStop(sink)
	}
	return 0, 0
}

func I(site int, v int64) int64         { return v }
func B(site int, c bool) bool           { return c }
func Seen(site int, v interface{}) bool { return true }
