package h2c

import (
	"bufio"
	"encoding/json"
	"math/big"
	"math/rand"
	"os"
	"path/filepath"
	"strconv"
	"testing"
)

// Recorder for C14 inside primitives/h2c: the part of the suites BEHIND expand_message (hash_to_field on the uniform
// bytes, the Elligator maps, addition, cofactor clearing) on CRAFTED uniform bytes - field elements congruent to the
// exceptional inputs of the map (0, +-1, p, k*p, p+-1) in one or in both positions, which no message hashes to.
func TestVerifRecC14Maps(t *testing.T) {
	dir := os.Getenv("VERIF_OUT")
	if dir == "" {
		t.Skip("VERIF_OUT not set")
	}
	seed, _ := strconv.ParseInt(os.Getenv("VERIF_SEED"), 10, 64)
	n, _ := strconv.Atoi(os.Getenv("VERIF_N"))
	cfg := os.Getenv("VERIF_CFG")
	r := rand.New(rand.NewSource(seed))
	var ws []*bufio.Writer
	for k := 0; k < 16; k++ {
		f, err := os.Create(filepath.Join(dir, "C14m-"+cfg+"-"+strconv.Itoa(k)+".ndjson"))
		if err != nil {
			t.Fatal(err)
		}
		defer f.Close()
		w := bufio.NewWriter(f)
		defer w.Flush()
		ws = append(ws, w)
	}
	seq := 0
	emit := func(e map[string]interface{}) {
		seq++
		e["seq"], e["cfg"], e["sha"] = seq, cfg, []int{}
		b, _ := json.Marshal(e)
		ws[seq%16].Write(append(b, '\n'))
	}
	vb := func(b []byte) []int {
		o := make([]int, len(b))
		for i, v := range b {
			o[i] = int(v)
		}
		return o
	}
	p := new(big.Int).Sub(new(big.Int).Lsh(big.NewInt(1), 255), big.NewInt(19))
	be48 := func(v *big.Int) []byte {
		b := v.Bytes()
		o := make([]byte, 48)
		copy(o[48-len(b):], b)
		return o
	}
	max48 := new(big.Int).Lsh(big.NewInt(1), 384)
	// field elements as 48-byte big-endian strings: special residues in several representations, and random ones
	var specials [][]byte
	for _, res := range []int64{0, 1, -1, 2, -2} {
		for _, k := range []*big.Int{big.NewInt(0), big.NewInt(1), big.NewInt(2), new(big.Int).Lsh(big.NewInt(1), 100)} {
			v := new(big.Int).Add(new(big.Int).Mul(k, p), big.NewInt(res))
			if v.Sign() >= 0 && v.Cmp(max48) < 0 {
				specials = append(specials, be48(v))
			}
		}
	}
	rnd := func() []byte {
		b := make([]byte, 48)
		r.Read(b)
		return b
	}
	ro := func(u0, u1 []byte) {
		var ub [hashToCurveSize]byte
		copy(ub[:], u0)
		copy(ub[ell:], u1)
		q := hashToCurve(&ub)
		enc, _ := q.MarshalBinary()
		emit(map[string]interface{}{"op": "h2cmap", "kind": "ro", "u": vb(ub[:]), "out": vb(enc)})
	}
	nu := func(u []byte) {
		var ub [encodeToCurveSize]byte
		copy(ub[:], u)
		q := encodeToCurve(&ub)
		enc, _ := q.MarshalBinary()
		emit(map[string]interface{}{"op": "h2cmap", "kind": "nu", "u": vb(ub[:]), "out": vb(enc)})
	}
	for i, s := range specials {
		nu(s)
		ro(s, rnd()) // exactly one exceptional element, in either position
		ro(rnd(), s)
		ro(s, specials[(i*7+3)%len(specials)])
	}
	ro(specials[0], specials[0])
	for i := 0; i < n; i++ {
		ro(rnd(), rnd())
		nu(rnd())
	}
}
