package elligator

import (
	"bufio"
	"encoding/json"
	"os"
	"path/filepath"
	"testing"

	"github.com/oasisprotocol/curve25519-voi/internal/field"
)

// TestVerifRecC20 dumps the Elligator 2 constants.
func TestVerifRecC20(t *testing.T) {
	dir := os.Getenv("VERIF_OUT")
	if dir == "" {
		t.Skip("VERIF_OUT not set")
	}
	cfg := os.Getenv("VERIF_CFG")
	f, err := os.Create(filepath.Join(dir, "C20-"+cfg+"-elligator-00.ndjson"))
	if err != nil {
		t.Fatal(err)
	}
	defer f.Close()
	bw := bufio.NewWriter(f)
	defer bw.Flush()
	seq := 0
	fe := func(name string, e *field.Element) {
		var o [32]byte
		_ = e.ToBytes(o[:])
		ib := make([]int, 32)
		for i, v := range o {
			ib[i] = int(v)
		}
		seq++
		b, _ := json.Marshal(map[string]interface{}{"op": "fe", "name": name, "val": ib, "seq": seq, "cfg": cfg})
		bw.Write(b)
		bw.WriteByte('\n')
	}
	fe("MONTGOMERY_A", &constMONTGOMERY_A)
	fe("MONTGOMERY_NEG_A", &constMONTGOMERY_NEG_A)
	fe("MONTGOMERY_A_SQUARED", &constMONTGOMERY_A_SQUARED)
	fe("MONTGOMERY_SQRT_NEG_A_PLUS_TWO", &constMONTGOMERY_SQRT_NEG_A_PLUS_TWO)
	fe("MONTGOMERY_U_FACTOR", &constMONTGOMERY_U_FACTOR)
	fe("MONTGOMERY_V_FACTOR", &constMONTGOMERY_V_FACTOR)
}
