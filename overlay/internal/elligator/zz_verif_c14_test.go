package elligator

import (
	"bufio"
	"encoding/json"
	"math/big"
	"math/rand"
	"os"
	"path/filepath"
	"strconv"
	"testing"

	"github.com/oasisprotocol/curve25519-voi/internal/field"
)

// Recorder for C14 inside internal/elligator: EdwardsFlavor on raw field elements, including the
// exceptional inputs of the map (0, +-1, +-sqrt(-1), the roots of 1 + 2 r^2 = 0, small and huge values).
func TestVerifRecC14(t *testing.T) {
	dir := os.Getenv("VERIF_OUT")
	if dir == "" {
		t.Skip("VERIF_OUT not set")
	}
	seed, _ := strconv.ParseInt(os.Getenv("VERIF_SEED"), 10, 64)
	n, _ := strconv.Atoi(os.Getenv("VERIF_N"))
	if n == 0 {
		n = 24
	}
	cfg := os.Getenv("VERIF_CFG")
	r := rand.New(rand.NewSource(seed))
	var ws []*bufio.Writer
	for k := 0; k < 16; k++ {
		f, err := os.Create(filepath.Join(dir, "C14e-"+cfg+"-"+strconv.Itoa(k)+".ndjson"))
		if err != nil {
			t.Fatal(err)
		}
		defer f.Close()
		w := bufio.NewWriter(f)
		defer w.Flush()
		ws = append(ws, w)
	}
	seq := 0
	p := new(big.Int).Sub(new(big.Int).Lsh(big.NewInt(1), 255), big.NewInt(19))
	le := func(v *big.Int) []byte {
		be := new(big.Int).Mod(v, p).Bytes()
		out := make([]byte, 32)
		for i := range be {
			out[len(be)-1-i] = be[i]
		}
		return out
	}
	one := func(rb []byte) {
		var fe field.Element
		_, _ = fe.SetBytes(rb)
		var enc []byte
		func() {
			// a panic of the library is an event the specification rejects (empty output), not a dead recorder
			defer func() { _ = recover() }()
			pt := EdwardsFlavor(&fe)
			enc, _ = pt.MarshalBinary()
		}()
		seq++
		ib := func(b []byte) []int {
			o := make([]int, len(b))
			for i, v := range b {
				o[i] = int(v)
			}
			return o
		}
		b, _ := json.Marshal(map[string]interface{}{"op": "ell2", "cfg": cfg, "seq": seq, "r": ib(rb), "out": ib(enc)})
		ws[seq%16].Write(b)
		ws[seq%16].WriteByte('\n')
	}
	i := new(big.Int).Exp(big.NewInt(2), new(big.Int).Rsh(new(big.Int).Sub(p, big.NewInt(1)), 2), p) // sqrt(-1)
	// roots of 1 + 2 r^2 = 0: r^2 = -1/2 (a square times i ...): try both candidates via ModSqrt
	negHalf := new(big.Int).Mod(new(big.Int).Neg(new(big.Int).ModInverse(big.NewInt(2), p)), p)
	var specials []*big.Int
	for _, v := range []int64{0, 1, 2, 3, 4, 5, 19, 486662, 486664} {
		specials = append(specials, big.NewInt(v), new(big.Int).Sub(p, big.NewInt(v)))
	}
	specials = append(specials, i, new(big.Int).Sub(p, i))
	if s := new(big.Int).ModSqrt(negHalf, p); s != nil {
		specials = append(specials, s, new(big.Int).Sub(p, s))
	}
	for _, s := range specials {
		one(le(s))
	}
	for k := 0; k < n; k++ {
		b := make([]byte, 32)
		r.Read(b)
		b[31] &= 0x7f
		one(b)
		if k%8 == 3 { // an exceptional input in between: whatever it leaves behind must not affect the next evaluations
			one(le(specials[r.Intn(len(specials))]))
		}
	}
}
