package strobe

// Recorder for C13 inside internal/strobe (grafted with go test -overlay): raw STROBE operations
// including the `more` continuation, with the cursor state and the state bytes after every call,
// and the Keccak-f[1600] permutation alone on boundary states.

import (
	"bufio"
	"encoding/json"
	"fmt"
	"math/rand"
	"os"
	"path/filepath"
	"strconv"
	"testing"
)

func vb13(b []byte) []int {
	o := make([]int, len(b))
	for i, v := range b {
		o[i] = int(v)
	}
	return o
}

func TestVerifRecC13(t *testing.T) {
	dir := os.Getenv("VERIF_OUT")
	if dir == "" {
		t.Skip("VERIF_OUT not set")
	}
	seed, _ := strconv.ParseInt(os.Getenv("VERIF_SEED"), 10, 64)
	n, _ := strconv.Atoi(os.Getenv("VERIF_N"))
	if n == 0 {
		n = 16
	}
	cfg := os.Getenv("VERIF_CFG")
	r := rand.New(rand.NewSource(seed))
	var ws []*bufio.Writer
	for i := 0; i < 16; i++ {
		f, err := os.Create(filepath.Join(dir, fmt.Sprintf("C13s-%s-%02d.ndjson", cfg, i)))
		if err != nil {
			t.Fatal(err)
		}
		defer f.Close()
		w := bufio.NewWriter(f)
		defer w.Flush()
		ws = append(ws, w)
	}
	seq := 0
	emit := func(sh int, e map[string]interface{}) {
		seq++
		e["seq"], e["cfg"] = seq, cfg
		b, _ := json.Marshal(e)
		ws[sh%16].Write(b)
		ws[sh%16].WriteByte('\n')
	}
	rb := func(k int) []byte {
		b := make([]byte, k)
		r.Read(b)
		return b
	}
	// ---- the permutation alone
	var states [][200]byte
	var z [200]byte
	states = append(states, z)
	var ones [200]byte
	for i := range ones {
		ones[i] = 0xff
	}
	states = append(states, ones)
	for lane := 0; lane < 25; lane++ { // a single bit per lane, at rotating positions
		var s [200]byte
		bit := (lane * 7) % 64
		s[8*lane+bit/8] = 1 << uint(bit%8)
		states = append(states, s)
	}
	for i := 0; i < n; i++ {
		var s [200]byte
		r.Read(s[:])
		states = append(states, s)
	}
	for i, s := range states {
		in := s
		keccakF1600Bytes(&s)
		emit(i, map[string]interface{}{"op": "keccak", "in": vb13(in[:]), "out": vb13(s[:])})
	}
	// ---- raw STROBE histories
	for h := 0; h < n; h++ {
		sh := h
		emit(sh, map[string]interface{}{"op": "reset"})
		var objs []*Strobe
		cur := func(s *Strobe, e map[string]interface{}) {
			e["pos"], e["posBegin"], e["cur"], e["st"] = s.pos, s.posBegin, int(s.curFlags), vb13(s.st[:])
		}
		proto := rb(r.Intn(40))
		s0 := New(string(proto))
		objs = append(objs, &s0)
		e := map[string]interface{}{"op": "snew", "id": 1, "label": vb13(proto)}
		cur(&s0, e)
		emit(sh, e)
		steps := 4 + r.Intn(8)
		for k := 0; k < steps; k++ {
			id := 1 + r.Intn(len(objs))
			s := objs[id-1]
			ln := []int{0, 1, 2, 30, 160, 162, 163, 164, 165, 166, 167, 200, 332, 333}[r.Intn(14)]
			if h%4 == 3 {
				ln = r.Intn(12) // short operations: many framings per block
			}
			data := rb(ln)
			kind := r.Intn(6)
			if kind == 5 {
				objs = append(objs, s.Clone())
				emit(sh, map[string]interface{}{"op": "sclone", "t": id, "id": len(objs)})
				continue
			}
			f := []flags{flagA, flagA | flagM, flagA | flagC, flagI | flagA | flagC, flagA}[kind]
			more := false
			if (f == flagA || f == flagA|flagM) && s.curFlags == f && r.Intn(3) == 0 {
				more = true // legal continuation of the current operation
			}
			ev := map[string]interface{}{"op": "sop", "t": id, "flags": int(f), "more": more, "data": vb13(data)}
			switch f {
			case flagA:
				s.AD(append([]byte(nil), data...), more)
			case flagA | flagM:
				s.MetaAD(append([]byte(nil), data...), more)
			case flagA | flagC:
				s.KEY(data)
			case flagI | flagA | flagC:
				out := append([]byte(nil), data...) // stale contents must be ignored
				s.PRF(out)
				ev["out"] = vb13(out)
			}
			cur(s, ev)
			emit(sh, ev)
		}
	}
}
