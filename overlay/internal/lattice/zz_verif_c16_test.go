package lattice

// Recorder for C16 (grafted with go test -overlay): FindShortVector on adversarially structured
// scalars; each call runs under a watchdog because non-termination is one of the failure modes.

import (
	"bufio"
	"encoding/json"
	"fmt"
	"math/big"
	"math/rand"
	"os"
	"path/filepath"
	"strconv"
	"testing"
	"time"

	"github.com/oasisprotocol/curve25519-voi/curve/scalar"
)

var vL16, _ = new(big.Int).SetString("7237005577332262213973186563042994240857116359379907606001950938285454250989", 10)

func vle16(v *big.Int) []byte {
	x := new(big.Int).Mod(v, new(big.Int).Lsh(big.NewInt(1), 256))
	be := x.Bytes()
	out := make([]byte, 32)
	for i := range be {
		out[len(be)-1-i] = be[i]
	}
	return out
}

func TestVerifRecC16(t *testing.T) {
	dir := os.Getenv("VERIF_OUT")
	if dir == "" {
		t.Skip("VERIF_OUT not set")
	}
	seed, _ := strconv.ParseInt(os.Getenv("VERIF_SEED"), 10, 64)
	n, _ := strconv.Atoi(os.Getenv("VERIF_N"))
	if n == 0 {
		n = 500
	}
	cfg := os.Getenv("VERIF_CFG")
	r := rand.New(rand.NewSource(seed))
	var ws []*bufio.Writer
	var fs []*os.File
	for i := 0; i < 16; i++ {
		f, err := os.Create(filepath.Join(dir, fmt.Sprintf("C16l-%s-%02d.ndjson", cfg, i)))
		if err != nil {
			t.Fatal(err)
		}
		fs = append(fs, f)
		ws = append(ws, bufio.NewWriter(f))
	}
	flush := func() {
		for i := range ws {
			ws[i].Flush()
			fs[i].Close()
		}
	}
	seq := 0
	emit := func(e map[string]interface{}) {
		seq++
		e["seq"], e["cfg"] = seq, cfg
		b, _ := json.Marshal(e)
		ws[seq%16].Write(b)
		ws[seq%16].WriteByte('\n')
	}
	ib := func(b []byte) []int {
		o := make([]int, len(b))
		for i, v := range b {
			o[i] = int(v)
		}
		return o
	}
	i128 := func(x Int128) []int {
		b := make([]byte, 16)
		for j := 0; j < 8; j++ {
			b[j] = byte(x.lo >> (8 * uint(j)))
			b[8+j] = byte(uint64(x.hi) >> (8 * uint(j)))
		}
		return ib(b)
	}
	hung := false
	one := func(k *big.Int, unreduced bool) {
		if hung {
			return
		}
		var s *scalar.Scalar
		kb := vle16(k)
		if unreduced {
			kb[31] &= 0x7f
			s, _ = scalar.NewFromBits(kb)
		} else {
			kb = vle16(new(big.Int).Mod(k, vL16))
			s, _ = scalar.NewFromCanonicalBytes(kb)
		}
		type res struct{ d0, d1 Int128 }
		ch := make(chan res, 1)
		go func() {
			d0, d1 := FindShortVector(s)
			ch <- res{d0, d1}
		}()
		select {
		case x := <-ch:
			// the magnitudes and signs as the triple multiplication consumes them
			var s0, s1, t0, t1 scalar.Scalar
			x.d0.Abs().ToScalar(&s0) // magnitude, as curve/scalar_mul_abglsv_pornin.go takes it
			x.d1.Abs().ToScalar(&s1)
			x.d0.ToScalar(&t0) // ToScalar honours the sign: the residue mod L
			x.d1.ToScalar(&t1)
			var b0, b1, c0, c1 [32]byte
			_ = s0.ToBytes(b0[:])
			_ = s1.ToBytes(b1[:])
			_ = t0.ToBytes(c0[:])
			_ = t1.ToBytes(c1[:])
			emit(map[string]interface{}{"op": "fsv", "k": ib(kb), "d0": i128(x.d0), "d1": i128(x.d1), "timeout": false,
				"s0": ib(b0[:]), "s1": ib(b1[:]), "t0": ib(c0[:]), "t1": ib(c1[:]), "neg0": x.d0.IsNegative(), "neg1": x.d1.IsNegative()})
		case <-time.After(90 * time.Second): // the operation takes microseconds; the margin is for a heavily loaded machine
			emit(map[string]interface{}{"op": "fsv", "k": ib(kb), "timeout": true})
			hung = true // the spinning goroutine cannot be stopped; record nothing more, the test returns and the process ends
		}
	}
	big2 := func(e uint) *big.Int { return new(big.Int).Lsh(big.NewInt(1), e) }
	inv := func(q *big.Int) *big.Int { return new(big.Int).ModInverse(q, vL16) }
	// ---- structured family
	for _, v := range []int64{0, 1, 2, 3, 5, 7} {
		one(big.NewInt(v), false)
		one(new(big.Int).Sub(vL16, big.NewInt(v+1)), false)
	}
	half := new(big.Int).Rsh(vL16, 1)
	sq := new(big.Int).Sqrt(vL16)
	for _, d := range []int64{-2, -1, 0, 1, 2} {
		one(new(big.Int).Add(half, big.NewInt(d)), false)
		one(new(big.Int).Add(sq, big.NewInt(d)), false)
	}
	for j := uint(1); j < 253; j++ { // tiny and huge powers of two and neighbours: single huge partial quotient
		one(big2(j), false)
		if j%3 == 0 {
			one(new(big.Int).Add(big2(j), big.NewInt(1)), false)
			one(new(big.Int).Sub(vL16, big2(j)), false)
			one(new(big.Int).Sub(vL16, new(big.Int).Add(big2(j), big.NewInt(5))), false)
		}
		if j%2 == 0 { // 1 / 2^j and 2^j / 3 (mod L): the short vector has a component that is a power of two
			one(inv(big2(j)), false)
			one(new(big.Int).Mul(big2(j), inv(big.NewInt(3))), false)
		}
	}
	// k = r / q mod L with r around 2^128 .. 2^130 and q of 40..90 bits: the reduction stays long in the second pass
	for i := 0; i < 120; i++ {
		rr := new(big.Int).Add(big2(128+uint(r.Intn(3))), big.NewInt(int64(r.Intn(1000))))
		q := new(big.Int).Add(big2(40+uint(r.Intn(51))), big.NewInt(int64(1+r.Intn(1000))))
		one(new(big.Int).Mul(rr, inv(q)), false)
		one(new(big.Int).Mul(q, inv(rr)), false)
	}
	// convergent-structured: k = x / y mod L for small x, y of every size split
	for bx := uint(1); bx < 127; bx += 5 {
		x := new(big.Int).Add(big2(bx), big.NewInt(int64(r.Intn(1000))))
		y := new(big.Int).Add(big2(126-bx), big.NewInt(int64(1+r.Intn(1000))))
		one(new(big.Int).Mul(x, inv(y)), false)
		one(new(big.Int).Neg(new(big.Int).Mul(x, inv(y))), false)
	}
	// unreduced inputs (the scalar type allows any 255-bit value)
	for _, m := range []int64{1, 2, 3, 7, 15} {
		for _, d := range []int64{-1, 0, 1} {
			one(new(big.Int).Add(new(big.Int).Mul(vL16, big.NewInt(m)), big.NewInt(d)), true)
		}
	}
	one(new(big.Int).Sub(big2(255), big.NewInt(1)), true)
	for i := 0; i < n; i++ {
		b := make([]byte, 40)
		r.Read(b)
		one(new(big.Int).SetBytes(b), i%5 == 0)
	}
	flush()
}
