package lattice

import (
	"bufio"
	"encoding/json"
	"os"
	"path/filepath"
	"testing"
)

// TestVerifRecC20 dumps the lattice-reduction constants.
func TestVerifRecC20(t *testing.T) {
	dir := os.Getenv("VERIF_OUT")
	if dir == "" {
		t.Skip("VERIF_OUT not set")
	}
	cfg := os.Getenv("VERIF_CFG")
	f, err := os.Create(filepath.Join(dir, "C20-"+cfg+"-lattice-00.ndjson"))
	if err != nil {
		t.Fatal(err)
	}
	defer f.Close()
	bw := bufio.NewWriter(f)
	defer bw.Flush()
	limbs := func(ls []uint64) [][]int {
		o := make([][]int, len(ls))
		for i, l := range ls {
			o[i] = make([]int, 8)
			for j := 0; j < 8; j++ {
				o[i][j] = int(byte(l >> (8 * uint(j))))
			}
		}
		return o
	}
	es := ellSquared()
	for i, e := range []map[string]interface{}{
		{"op": "nat", "name": "ELL_SQUARED", "w": 64, "lw": 64, "limbs": limbs(es[:])},
		{"op": "nat", "name": "ELL_LOWER_HALF", "w": 64, "lw": 64, "limbs": limbs([]uint64{constELL_LOWER_HALF.lo, uint64(constELL_LOWER_HALF.hi)})},
	} {
		e["seq"], e["cfg"] = i+1, cfg
		b, _ := json.Marshal(e)
		bw.Write(b)
		bw.WriteByte('\n')
	}
}
