//go:build force32bit

package field

func verifBackend() string { return "u32" }

// documented headroom: x[i] < 2^(26+b) (i even), 2^(25+b) (i odd) with 19*x fitting a uint32: b < 1.75
func verifMaxLimbs() []uint64 {
	e := uint64(0xffffffff / 19)
	o := e / 2
	return []uint64{e, o, e, o, e, o, e, o, e, o}
}
func verifLimbBits() []uint { return []uint{26, 25, 26, 25, 26, 25, 26, 25, 26, 25} }
func verifFromLimbs(l []uint64) Element {
	return NewElement2625(uint32(l[0]), uint32(l[1]), uint32(l[2]), uint32(l[3]), uint32(l[4]),
		uint32(l[5]), uint32(l[6]), uint32(l[7]), uint32(l[8]), uint32(l[9]))
}
func verifLimbs(e *Element) []uint64 {
	o := make([]uint64, 10)
	for i, v := range e.inner {
		o[i] = uint64(v)
	}
	return o
}
func verifMulGeneric(o, a, b *Element) bool       { return false }
func verifPow2kGeneric(o, a *Element, k uint) bool { return false }
