package field

// Recorder for property C04, grafted into internal/field at build time with
// `go test -overlay` (this file lives under /verif/overlay, nothing is written
// to the repository). It constructs elements from RAW LIMBS anywhere in the
// documented headroom and logs inputs/outputs of every field operation as
// ndjson for the TLA+ trace specification Trace_C04.

import (
	"bufio"
	"encoding/json"
	"fmt"
	"math/rand"
	"os"
	"path/filepath"
	"strconv"
	"testing"
)

type vev map[string]interface{}

type vwriter struct {
	fs   []*os.File
	ws   []*bufio.Writer
	next int
	seq  int
}

func newVWriter(dir, prefix string, shards int) *vwriter {
	w := &vwriter{}
	for i := 0; i < shards; i++ {
		f, err := os.Create(filepath.Join(dir, fmt.Sprintf("%s-%02d.ndjson", prefix, i)))
		if err != nil {
			panic(err)
		}
		w.fs = append(w.fs, f)
		w.ws = append(w.ws, bufio.NewWriterSize(f, 1<<16))
	}
	return w
}

func (w *vwriter) emit(e vev) {
	w.seq++
	e["seq"] = w.seq
	b, _ := json.Marshal(e)
	w.ws[w.next].Write(b)
	w.ws[w.next].WriteByte('\n')
	w.next = (w.next + 1) % len(w.ws)
}

func (w *vwriter) close() {
	for i := range w.ws {
		w.ws[i].Flush()
		w.fs[i].Close()
	}
}

func vb(b []byte) []int {
	o := make([]int, len(b))
	for i, v := range b {
		o[i] = int(v)
	}
	return o
}

// limbs are logged as 8 little-endian bytes each (TLC integers are 32 bit)
func vl(ls []uint64) [][]int {
	o := make([][]int, len(ls))
	for i, l := range ls {
		var b [8]byte
		for j := 0; j < 8; j++ {
			b[j] = byte(l >> (8 * uint(j)))
		}
		o[i] = vb(b[:])
	}
	return o
}

func velem(e *Element) [][]int { return vl(verifLimbs(e)) }

func vbytes(e *Element) []int {
	var o [32]byte
	_ = e.ToBytes(o[:])
	return vb(o[:])
}

type vgen struct {
	r    *rand.Rand
	max  []uint64 // per-limb admissible maximum (documented headroom)
	bits []uint   // per-limb nominal width
	pool [][]uint64
}

func (g *vgen) corner(mask int) []uint64 {
	l := make([]uint64, len(g.max))
	for i := range l {
		if mask>>uint(i)&1 == 1 {
			l[i] = g.max[i]
		}
	}
	return l
}

func (g *vgen) randLimbs() []uint64 {
	l := make([]uint64, len(g.max))
	mode := g.r.Intn(8)
	for i := range l {
		switch mode {
		case 0: // anywhere in the headroom
			l[i] = g.r.Uint64() % (g.max[i] + 1)
		case 1: // nominal width
			l[i] = g.r.Uint64() & (1<<g.bits[i] - 1)
		case 2: // just above the nominal width (weakly reduced outputs)
			l[i] = (1<<g.bits[i] - 1) + g.r.Uint64()%(1<<14)
		case 3: // near the top of the headroom
			l[i] = g.max[i] - g.r.Uint64()%(1<<10)
		case 4: // sparse
			if g.r.Intn(3) == 0 {
				l[i] = g.r.Uint64() % (g.max[i] + 1)
			}
		case 5: // mixture of 0 / max / nominal max
			switch g.r.Intn(3) {
			case 0:
				l[i] = g.max[i]
			case 1:
				l[i] = 1<<g.bits[i] - 1
			}
		case 6: // single bits
			l[i] = 1 << uint(g.r.Intn(int(g.bits[i])+2))
			if l[i] > g.max[i] {
				l[i] = g.max[i]
			}
		default:
			l[i] = g.r.Uint64() % (g.max[i] + 1)
		}
	}
	return l
}

func (g *vgen) pick() []uint64 {
	if g.r.Intn(3) == 0 {
		return g.pool[g.r.Intn(len(g.pool))]
	}
	return g.randLimbs()
}

// the structured pool: corners of the admissible box, canonicalisation boundaries, carry extremes
func (g *vgen) buildPool() {
	n := len(g.max)
	ncorner := 1 << uint(n)
	if n <= 5 {
		for m := 0; m < ncorner; m++ {
			g.pool = append(g.pool, g.corner(m))
		}
	} else {
		for i := 0; i <= n; i++ { // prefixes, suffixes, singles, alternations
			g.pool = append(g.pool, g.corner((1<<uint(i))-1), g.corner(ncorner-1-((1<<uint(i))-1)))
			if i < n {
				g.pool = append(g.pool, g.corner(1<<uint(i)), g.corner(ncorner-1-(1<<uint(i))))
			}
		}
		g.pool = append(g.pool, g.corner(0x155), g.corner(0x2aa))
		for i := 0; i < 64; i++ {
			g.pool = append(g.pool, g.corner(g.r.Intn(ncorner)))
		}
	}
	// nominal all-ones (value 2^255-1), p, p-1, p+1, 2p, 2p-1, values whose canonical form carries through every limb
	nom := make([]uint64, n)
	for i := range nom {
		nom[i] = 1<<g.bits[i] - 1
	}
	g.pool = append(g.pool, nom)
	for _, d := range []int64{-20, -19, -18, -2, -1, 0} { // 2^255-1+d+1 .. : p-1, p, p+1, ..., 2^255-1
		l := append([]uint64(nil), nom...)
		l[0] = uint64(int64(l[0]) + d)
		g.pool = append(g.pool, l)
		l2 := append([]uint64(nil), l...) // same + p (limb-wise doubled representation)
		for i := range l2 {
			l2[i] += nom[i]
		}
		l2[0] -= 18
		g.pool = append(g.pool, l2)
	}
	for i := 0; i < n; i++ {
		l := make([]uint64, n)
		l[i] = 1
		g.pool = append(g.pool, l)
		l = make([]uint64, n)
		l[i] = 1 << g.bits[i] // one past nominal: must carry into the next limb
		g.pool = append(g.pool, l)
		l = append([]uint64(nil), nom...)
		l[i] = g.max[i]
		g.pool = append(g.pool, l)
	}
	// carry extremes of multiplication by 121666: the low word of limb*121666 within carry range of wrapping
	if n == 5 {
		for i := 0; i < n; i++ {
			for k := uint64(1); k <= 127; k += 3 {
				// ceil(k*2^64/121666) - 1
				q := vdivPow64(k, 121666)
				for _, dlt := range []uint64{0, 1, 2} {
					l := append([]uint64(nil), g.max...)
					if q >= dlt && q-dlt <= g.max[i] {
						l[i] = q - dlt
						g.pool = append(g.pool, l)
					}
				}
			}
		}
	}
}

var vExtremal bool

type vextremal struct {
	op   string
	k    uint
	a, b []uint64
}

func vreadExtremal(path string) []vextremal {
	f, err := os.Open(path)
	if err != nil {
		panic(err)
	}
	defer f.Close()
	var out []vextremal
	sc := bufio.NewScanner(f)
	sc.Buffer(make([]byte, 1<<20), 1<<20)
	limbs := func(v [][]int) []uint64 {
		o := make([]uint64, len(v))
		for i, bs := range v {
			for j, b := range bs {
				o[i] |= uint64(b) << (8 * uint(j))
			}
		}
		return o
	}
	for sc.Scan() {
		var e struct {
			Op   string  `json:"op"`
			K    uint    `json:"k"`
			A, B [][]int
		}
		if json.Unmarshal(sc.Bytes(), &e) != nil {
			continue
		}
		out = append(out, vextremal{e.Op, e.K, limbs(e.A), limbs(e.B)})
	}
	return out
}

// floor(k * 2^64 / d) for small k, d
func vdivPow64(k, d uint64) uint64 {
	// long division of (k << 64) by d
	hi := k
	q := uint64(0)
	rem := hi % d
	// hi/d contributes to bits above 64, which we ignore (k < d)
	for i := 0; i < 64; i++ {
		rem <<= 1
		q <<= 1
		if rem >= d {
			rem -= d
			q |= 1
		}
	}
	return q
}

func TestVerifRecC04(t *testing.T) {
	dir := os.Getenv("VERIF_OUT")
	if dir == "" {
		t.Skip("VERIF_OUT not set")
	}
	seed, _ := strconv.ParseInt(os.Getenv("VERIF_SEED"), 10, 64)
	n, _ := strconv.Atoi(os.Getenv("VERIF_N"))
	shards, _ := strconv.Atoi(os.Getenv("VERIF_SHARDS"))
	if shards == 0 {
		shards = 16
	}
	cfg := os.Getenv("VERIF_CFG")
	w := newVWriter(dir, "C04-"+cfg, shards)
	defer w.close()
	g := &vgen{r: rand.New(rand.NewSource(seed)), max: verifMaxLimbs(), bits: verifLimbBits()}
	g.buildPool()
	bk := verifBackend()
	ev := func(op string) vev { return vev{"op": op, "cfg": cfg, "bk": bk} }

	bin := func(op string, a, b []uint64) {
		ea, eb := verifFromLimbs(a), verifFromLimbs(b)
		// receiver: fresh, or (aliasing) the first operand, the second operand, or one object in all three roles
		var fresh Element
		o, pa, pb := &fresh, &ea, &eb
		switch g.r.Intn(8) {
		case 0:
			o = pa
		case 1:
			o = pb
		case 2:
			b, pb, o = a, pa, pa
		}
		switch op {
		case "add":
			// Add does not reduce: its admissible inputs are those whose sum stays in the headroom
			// (extremal replay: the pair comes from a bound-transfer instance the word-level specification admitted)
			for i := range a {
				if a[i]+b[i] > g.max[i] && !vExtremal {
					return
				}
			}
			o.Add(pa, pb)
		case "sub":
			o.Sub(pa, pb)
		case "mul":
			o.Mul(pa, pb)
		case "mulgeneric":
			if !verifMulGeneric(o, pa, pb) {
				return
			}
		}
		e := ev(op)
		e["a"], e["b"], e["out"], e["outb"] = vl(a), vl(b), velem(o), vbytes(o)
		w.emit(e)
	}
	un := func(op string, a []uint64, k uint) {
		ea := verifFromLimbs(a)
		var fresh Element
		o := &fresh
		if g.r.Intn(4) == 0 {
			o = &ea // aliased receiver
		}
		e := ev(op)
		switch op {
		case "neg":
			o.Neg(&ea)
		case "square":
			o.Square(&ea)
		case "square2":
			o.Square2(&ea)
		case "pow2k":
			o.Pow2k(&ea, k)
			e["k"] = k
		case "pow2kgeneric":
			if !verifPow2kGeneric(o, &ea, k) {
				return
			}
			e["k"] = k
		case "mul121666":
			o.Mul121666(&ea)
		case "invert":
			o.Invert(&ea)
		case "condneg0":
			o.Set(&ea)
			o.ConditionalNegate(0)
		case "condneg1":
			o.Set(&ea)
			o.ConditionalNegate(1)
		case "tobytes":
			o.Set(&ea)
		}
		e["a"], e["out"], e["outb"] = vl(a), velem(o), vbytes(o)
		w.emit(e)
	}
	pred := func(a, b []uint64) {
		ea, eb := verifFromLimbs(a), verifFromLimbs(b)
		e := ev("pred")
		e["a"], e["b"] = vl(a), vl(b)
		e["equal"], e["isneg"], e["iszero"] = ea.Equal(&eb), ea.IsNegative(), ea.IsZero()
		w.emit(e)
		// equal on two different representations of the same value
		var r Element
		r.Mul(&ea, &One)
		e2 := ev("pred")
		e2["a"], e2["b"] = vl(a), velem(&r)
		e2["equal"], e2["isneg"], e2["iszero"] = ea.Equal(&r), ea.IsNegative(), ea.IsZero()
		w.emit(e2)
	}
	sel := func(a, b []uint64, choice int) {
		ea, eb := verifFromLimbs(a), verifFromLimbs(b)
		var s Element
		s.ConditionalSelect(&ea, &eb, choice)
		x, y := ea, eb
		x.ConditionalSwap(&y, choice)
		z := ea
		z.ConditionalAssign(&eb, choice)
		e := ev("cond")
		e["a"], e["b"], e["choice"] = vl(a), vl(b), choice
		e["sel"], e["swapa"], e["swapb"], e["asg"] = velem(&s), velem(&x), velem(&y), velem(&z)
		w.emit(e)
	}
	sqrt := func(u, v []uint64) {
		eu, evv := verifFromLimbs(u), verifFromLimbs(v)
		var fresh Element
		r := &fresh
		switch g.r.Intn(6) {
		case 0:
			r = &eu // the result overwrites an operand
		case 1:
			r = &evv
		}
		_, ok := r.SqrtRatioI(&eu, &evv)
		e := ev("sqrtratio")
		e["a"], e["b"], e["ok"], e["out"], e["outb"] = vl(u), vl(v), ok, velem(r), vbytes(r)
		w.emit(e)
	}

	// ---- extremal replay (C04 word level): the bound vectors of the transfer instances recorded from the shadow
	// execution, used as concrete limbs - the largest intermediates of every operation on every reachable class
	if path := os.Getenv("VERIF_EXTREMAL"); path != "" {
		vExtremal = true
		for _, x := range vreadExtremal(path) {
			switch x.op {
			case "mul":
				bin("mul", x.a, x.b)
				bin("mulgeneric", x.a, x.b)
			case "add":
				bin(x.op, x.a, x.b)
			case "sub":
				// the extremes of (a + k*p) - b: largest sum, and smallest minuend against the largest subtrahend
				zero := make([]uint64, len(x.a))
				bin("sub", x.a, x.b)
				bin("sub", x.a, zero)
				bin("sub", zero, x.b)
			case "square", "square2", "mul121666", "neg", "tobytes":
				un(x.op, x.a, 0)
			case "pow2k":
				un("pow2k", x.a, x.k)
				un("pow2kgeneric", x.a, x.k)
			}
		}
		fmt.Printf("recorded %d events\n", w.seq)
		return
	}
	// ---- exhaustive part: structured pool
	pool := g.pool
	for _, a := range pool {
		for _, op := range []string{"neg", "square", "square2", "mul121666", "tobytes", "condneg1"} {
			un(op, a, 0)
		}
		un("pow2k", a, 1)
		un("pow2kgeneric", a, 2)
		pred(a, pool[g.r.Intn(len(pool))])
	}
	// all corner pairs for the binary operations (the whole 2^5 x 2^5 box on the 64-bit backend)
	nc := 1 << uint(len(g.max))
	if nc > 32 {
		nc = 0
	}
	for i := 0; i < nc; i++ {
		for j := 0; j < nc; j++ {
			for _, op := range []string{"sub", "mul", "mulgeneric"} {
				bin(op, g.corner(i), g.corner(j))
			}
		}
	}
	if n == 0 {
		n = 2000
	}
	ops := []string{"add", "sub", "mul", "mulgeneric", "neg", "square", "square2", "pow2k", "pow2kgeneric", "mul121666",
		"invert", "condneg0", "condneg1", "tobytes", "pred", "cond", "sqrtratio", "setbytes", "setbyteswide", "batchinvert", "chain"}
	ks := []uint{1, 2, 3, 5, 10, 20, 50, 100}
	for i := 0; i < n; i++ {
		op := ops[i%len(ops)]
		switch op {
		case "add", "sub", "mul", "mulgeneric":
			bin(op, g.pick(), g.pick())
		case "pow2k", "pow2kgeneric":
			un(op, g.pick(), ks[g.r.Intn(len(ks))])
		case "invert":
			if i%4 == 0 { // inversion is expensive to validate; sample it
				un(op, g.pick(), 0)
			}
		case "pred":
			pred(g.pick(), g.pick())
		case "cond":
			sel(g.pick(), g.pick(), g.r.Intn(2))
		case "sqrtratio":
			u, v := g.pick(), g.pick()
			switch g.r.Intn(6) {
			case 0:
				u = make([]uint64, len(u))
			case 1:
				v = make([]uint64, len(v))
			case 2: // u = v * s^2: a square ratio
				ev2, es := verifFromLimbs(v), verifFromLimbs(g.pick())
				var t2 Element
				t2.Square(&es)
				t2.Mul(&t2, &ev2)
				u = verifLimbs(&t2)
			case 3: // u = i * v * s^2
				ev2, es := verifFromLimbs(v), verifFromLimbs(g.pick())
				var t2 Element
				t2.Square(&es)
				t2.Mul(&t2, &ev2)
				t2.Mul(&t2, &SQRT_M1)
				u = verifLimbs(&t2)
			}
			sqrt(u, v)
		case "setbytes":
			b := make([]byte, 32)
			g.r.Read(b)
			switch g.r.Intn(5) {
			case 0: // the 19 values in [p, 2^255) and neighbours, both settings of bit 255
				for j := range b {
					b[j] = 0xff
				}
				b[0] = byte(0xed - 3 + g.r.Intn(22))
				b[31] = 0x7f | byte(g.r.Intn(2)<<7)
			case 1:
				b[31] |= 0x80
			case 2:
				for j := range b {
					b[j] = 0xff
				}
			}
			var o Element
			_, err := o.SetBytes(b)
			e := ev("setbytes")
			e["in"], e["ok"], e["out"], e["outb"] = vb(b), err == nil, velem(&o), vbytes(&o)
			w.emit(e)
		case "setbyteswide":
			b := make([]byte, 64)
			g.r.Read(b)
			switch g.r.Intn(6) {
			case 0:
				for j := range b {
					b[j] = 0xff
				}
			case 1:
				b[31] |= 0x80
				b[63] |= 0x80
			case 2:
				for j := 32; j < 64; j++ {
					b[j] = 0xff
				}
			case 3:
				for j := 0; j < 32; j++ {
					b[j] = 0xff
				}
				b[63] &= 0x7f
			}
			var o Element
			_, err := o.SetBytesWide(b)
			e := ev("setbyteswide")
			e["in"], e["ok"], e["out"], e["outb"] = vb(b), err == nil, velem(&o), vbytes(&o)
			w.emit(e)
		case "batchinvert":
			if i%4 != 0 {
				continue
			}
			k := 1 + g.r.Intn(4)
			var ins, outs [][][]int
			var els []*Element
			for j := 0; j < k; j++ {
				l := g.pick()
				if g.r.Intn(5) == 0 {
					l = make([]uint64, len(l))
				}
				ins = append(ins, vl(l))
				x := verifFromLimbs(l)
				els = append(els, &x)
			}
			BatchInvert(els)
			for _, x := range els {
				outs = append(outs, velem(x))
			}
			e := ev("batchinvert")
			e["as"], e["outs"] = ins, outs
			w.emit(e)
		case "chain":
			// a chain of operations feeding outputs back in as inputs (accumulated headroom): logged as
			// its individual steps, so every intermediate is checked
			x, y := verifFromLimbs(g.pick()), verifFromLimbs(g.pick())
			for s := 0; s < 6; s++ {
				lx, ly := verifLimbs(&x), verifLimbs(&y)
				switch g.r.Intn(5) {
				case 0:
					ok := true
					for j := range lx {
						if lx[j]+ly[j] > g.max[j] {
							ok = false
						}
					}
					if ok {
						bin("add", lx, ly)
						x.Add(&x, &y)
					}
				case 1:
					bin("sub", lx, ly)
					x.Sub(&x, &y)
				case 2:
					bin("mul", lx, ly)
					y.Mul(&x, &y)
				case 3:
					un("square2", lx, 0)
					x.Square2(&x)
				case 4:
					un("neg", ly, 0)
					y.Neg(&y)
				}
			}
		default:
			un(op, g.pick(), 0)
		}
	}
	fmt.Printf("recorded %d events\n", w.seq)
}
