//go:build !force32bit

package field

func verifBackend() string { return "u64" }

// documented headroom: inputs < 2^(51+b), b < 3
func verifMaxLimbs() []uint64 {
	m := uint64(1)<<54 - 1
	return []uint64{m, m, m, m, m}
}
func verifLimbBits() []uint { return []uint{51, 51, 51, 51, 51} }
func verifFromLimbs(l []uint64) Element {
	return NewElement51(l[0], l[1], l[2], l[3], l[4])
}
func verifLimbs(e *Element) []uint64 { return append([]uint64(nil), e.inner[:]...) }
func verifMulGeneric(o, a, b *Element) bool {
	feMulGeneric(o, a, b)
	return true
}
func verifPow2kGeneric(o, a *Element, k uint) bool {
	fePow2kGeneric(o, a, k)
	return true
}
