//go:build !force32bit

package field

// Shadow execution of limb bounds for property C04 (word level), grafted into
// internal/field with `go build/test -overlay` together with a mechanically
// rewritten copy of the CURRENT field_u64.go (tools/shadowgen.py adds the
// field `bnd [5]uint64` to Element and one hook call at the top of every
// operation; the bodies are untouched).
//
// Every Element carries an upper bound for each limb.  An operation reads the
// bounds of its operands, computes the bound of its result with the transfer
// functions below and logs each DISTINCT transfer instance (op, bounds in,
// bound out) to $VERIF_SHADOW_OUT.<pid>.ndjson.  The transfer functions here
// are untrusted: FieldWords.tla (Trace_C04w) recomputes precondition and
// result bound of every logged instance.  Two observations bind the shadow to
// the real values: at every operation the concrete limbs of the operands and
// of the result must not exceed their bounds (op "exceed" otherwise).

import (
	"encoding/json"
	"fmt"
	"math/bits"
	"os"
	"sync"
)

type vsB = [5]uint64

const (
	vsMask = uint64(1)<<51 - 1
	vsMax  = ^uint64(0)
)

type vsKey struct {
	op    string
	k     uint
	a, b  vsB
	out   vsB
	extra string
}

var (
	vsMu   sync.RWMutex
	vsSeen = map[vsKey]bool{}
	vsFile *os.File
)

func vsLimbs(b vsB) [][]int {
	o := make([][]int, 5)
	for i, l := range b {
		o[i] = make([]int, 8)
		for j := 0; j < 8; j++ {
			o[i][j] = int(byte(l >> (8 * uint(j))))
		}
	}
	return o
}

func vsLog(op string, k uint, a, b, out vsB, extra string) {
	key := vsKey{op, k, a, b, out, extra}
	vsMu.RLock()
	seen := vsSeen[key]
	vsMu.RUnlock()
	if seen {
		return
	}
	vsMu.Lock()
	defer vsMu.Unlock()
	if vsSeen[key] {
		return
	}
	vsSeen[key] = true
	if vsFile == nil {
		path := os.Getenv("VERIF_SHADOW_OUT")
		if path == "" {
			return
		}
		f, err := os.OpenFile(fmt.Sprintf("%s.%d.ndjson", path, os.Getpid()), os.O_CREATE|os.O_APPEND|os.O_WRONLY, 0o644)
		if err != nil {
			return
		}
		vsFile = f
	}
	e := map[string]interface{}{"op": op, "k": k, "a": vsLimbs(a), "b": vsLimbs(b), "out": vsLimbs(out), "seq": len(vsSeen)}
	if extra != "" {
		e["what"] = extra
	}
	js, _ := json.Marshal(e)
	vsFile.Write(append(js, '\n'))
}

func vsCheck(where string, x *Element) {
	for i := range x.inner {
		if x.inner[i] > x.bnd[i] {
			vsLog("exceed", 0, x.inner, x.bnd, vsB{}, where)
			return
		}
	}
}

// ---- 128-bit helpers with overflow detection (sat = some quantity did not fit; the specification rejects
// such an instance through its precondition, the claimed output bound is then irrelevant)
type vs128 struct{ hi, lo uint64 }

func vsMul(x, y uint64) vs128 { h, l := bits.Mul64(x, y); return vs128{h, l} }
func (x vs128) add(y vs128, sat *bool) vs128 {
	l, c := bits.Add64(x.lo, y.lo, 0)
	h, c2 := bits.Add64(x.hi, y.hi, c)
	if c2 != 0 {
		*sat = true
	}
	return vs128{h, l}
}
func (x vs128) shr51(sat *bool) uint64 {
	if x.hi>>51 != 0 {
		*sat = true
	}
	return x.hi<<13 | x.lo>>51
}
func vsMul64(x, y uint64, sat *bool) uint64 {
	h, l := bits.Mul64(x, y)
	if h != 0 {
		*sat = true
	}
	return l
}
func vsAdd64(x, y uint64, sat *bool) uint64 {
	s, c := bits.Add64(x, y, 0)
	if c != 0 {
		*sat = true
	}
	return s
}

var vsSat = vsB{vsMax, vsMax, vsMax, vsMax, vsMax}

func vsChain(cols [5]vs128, sat *bool) vsB {
	var cin uint64
	var last vs128
	for j := 0; j < 5; j++ {
		last = cols[j].add(vs128{0, cin}, sat)
		cin = last.shr51(sat)
	}
	f0 := vsAdd64(vsMask, vsMul64(cin, 19, sat), sat)
	return vsB{vsMask, vsAdd64(vsMask, f0>>51, sat), vsMask, vsMask, vsMask}
}

func vsMulPost(a, b vsB) vsB {
	sat := false
	var b19 vsB
	for i := 1; i < 5; i++ {
		b19[i] = vsMul64(b[i], 19, &sat)
	}
	var cols [5]vs128
	for j := 0; j < 5; j++ {
		for i := 0; i < 5; i++ {
			var t vs128
			if j >= i {
				t = vsMul(a[i], b[j-i])
			} else {
				t = vsMul(a[i], b19[5+j-i])
			}
			cols[j] = cols[j].add(t, &sat)
		}
	}
	out := vsChain(cols, &sat)
	if sat {
		return vsSat
	}
	return out
}

func vsPowPost(a vsB, k uint) vsB {
	for ; k > 0; k-- {
		s := vsMulPost(a, a)
		if s == a {
			return s
		}
		a = s
	}
	return a
}

func vsM66Post(a vsB) vsB {
	sat := false
	var cols [5]vs128
	for j := range cols {
		cols[j] = vsMul(a[j], 121666)
	}
	out := vsChain(cols, &sat)
	if sat {
		return vsSat
	}
	return out
}

func vsRedPost(l vsB) vsB {
	sat := false
	out := vsB{vsAdd64(vsMask, vsMul64(l[4]>>51, 19, &sat), &sat), vsMask + l[0]>>51, vsMask + l[1]>>51, vsMask + l[2]>>51, vsMask + l[3]>>51}
	if sat {
		return vsSat
	}
	return out
}

// 16*p limb by limb (literal: the hooks do not depend on unexported names of the file they observe)
var vsKP = vsB{36028797018963664, 36028797018963952, 36028797018963952, 36028797018963952, 36028797018963952}

func vsSubPost(a vsB) vsB {
	sat := false
	var t vsB
	for i := range t {
		t[i] = vsAdd64(a[i], vsKP[i], &sat)
	}
	if sat {
		return vsSat
	}
	return vsRedPost(t)
}

func vsPost(op string, a, b vsB, k uint) vsB {
	switch op {
	case "mul":
		return vsMulPost(a, b)
	case "square":
		return vsMulPost(a, a)
	case "pow2k":
		return vsPowPost(a, k)
	case "square2":
		s := vsMulPost(a, a)
		for i := range s {
			if s[i] > vsMax/2 {
				return vsSat
			}
			s[i] *= 2
		}
		return s
	case "mul121666":
		return vsM66Post(a)
	case "add":
		sat := false
		var o vsB
		for i := range o {
			o[i] = vsAdd64(a[i], b[i], &sat)
		}
		if sat {
			return vsSat
		}
		return o
	case "sub":
		return vsSubPost(a)
	case "neg":
		return vsSubPost(vsB{})
	case "join":
		var o vsB
		for i := range o {
			o[i] = a[i]
			if b[i] > o[i] {
				o[i] = b[i]
			}
		}
		return o
	case "setbytes":
		return vsB{vsMask, vsMask, vsMask, vsMask, vsMask}
	case "setbyteswide":
		t := vsMask + 2*19*vsMask
		return vsRedPost(vsB{t + 19 + 2*19*19, t, t, t, t})
	}
	panic("verif shadow: unknown op " + op)
}

// hooks: called first thing in the operation (`defer vsBin(...)()`), the returned function runs when it returns
func vsBin(op string, fe, a, b *Element) func() {
	ab, bb := a.bnd, b.bnd
	vsCheck(op+"/a", a)
	vsCheck(op+"/b", b)
	return func() {
		out := vsPost(op, ab, bb, 0)
		fe.bnd = out
		vsLog(op, 0, ab, bb, out, "")
		vsCheck(op+"/out", fe)
	}
}

func vsUn(op string, fe, t *Element, k uint) func() {
	ab := t.bnd
	vsCheck(op+"/a", t)
	return func() {
		out := vsPost(op, ab, vsB{}, k)
		fe.bnd = out
		vsLog(op, k, ab, vsB{}, out, "")
		vsCheck(op+"/out", fe)
	}
}

func vsSwap(fe, other *Element) func() {
	ab, bb := fe.bnd, other.bnd
	vsCheck("join/a", fe)
	vsCheck("join/b", other)
	return func() {
		out := vsPost("join", ab, bb, 0)
		fe.bnd, other.bnd = out, out
		vsLog("join", 0, ab, bb, out, "")
		vsCheck("join/out", fe)
		vsCheck("join/out2", other)
	}
}

func vsSrc(op string, fe *Element, n, want int) func() {
	return func() {
		if n != want {
			return // length error: the receiver is not written
		}
		out := vsPost(op, vsB{}, vsB{}, 0)
		fe.bnd = out
		vsLog(op, 0, vsB{}, vsB{}, out, "")
		vsCheck(op+"/out", fe)
	}
}

func vsSink(op string, fe *Element) {
	vsCheck(op+"/a", fe)
	vsLog(op, 0, fe.bnd, vsB{}, fe.bnd, "")
}

// NewElement51 constructs a field element from its raw component limbs (constants and tables): the bound is the value.
func NewElement51(l0, l1, l2, l3, l4 uint64) Element {
	e := verifNewElement51raw(l0, l1, l2, l3, l4)
	// the bound is the value, widened to the nominal limb width so that the thousands of table constants form one class
	for i, l := range e.inner {
		if l < vsMask {
			l = vsMask
		}
		e.bnd[i] = l
	}
	return e
}
