// Package verifobs is grafted into the module by the C08 observation overlay (it does not exist in
// the repository). Instrumented code reports every index / slice bound and every branch condition
// here; between Start and Stop the (site, value) stream is folded into a signature.
package verifobs

var (
	on    bool
	h     uint64
	count uint64
)

const prime = 1099511628211

func mix(x uint64) {
	for i := 0; i < 8; i++ {
		h ^= (x >> (8 * uint(i))) & 0xff
		h *= prime
	}
}

// I records an index or slice bound and returns it unchanged.
func I(site int, v int64) int64 {
	if on {
		mix(uint64(site))
		mix(uint64(v))
		count++
	}
	return v
}

// B records a branch condition and returns it unchanged.
func B(site int, c bool) bool {
	if on {
		mix(uint64(site) | 1<<40)
		if c {
			mix(1)
		} else {
			mix(0)
		}
		count++
	}
	return c
}

// Seen records the tag of a tagged switch; it always returns true.
func Seen(site int, v interface{}) bool {
	if on {
		mix(uint64(site) | 2<<40)
		switch x := v.(type) {
		case int:
			mix(uint64(x))
		case uint:
			mix(uint64(x))
		case int64:
			mix(uint64(x))
		case uint64:
			mix(x)
		case int32:
			mix(uint64(x))
		case uint32:
			mix(uint64(x))
		case uint8:
			mix(uint64(x))
		case bool:
			if x {
				mix(1)
			} else {
				mix(0)
			}
		case string:
			for i := 0; i < len(x); i++ {
				mix(uint64(x[i]))
			}
		default:
			// other tag types (pointers, named types): only the fact that the switch ran is recorded
		}
		count++
	}
	return true
}

// Arm is a no-op here (the machine-level variant of this package uses it to skip warm-up runs).
func Arm(on bool) {}

// Machine reports whether signatures are computed outside the process (machine-level variant only).
func Machine() bool { return false }

// Start begins a recording.
func Start() { h, count, on = 14695981039346656037, 0, true }

// Stop ends it and returns the signature and the number of observations.
func Stop() (uint64, uint64) { on = false; return h, count }
