package ecvrf_test

// Driver of the C08 observation build (grafted by overlay; not part of the repository). For each
// constant-time operation it runs the instrumented library under many secrets of one public shape and
// records the signature of the (site, value) stream of indices, slice bounds and branch conditions.

import (
	"bufio"
	"bytes"
	"crypto"
	"encoding/json"
	"math/rand"
	"os"
	"path/filepath"
	"regexp"
	"strconv"
	"strings"
	"testing"

	"github.com/oasisprotocol/curve25519-voi/curve"
	"github.com/oasisprotocol/curve25519-voi/curve/scalar"
	"github.com/oasisprotocol/curve25519-voi/internal/field"
	"github.com/oasisprotocol/curve25519-voi/internal/subtle"
	"github.com/oasisprotocol/curve25519-voi/internal/verifobs"
	"github.com/oasisprotocol/curve25519-voi/primitives/ed25519"
	"github.com/oasisprotocol/curve25519-voi/primitives/ed25519/extra/ecvrf"
	"github.com/oasisprotocol/curve25519-voi/primitives/sr25519"
	"github.com/oasisprotocol/curve25519-voi/primitives/x25519"
)

func secrets(r *rand.Rand, n int) [][]byte {
	var out [][]byte
	rep := func(b byte) []byte { return bytes.Repeat([]byte{b}, 64) }
	out = append(out, rep(0), rep(0xff), rep(0x88), rep(0x77), rep(0x80), rep(0x01), rep(0x0f), rep(0xf0))
	one := make([]byte, 64)
	one[0] = 1
	top := make([]byte, 64)
	top[31], top[63] = 0x80, 0x80
	small := make([]byte, 64)
	small[0], small[32] = 9, 3
	out = append(out, one, top, small)
	// the comparand of the equality operations (cmpKey) and near copies of it: equal, differing in one byte at
	// either end of either half, one half equal and the other random
	for _, at := range []int{-1, 0, 31, 32, 63} {
		b := cmpKey()
		if at >= 0 {
			b[at] ^= 0x04
		}
		out = append(out, b)
	}
	for half := 0; half < 2; half++ {
		b := cmpKey()
		x := make([]byte, 32)
		r.Read(x)
		copy(b[32*half:], x)
		out = append(out, b)
	}
	for len(out) < n {
		b := make([]byte, 64)
		r.Read(b)
		switch len(out) % 4 {
		case 0: // low Hamming weight
			for i := range b {
				b[i] &= b[(i+7)%64] & b[(i+13)%64]
			}
		case 1: // high Hamming weight
			for i := range b {
				b[i] |= b[(i+7)%64] | b[(i+13)%64]
			}
		case 2: // long equal prefix with the previous secret
			copy(b[:40], out[len(out)-1][:40])
		}
		out = append(out, b)
	}
	return out
}

// cmpKey is the fixed value secrets are compared with by the equality operations (a canonical scalar in each half)
func cmpKey() []byte {
	b := make([]byte, 64)
	for i := range b {
		b[i] = byte(7*i + 3)
	}
	b[31] &= 0x0f
	b[63] &= 0x0f
	return b
}

// canon clears the top nibble of each half (public shaping: both halves decode as canonical scalars)
func canon(s []byte) []byte {
	b := append([]byte(nil), s[:64]...)
	b[31] &= 0x0f
	b[63] &= 0x0f
	return b
}

func sc(b []byte) *scalar.Scalar {
	s, _ := scalar.NewFromBits(b[:32])
	return s
}
func fe(b []byte) *field.Element {
	var e field.Element
	_, _ = e.SetBytes(b[:32])
	return &e
}

type op struct {
	name    string
	control bool // a variable-time routine: its signature is EXPECTED to depend on the input (sensitivity control)
	f       func(s []byte)
}

func TestVerifCT(t *testing.T) {
	dir := os.Getenv("VERIF_OUT")
	if dir == "" {
		t.Skip("VERIF_OUT not set")
	}
	seed, _ := strconv.ParseInt(os.Getenv("VERIF_SEED"), 10, 64)
	n, _ := strconv.Atoi(os.Getenv("VERIF_N"))
	if n == 0 {
		n = 24
	}
	cfg := os.Getenv("VERIF_CFG")
	r := rand.New(rand.NewSource(seed))
	f, err := os.Create(filepath.Join(dir, "C08-"+cfg+"-00.ndjson"))
	if err != nil {
		t.Fatal(err)
	}
	defer f.Close()
	w := bufio.NewWriter(f)
	defer w.Flush()

	var P, Q curve.EdwardsPoint
	P.MulBasepoint(curve.ED25519_BASEPOINT_TABLE, scalar.NewFromUint64(12345))
	Q.MulBasepoint(curve.ED25519_BASEPOINT_TABLE, scalar.NewFromUint64(6789))
	var mu curve.MontgomeryPoint
	mu.SetEdwards(&P)
	fixedScalar := scalar.NewFromUint64(0x1234567)
	msg := []byte("constant time")
	phmsg := make([]byte, 64)
	pubFixed := []byte(ed25519.NewKeyFromSeed(make([]byte, 32))[32:])
	_ = pubFixed
	var sink byte

	structuredU := [][]byte{}
	for _, v := range []byte{9, 2, 1, 4} {
		u := make([]byte, 32)
		u[0] = v
		structuredU = append(structuredU, u)
	}
	{
		u := bytes.Repeat([]byte{0xff}, 32) // p - 2 (near the top of the field)
		u[0], u[31] = 0xeb, 0x7f
		structuredU = append(structuredU, u)
		v := make([]byte, 32) // 2^254
		v[31] = 0x40
		structuredU = append(structuredU, v)
	}
	ops := []op{
		{"ed25519.NewKeyFromSeed", false, func(s []byte) { sink ^= ed25519.NewKeyFromSeed(s[:32])[40] }},
		{"ed25519.Sign/pure", false, func(s []byte) { sink ^= ed25519.Sign(ed25519.NewKeyFromSeed(s[:32]), msg)[3] }},
		{"ed25519.Sign/ctx", false, func(s []byte) {
			b, _ := ed25519.NewKeyFromSeed(s[:32]).Sign(nil, msg, &ed25519.Options{Context: "c"})
			sink ^= b[3]
		}},
		{"ed25519.Sign/ph", false, func(s []byte) {
			b, _ := ed25519.NewKeyFromSeed(s[:32]).Sign(nil, phmsg, &ed25519.Options{Hash: crypto.SHA512})
			sink ^= b[3]
		}},
		{"ed25519.Sign/addedRandomness", false, func(s []byte) {
			b, _ := ed25519.NewKeyFromSeed(s[:32]).Sign(bytes.NewReader(s[32:]), msg, &ed25519.Options{AddedRandomness: true})
			sink ^= b[3]
		}},
		{"x25519.ScalarMult", false, func(s []byte) {
			var dst, in, base [32]byte
			copy(in[:], s)
			copy(base[:], mu[:])
			x25519.ScalarMult(&dst, &in, &base)
			sink ^= dst[0]
		}},
		{"x25519.ScalarBaseMult", false, func(s []byte) {
			var dst, in [32]byte
			copy(in[:], s)
			x25519.ScalarBaseMult(&dst, &in)
			sink ^= dst[0]
		}},
		{"x25519.EdPrivateKeyToX25519", false, func(s []byte) { sink ^= x25519.EdPrivateKeyToX25519(ed25519.NewKeyFromSeed(s[:32]))[0] }},
		{"curve.EdwardsPoint.Mul", false, func(s []byte) { var o curve.EdwardsPoint; o.Mul(&P, sc(s)); sink ^= byte(o.Equal(&P)) }},
		{"curve.EdwardsPoint.MulBasepoint", false, func(s []byte) {
			var o curve.EdwardsPoint
			o.MulBasepoint(curve.ED25519_BASEPOINT_TABLE, sc(s))
			sink ^= byte(o.Equal(&P))
		}},
		{"curve.EdwardsPoint.MultiscalarMul", false, func(s []byte) {
			var o curve.EdwardsPoint
			o.MultiscalarMul([]*scalar.Scalar{sc(s), sc(s[32:])}, []*curve.EdwardsPoint{&P, &Q})
			sink ^= byte(o.Equal(&P))
		}},
		{"curve.MontgomeryPoint.Mul", false, func(s []byte) { var o curve.MontgomeryPoint; o.Mul(&mu, sc(s)); sink ^= o[0] }},
		// structured PUBLIC operands (small, sparse, near p): intermediate values then sit at carry boundaries that a
		// random-looking point never reaches
		{"curve.MontgomeryPoint.Mul/structured-u", false, func(s []byte) {
			for _, u := range structuredU {
				var o, in curve.MontgomeryPoint
				copy(in[:], u)
				o.Mul(&in, sc(s))
				sink ^= o[0]
			}
		}},
		{"x25519.X25519/structured-u", false, func(s []byte) {
			for _, u := range structuredU {
				o, _ := x25519.X25519(s[:32], append([]byte(nil), u...))
				if o != nil {
					sink ^= o[0]
				}
			}
		}},
		{"curve.EdwardsPoint.Mul/torsion-and-small", false, func(s []byte) {
			for _, pt := range []*curve.EdwardsPoint{curve.EIGHT_TORSION[1], curve.EIGHT_TORSION[4], curve.ED25519_BASEPOINT_POINT} {
				var o curve.EdwardsPoint
				o.Mul(pt, sc(s))
				sink ^= byte(o.Equal(&P))
			}
		}},
		// many terms: the constant-time routine must stay constant time beyond the size thresholds of its variable-time sibling
		{"big/curve.EdwardsPoint.MultiscalarMul/200", false, func(s []byte) {
			var ss []*scalar.Scalar
			var ps []*curve.EdwardsPoint
			for i := 0; i < 200; i++ {
				b := append([]byte(nil), s[:32]...)
				b[i%32] ^= byte(i)
				ss = append(ss, sc(b))
				if i%2 == 0 {
					ps = append(ps, &P)
				} else {
					ps = append(ps, &Q)
				}
			}
			var o curve.EdwardsPoint
			verifobs.Start()
			o.MultiscalarMul(ss, ps)
			sink ^= byte(o.Equal(&P))
		}},
		{"curve.RistrettoPoint.Mul", false, func(s []byte) {
			var o curve.RistrettoPoint
			o.Mul(curve.RISTRETTO_BASEPOINT_POINT, sc(s))
			sink ^= byte(o.Equal(curve.RISTRETTO_BASEPOINT_POINT))
		}},
		{"curve.CompressedEdwardsY.SetEdwardsPoint", false, func(s []byte) {
			var o curve.EdwardsPoint
			o.MulBasepoint(curve.ED25519_BASEPOINT_TABLE, sc(s))
			verifobs.Start() // only the compression of the secret point is observed
			var c curve.CompressedEdwardsY
			c.SetEdwardsPoint(&o)
			sink ^= c[0]
		}},
		{"scalar.Mul", false, func(s []byte) { var o scalar.Scalar; o.Mul(sc(s), sc(s[32:])); sink ^= byte(o.Equal(fixedScalar)) }},
		{"scalar.Add", false, func(s []byte) { var o scalar.Scalar; o.Add(sc(s), sc(s[32:])); sink ^= byte(o.Equal(fixedScalar)) }},
		{"scalar.Sub", false, func(s []byte) { var o scalar.Scalar; o.Sub(sc(s), sc(s[32:])); sink ^= byte(o.Equal(fixedScalar)) }},
		{"scalar.Neg", false, func(s []byte) { var o scalar.Scalar; o.Neg(sc(s)); sink ^= byte(o.Equal(fixedScalar)) }},
		{"scalar.Reduce", false, func(s []byte) { var o scalar.Scalar; o.Reduce(sc(s)); sink ^= byte(o.Equal(fixedScalar)) }},
		{"scalar.Invert", false, func(s []byte) { var o scalar.Scalar; o.Invert(sc(s)); sink ^= byte(o.Equal(fixedScalar)) }},
		{"scalar.SetBytesModOrderWide", false, func(s []byte) {
			o, _ := scalar.NewFromBytesModOrderWide(s)
			sink ^= byte(o.Equal(fixedScalar))
		}},
		{"scalar.ConditionalSelect", false, func(s []byte) {
			var o scalar.Scalar
			o.ConditionalSelect(sc(s), fixedScalar, int(s[40]&1))
			sink ^= byte(o.Equal(fixedScalar))
		}},
		{"scalar.ToRadix16", false, func(s []byte) { d := sc(s).ToRadix16(); sink ^= byte(d[5]) }},
		{"scalar.Bits", false, func(s []byte) { d := sc(s).Bits(); sink ^= d[5] }},
		{"field.Mul/Square/Add/Sub/Neg", false, func(s []byte) {
			a, b := fe(s), fe(s[32:])
			var o field.Element
			o.Mul(a, b)
			o.Square(&o)
			o.Add(&o, a)
			o.Sub(&o, b)
			o.Neg(&o)
			o.Square2(&o)
			o.Pow2k(&o, 3)
			sink ^= byte(o.IsNegative())
		}},
		{"field.Invert", false, func(s []byte) { var o field.Element; o.Invert(fe(s)); sink ^= byte(o.IsZero()) }},
		{"field.SqrtRatioI", false, func(s []byte) { var o field.Element; _, ok := o.SqrtRatioI(fe(s), fe(s[32:])); sink ^= byte(ok) }},
		{"field.ToBytes/Equal/IsNegative/IsZero", false, func(s []byte) {
			a, b := fe(s), fe(s[32:])
			var o [32]byte
			_ = a.ToBytes(o[:])
			sink ^= o[0] ^ byte(a.Equal(b)) ^ byte(a.IsNegative()) ^ byte(a.IsZero())
		}},
		{"field.ConditionalSelect/Swap/Assign/Negate", false, func(s []byte) {
			a, b := fe(s), fe(s[32:])
			ch := int(s[17] & 1)
			var o field.Element
			o.ConditionalSelect(a, b, ch)
			a.ConditionalSwap(b, ch)
			o.ConditionalAssign(b, ch)
			o.ConditionalNegate(ch)
			sink ^= byte(o.IsZero())
		}},
		{"field.SetBytesWide", false, func(s []byte) { var o field.Element; _, _ = o.SetBytesWide(s); sink ^= byte(o.IsZero()) }},
		{"subtle.ConstantTime*", false, func(s []byte) {
			sink ^= byte(subtle.ConstantTimeCompareBytes(s[:32], s[32:]))
			sink ^= subtle.ConstantTimeSelectByte(int(s[1]&1), s[2], s[3])
		}},
		{"sr25519.ExpandEd25519+Sign", false, func(s []byte) {
			msk, _ := sr25519.NewMiniSecretKeyFromBytes(s[:32])
			kp := msk.ExpandEd25519().KeyPair()
			sg, _ := kp.Sign(bytes.NewReader(s[32:]), sr25519.NewSigningContext([]byte("c")).NewTranscriptBytes(msg))
			b, _ := sg.MarshalBinary()
			sink ^= b[0]
		}},
		{"sr25519.ExpandUniform", false, func(s []byte) {
			msk, _ := sr25519.NewMiniSecretKeyFromBytes(s[:32])
			b, _ := msk.ExpandUniform().MarshalBinary()
			sink ^= b[0]
		}},
		// ---- equality of secrets (documented constant time): the secrets include the comparand and near copies
		{"sr25519.SecretKey.Equal", false, func(s []byte) {
			a, _ := sr25519.NewSecretKeyFromBytes(canon(s))
			b, _ := sr25519.NewSecretKeyFromBytes(cmpKey())
			verifobs.Start()
			if a.Equal(b) {
				sink ^= 1
			}
		}},
		{"sr25519.MiniSecretKey.Equal", false, func(s []byte) {
			a, _ := sr25519.NewMiniSecretKeyFromBytes(s[:32])
			b, _ := sr25519.NewMiniSecretKeyFromBytes(cmpKey()[:32])
			verifobs.Start()
			if a.Equal(b) {
				sink ^= 1
			}
		}},
		{"ed25519.PrivateKey.Equal", false, func(s []byte) {
			a, b := ed25519.PrivateKey(append([]byte(nil), s[:64]...)), ed25519.PrivateKey(cmpKey())
			verifobs.Start()
			if a.Equal(b) {
				sink ^= 1
			}
		}},
		{"scalar.Equal", false, func(s []byte) {
			a, b := sc(canon(s)), sc(cmpKey())
			verifobs.Start()
			sink ^= byte(a.Equal(b))
		}},
		{"curve.*.Equal", false, func(s []byte) {
			var a, b curve.EdwardsPoint
			a.MulBasepoint(curve.ED25519_BASEPOINT_TABLE, sc(canon(s)))
			b.MulBasepoint(curve.ED25519_BASEPOINT_TABLE, sc(cmpKey()))
			var ca, cb curve.CompressedEdwardsY
			ca.SetEdwardsPoint(&a)
			cb.SetEdwardsPoint(&b)
			var ma, mb curve.MontgomeryPoint
			ma.SetEdwards(&a)
			mb.SetEdwards(&b)
			var ra, rb curve.RistrettoPoint
			ra.MulBasepoint(curve.RISTRETTO_BASEPOINT_TABLE, sc(canon(s)))
			rb.MulBasepoint(curve.RISTRETTO_BASEPOINT_TABLE, sc(cmpKey()))
			var cra, crb curve.CompressedRistretto
			cra.SetRistrettoPoint(&ra)
			crb.SetRistrettoPoint(&rb)
			verifobs.Start()
			sink ^= byte(a.Equal(&b) + ca.Equal(&cb) + ma.Equal(&mb) + ra.Equal(&rb) + cra.Equal(&crb))
		}},
		{"ecvrf.Prove", false, func(s []byte) { sink ^= ecvrf.Prove(ed25519.NewKeyFromSeed(s[:32]), msg)[0] }},
		// ---- sensitivity controls: variable-time routines, whose observation MUST depend on the input
		{"control/curve.DoubleScalarMulBasepointVartime", true, func(s []byte) {
			var o curve.EdwardsPoint
			o.DoubleScalarMulBasepointVartime(sc(s), &P, sc(s[32:]))
			sink ^= byte(o.Equal(&P))
		}},
		{"control/scalar.NonAdjacentForm", true, func(s []byte) { d := sc(s).NonAdjacentForm(5); sink ^= byte(d[7]) }},
	}
	secs := secrets(r, n)
	// selections used by the machine-level observation: a subset of operations (regular expression on the name),
	// a subset of the secrets (indices), optionally in reverse order (a signature that moves with the position
	// instead of the secret is an artefact of the process, not of the secret)
	type pick struct {
		i int
		s []byte
	}
	var order []pick
	for i, s := range secs {
		order = append(order, pick{i, s})
	}
	if v := os.Getenv("VERIF_SECRETS"); v != "" {
		order = nil
		for _, f := range strings.Split(v, ",") {
			if i, err := strconv.Atoi(f); err == nil && i < len(secs) {
				order = append(order, pick{i, secs[i]})
			}
		}
	}
	if os.Getenv("VERIF_ORDER") == "rev" {
		for a, b := 0, len(order)-1; a < b; a, b = a+1, b-1 {
			order[a], order[b] = order[b], order[a]
		}
	}
	var opsRe *regexp.Regexp
	if v := os.Getenv("VERIF_OPS"); v != "" {
		opsRe = regexp.MustCompile(v)
	}
	warm := bytes.Repeat([]byte{0x5a}, 64)
	warm[31], warm[63] = 0x0a, 0x0a
	for _, o := range ops {
		if opsRe != nil && !opsRe.MatchString(o.name) {
			continue
		}
		if verifobs.Machine() {
			// warm-up with the markers off: stacks grown, pools filled, lazily built tables built
			verifobs.Arm(false)
			o.f(append([]byte(nil), warm...))
			o.f(append([]byte(nil), warm...))
			verifobs.Arm(true)
		}
		for _, pk := range order {
			i, s := pk.i, pk.s
			if o.name == "scalar.Invert" || o.name == "field.Invert" {
				if bytes.Equal(s[:32], make([]byte, 32)) {
					continue // zero is outside the contract of Invert
				}
			}
			verifobs.Start()
			o.f(append([]byte(nil), s...))
			h, cnt := verifobs.Stop()
			var hb [8]int
			for j := 0; j < 8; j++ {
				hb[j] = int(byte(h >> (8 * uint(j))))
			}
			b, _ := json.Marshal(map[string]interface{}{"op": "ct", "cfg": cfg, "name": o.name, "control": o.control, "secret": i,
				"sig": hb, "n": cnt, "seq": 0})
			w.Write(b)
			w.WriteByte('\n')
		}
	}
	_ = sink
}
