----------------------------- MODULE Cache_ind -----------------------------
(***************************************************************************)
(* Inductive invariant of Cache.tla for Apalache: histories of ANY length  *)
(* (MaxOps is out of the way) for fixed small sets of keys and clients.    *)
(*   apalache-mc check --init=Init    --inv=IndInv --length=0              *)
(*   apalache-mc check --init=IndInit --inv=IndInv --length=1              *)
(*   apalache-mc check --init=IndInit --inv=LRUStepAct --length=1          *)
(***************************************************************************)
EXTENDS Cache, Apalache

CInit == /\ Keys = {1, 2, 3} /\ BadKeys = {9} /\ Capacity = 2 /\ Clients = {101, 102, 103}
         /\ MaxOps = 1000000 /\ Atomic = TRUE

\* larger instance (thorough tier) and the broken variant (self-test: the invariant must NOT be inductive)
CInit4 == /\ Keys = {1, 2, 3, 4} /\ BadKeys = {9} /\ Capacity = 3 /\ Clients = {101, 102, 103}
          /\ MaxOps = 1000000 /\ Atomic = TRUE
CInitRacy == /\ Keys = {1, 2, 3} /\ BadKeys = {9} /\ Capacity = 2 /\ Clients = {101, 102, 103}
             /\ MaxOps = 1000000 /\ Atomic = FALSE

PCs == {"idle", "get", "expand", "put", "putcheck", "putinsert", "done", "fail"}
KeyOrNone == Keys \cup {NoKey}
TypeOK ==
  /\ Len(order) <= Capacity + 1
  /\ \A i \in DOMAIN order : order[i] \in Keys
  /\ index \subseteq Keys
  /\ val \in [Keys -> KeyOrNone]
  /\ pc \in [Clients -> PCs]
  /\ key \in [Clients -> AllKeys \cup {NoKey}]
  /\ exp \in [Clients -> KeyOrNone]
  /\ \A c \in Clients : ops[c] >= 0
  /\ DOMAIN ops = Clients
  /\ ret \in [Clients -> KeyOrNone]

IndInv ==
  /\ TypeOK
  /\ BoundedInv /\ NoDupInv /\ IndexConsistent /\ RightKey
  /\ \A c \in Clients : pc[c] \in {"get", "expand", "put", "putcheck", "putinsert", "done"} => key[c] \in Keys
  /\ \A c \in Clients : pc[c] \in {"put", "putcheck", "putinsert", "done"} => exp[c] = key[c]
  /\ Atomic => \A c \in Clients : pc[c] \notin {"putcheck", "putinsert"}

\* an arbitrary state satisfying the invariant
IndInit ==
  /\ order = Gen(4)
  /\ index = Gen(4)
  /\ val = Gen(4)
  /\ pc = Gen(4)
  /\ key = Gen(4)
  /\ exp = Gen(4)
  /\ ops = Gen(4)
  /\ ret = Gen(4)
  /\ IndInv

\* non-vacuity of IndInit: a full cache with a pending Put of an absent key is among the generated states
\* (checking this "invariant" must FAIL)
NoFullCachePendingPut == ~(Len(order) = Capacity /\ \E c \in Clients : pc[c] = "put" /\ key[c] \notin index)

LRUStepAct == \/ order' = order
              \/ \E k \in Keys : order' = GetOrder(order, k) \/ order' = PutOrder(order, k, Capacity)
=============================================================================
