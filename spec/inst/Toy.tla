-------------------------------- MODULE Toy --------------------------------
(***************************************************************************)
(* Toy instance of the parametric mathematics: prime P = 5 (mod 8), curve  *)
(* -x^2 + y^2 = 1 + D x^2 y^2 with cofactor 8 and prime subgroup order     *)
(* ELL, NB-bit point encodings (NB-1 bits of y, 1 sign bit; 2^(NB-1) > P   *)
(* so non-canonical y exist), SB-bit scalar strings (2^SB > 2 ELL so       *)
(* unreduced scalars exist).  Everything is a native TLC integer, so TLC   *)
(* can enumerate the complete universe.                                    *)
(*   Toy29: 29, 27, 5, 6     Toy61: 61, 2, 7, 7                            *)
(*   Toy109: 109, 11, 13, 8  Toy509: 509, 88, 67, 10                       *)
(***************************************************************************)
EXTENDS Integers, Sequences, SequencesExt, FiniteSets, TLC

CONSTANTS P, D, ELL, NB, SB

Fp == 0..(P - 1)
M(a) == a % P
FAdd(a, b) == (a + b) % P
FSub(a, b) == (a - b) % P
FMul(a, b) == (a * b) % P
FNeg(a) == (0 - a) % P
FZero == 0
FOne == 1
FD == D
FIsNeg(a) == a % 2 = 1
RECURSIVE PowR(_, _)
PowR(a, e) == IF e = 0 THEN 1 ELSE IF e % 2 = 0 THEN PowR((a * a) % P, e \div 2) ELSE (a * PowR(a, e - 1)) % P
InvT == TLCEval([a \in Fp |-> PowR(a, P - 2)])
P58T == TLCEval([a \in Fp |-> PowR(a, (P - 5) \div 8)])
FInv(a) == InvT[a]
FPowP58(a) == P58T[a]
FSqrtM1 == TLCEval(PowR(2, (P - 1) \div 4))
FElems == Fp
IsSquare(a) == \E x \in Fp : (x * x) % P = a

INSTANCE Edwards

N == 8 * ELL
Pts == TLCEval({pt \in Fp \X Fp : OnCurve(pt[1], pt[2])})
AddT == TLCEval([p \in Pts, q \in Pts |-> AffAdd(p, q)])
GAdd(p, q) == AddT[p, q]
GNeg(p) == AffNeg(p)
GSub(p, q) == AddT[p, AffNeg(q)]
GId == AffId
RECURSIVE MulR(_, _)
MulR(n, p) == IF n = 0 THEN GId ELSE GAdd(MulR(n - 1, p), p)
MulT == TLCEval([n \in 0..(N - 1), p \in Pts |-> MulR(n, p)])
\* [n]p for any integer n
GMul(n, p) == MulT[n % N, p]
GSmallOrder(p) == GMul(8, p) = GId
GTorsionFree(p) == GMul(ELL, p) = GId
\* base point: of order exactly ELL (deterministic choice)
Bpt == TLCEval(CHOOSE p \in Pts : GMul(ELL, p) = GId /\ p # GId)
Torsion == TLCEval({p \in Pts : GSmallOrder(p)})

\* encodings: integers 0..2^NB-1; y in the low NB-1 bits, sign on top
YB == 2 ^ (NB - 1)
Strs == 0..(2 ^ NB - 1)
EncYRaw(s) == s % YB
EncSign(s) == s \div YB
MkStr(y, sg) == y + YB * sg
NoPt == <<P, P>>
\* the algorithm (Edwards!Decompress) on strings
DecodeAlg(s) ==
  LET r == Decompress(EncYRaw(s) % P, EncSign(s))
  IN IF r[1] THEN ToAffine(r[2]) ELSE NoPt
DecT == TLCEval([s \in Strs |-> DecodeAlg(s)])
Decode(s) == DecT[s]
Encode(p) == MkStr(p[2], p[1] % 2)
\* canonical: declarative
CanonicalDecl(s) == EncYRaw(s) < P /\ (Decode(s) # NoPt => ~(Decode(s)[1] = 0 /\ EncSign(s) = 1))

\* scalar strings
SStrs == 0..(2 ^ SB - 1)
Bits(n, w) == [i \in 1..w |-> (n \div (2 ^ (i - 1))) % 2]
=============================================================================
