----------------------------- MODULE MerlinReal -----------------------------
(***************************************************************************)
(* Real-scale instance of Strobe.tla / Merlin.tla: cells are bytes, the    *)
(* permutation is Keccak-f[1600] (Keccak.tla), rate 168 then 166.          *)
(***************************************************************************)
EXTENDS Keccak

BXorIn(c, d) == c ^^ d
BSetTo(d) == d
BOutOf(c, d) == d ^^ c
BRunPerm(s) == [s EXCEPT !.st = KeccakFBytes(s.st)]
M == INSTANCE Merlin WITH XorIn <- BXorIn, SetTo <- BSetTo, OutOf <- BOutOf, RunPerm <- BRunPerm

R0 == 168
S0 == [st |-> TLCEval([k \in 1..200 |-> 0]), pos |-> 0, posBegin |-> 0, cur |-> 0, r |-> R0, init |-> FALSE]
NewStrobe(proto) == M!New(S0, R0, proto)
NewTranscript(app) == M!NewTranscript(S0, R0, app)
=============================================================================
