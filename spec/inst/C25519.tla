------------------------------- MODULE C25519 -------------------------------
(***************************************************************************)
(* Real-scale instance: F_p with p = 2^255-19 (BigNat limbs), edwards25519 *)
(* (d = -121665/121666), group order 8 L, 32-byte encodings.  The same     *)
(* module texts (Field, Edwards, ...) that TLC checks exhaustively on the  *)
(* toy instances are instantiated here and evaluated on values recorded    *)
(* from the Go code.                                                       *)
(***************************************************************************)
EXTENDS F25519

FD == TLCEval(FMul(FNeg(FInt(121665)), FInv(FInt(121666))))

INSTANCE Edwards

\* L = 2^252 + 27742317777372353535851937790883648493 (RFC 8032), radix-2^12 limbs
LL == <<1005, 3933, 2652, 1585, 2066, 3429, 1948, 2607, 2526, 3567, 20, 0, 0, 0, 0, 0, 0, 0, 0, 0, 0, 1>>
L8 == Shl(LL, 3)

\* bits of a natural, little endian, exactly n of them
NatBits(a, n) == TLCEval([i \in 1..n |-> Bit(a, i - 1)])
BytesBits(bs) == NatBits(FromBytes(bs), 8 * Len(bs))

\* ---- scalars mod L (canonical = Trim'd/padded value below L; compare with Eq)
\* reduction mod L by folding 2^252 = -c (c = L - 2^252, 125 bits): value = lo - hi*c
LC == <<1005, 3933, 2652, 1585, 2066, 3429, 1948, 2607, 2526, 3567, 20>>
FoldL(s) == LET m == s[2] IN
            IF BitLen(m) <= 252 THEN s
            ELSE SAdd(SInt(s[1], LowBits(m, 252)), SInt(0 - s[1], Mul(Shr(m, 252), LC)))
\* any natural below 2^1000 -> canonical residue in [0, L) as 22 limbs
ModL(v) ==
  LET s == FoldLeft(LAMBDA acc, i : FoldL(acc), SInt(1, v), Idx(12))
  IN Pad(IF SIsNeg(s) THEN Sub(LL, s[2]) ELSE Trim(s[2]), NL)
ScRed(v) == ModL(v)
ScAdd(a, b) == ModL(Add(a, b))
ScSub(a, b) == ModL(Add(a, Sub(LL, ModL(b))))
ScMul(a, b) == ModL(Mul(a, b))
ScNeg(a) == ModL(Sub(LL, ModL(a)))
ScFromBytes(bs) == FromBytes(bs)
ScToBytes(a) == ToBytes(a, 32)
ScIsCanonicalBytes(bs) == Len(bs) = 32 /\ Lt(FromBytes(bs), LL)

\* ---- point strings: 32 bytes
StrY(bs) == FFromBytes(bs)                       \* y, bit 255 masked, reduced mod p
StrSign(bs) == bs[32] \div 128
MkStr(y, sg) == LET b == FToBytes(y) IN [b EXCEPT ![32] = @ + 128 * sg]
\* <<ok, extended point>>
DecodePoint(bs) == Decompress(StrY(bs), StrSign(bs))
EncodePoint(PP) == LET c == Compress(PP) IN MkStr(c[1], c[2])
\* edwards.go IsCanonicalVartime, declaratively: y < p and not (x = 0 with sign bit)
YRaw(bs) == LowBits(FromBytes(bs), 255)
CanonicalStr(bs) ==
  /\ Lt(YRaw(bs), P25519)
  /\ ~(StrSign(bs) = 1 /\ (StrY(bs) = FOne \/ StrY(bs) = FNeg(FOne)))

\* ---- inversion with UNTRUSTED certificates: cs is a sequence of field elements that the recorder claims are
\* inverses the specification will need.  A certificate is used only if it multiplies to one (the inverse is
\* unique), otherwise the addition chain runs: results never depend on the certificates, only the cost does.
InvP(a, cs) ==
  IF a = FZero THEN FZero
  ELSE IF a = FOne THEN FOne
  ELSE LET hit == SelectSeq(cs, LAMBDA c : FMul(a, c) = FOne)
       IN IF hit # <<>> THEN hit[1] ELSE FInv(a)
Certs(e) == IF "invs" \in DOMAIN e THEN [i \in 1..Len(e.invs) |-> FFromBytes(e.invs[i])] ELSE <<>>
EncodePointP(PP, cs) ==
  LET zi == InvP(PP[3], cs)
      x == FMul(PP[1], zi)
      y == FMul(PP[2], zi)
  IN MkStr(y, IF FIsNeg(x) THEN 1 ELSE 0)

\* base point: y = 4/5, x non-negative
BasePt == TLCEval(Decompress(FMul(FInt(4), FInv(FInt(5))), 0)[2])
ScalarMulBytes(sbytes, PP) == ExtMulBits(BytesBits(sbytes), PP)
ScalarMulNat(a, nbits, PP) == ExtMulBits(NatBits(a, nbits), PP)
IsTorsionFree(PP) == ExtIsId(ScalarMulNat(LL, 253, PP))
=============================================================================
