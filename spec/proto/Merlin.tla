------------------------------- MODULE Merlin -------------------------------
(***************************************************************************)
(* Merlin v1.0 transcripts over STROBE (primitives/merlin/merlin.go):      *)
(* every operation is meta-AD of label || le32(length) followed by AD /    *)
(* PRF / KEY; transcript RNGs are built by re-keying a copy with witness   *)
(* bytes and finalising it with external randomness.  Clone is a value     *)
(* copy (a TLA+ value is immutable: clones are independent by construction *)
(* of the specification; the trace specification checks that the code's    *)
(* clones behave that way).                                                *)
(***************************************************************************)
EXTENDS Strobe

LE32(n) == <<n % 256, (n \div 256) % 256, (n \div 65536) % 256, n \div 16777216>>
MerlinLabel == <<77, 101, 114, 108, 105, 110, 32, 118, 49, 46, 48>>   \* "Merlin v1.0"
DomSep == <<100, 111, 109, 45, 115, 101, 112>>                        \* "dom-sep"
RngLabel == <<114, 110, 103>>                                         \* "rng"

AppendMessage(t, label, msg) == AD(MetaAD(MetaAD(t, label, FALSE), LE32(Len(msg)), TRUE), msg, FALSE)
NewTranscript(s0, R0, app) == AppendMessage(New(s0, R0, MerlinLabel), DomSep, app)
\* <<t', bytes>>
ExtractBytes(t, label, n) == PRF(MetaAD(MetaAD(t, label, FALSE), LE32(n), TRUE), n)
RekeyWithWitness(t, label, w) == KEY(MetaAD(MetaAD(t, label, FALSE), LE32(Len(w)), TRUE), w)
Finalize(t, rnd) == KEY(MetaAD(t, RngLabel, FALSE), rnd)
\* <<rng', bytes>>
RngRead(t, n) == PRF(MetaAD(t, LE32(n), FALSE), n)
=============================================================================
