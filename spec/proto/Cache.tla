------------------------------- MODULE Cache -------------------------------
(***************************************************************************)
(* cache.Verifier over a shared LRU cache, N client goroutines.            *)
(* Verifier.upsertPublicKey is three steps because the code releases the   *)
(* mutex between them:  Get (critical section) ; NewExpandedPublicKey      *)
(* (local, outside the lock) ; Put (critical section).  Two clients may    *)
(* therefore expand the same key concurrently and both call Put: the       *)
(* second Put must find the key present and only refresh its recency.      *)
(* Atomic == FALSE models the (wrong) variant in which Put's presence      *)
(* check and its insertion are separate critical sections: TLC then finds  *)
(* the duplicate-entry / lost-index behaviours, which shows the invariants *)
(* are not vacuous.                                                        *)
(***************************************************************************)
EXTENDS Integers, Sequences, FiniteSets, LRU

CONSTANTS
  \* @type: Set(Int);
  Keys,        \* public keys that expand successfully (integers)
  \* @type: Set(Int);
  BadKeys,     \* byte strings that do not decode (NewExpandedPublicKey fails)
  \* @type: Int;
  Capacity,
  \* @type: Set(Int);
  Clients,
  \* @type: Int;
  MaxOps,
  \* @type: Bool;
  Atomic       \* TRUE: Put is one critical section (the code); FALSE: check and insert are separate

NoKey == -1
VARIABLES
  \* @type: Seq(Int);
  order,      \* recency list of the cache (LRU.tla), as the code's list: may hold duplicates if broken
  \* @type: Set(Int);
  index,      \* the Go map: set of keys present
  \* @type: Int -> Int;
  val,        \* [Keys -> key the stored value was expanded from, or NoKey]
  \* @type: Int -> Str;
  pc,
  \* @type: Int -> Int;
  key,
  \* @type: Int -> Int;
  exp,
  \* @type: Int -> Int;
  ops,
  \* @type: Int -> Int;
  ret

vars == <<order, index, val, pc, key, exp, ops, ret>>
AllKeys == Keys \cup BadKeys

Init == /\ order = <<>> /\ index = {} /\ val = [k \in Keys |-> NoKey]
        /\ pc = [c \in Clients |-> "idle"] /\ key = [c \in Clients |-> NoKey]
        /\ exp = [c \in Clients |-> NoKey] /\ ops = [c \in Clients |-> 0] /\ ret = [c \in Clients |-> NoKey]

Begin(c, k) == /\ pc[c] = "idle" /\ ops[c] < MaxOps
               /\ pc' = [pc EXCEPT ![c] = IF k \in BadKeys THEN "fail" ELSE "get"]
               /\ key' = [key EXCEPT ![c] = k] /\ ops' = [ops EXCEPT ![c] = @ + 1]
               /\ UNCHANGED <<order, index, val, exp, ret>>

\* lruCache.Get: one critical section
Get(c) == /\ pc[c] = "get"
          /\ LET k == key[c] IN
             IF k \in index
             THEN /\ order' = MoveToFront(order, k) /\ exp' = [exp EXCEPT ![c] = val[k]]
                  /\ pc' = [pc EXCEPT ![c] = "done"]
             ELSE /\ order' = order /\ exp' = [exp EXCEPT ![c] = NoKey]
                  /\ pc' = [pc EXCEPT ![c] = "expand"]
          /\ UNCHANGED <<index, val, key, ops, ret>>

\* NewExpandedPublicKey, outside the lock
ExpandKey(c) == /\ pc[c] = "expand"
             /\ exp' = [exp EXCEPT ![c] = key[c]]
             /\ pc' = [pc EXCEPT ![c] = IF Atomic THEN "put" ELSE "putcheck"]
             /\ UNCHANGED <<order, index, val, key, ops, ret>>

Insert(c, k) ==
  IF Len(order) = Capacity
  THEN LET victim == order[Len(order)] IN
       /\ order' = <<k>> \o SubSeq(order, 1, Len(order) - 1)
       /\ index' = (index \ {victim}) \cup {k}
       /\ val' = [val EXCEPT ![victim] = NoKey, ![k] = exp[c]]
  ELSE /\ order' = <<k>> \o order
       /\ index' = index \cup {k}
       /\ val' = [val EXCEPT ![k] = exp[c]]

\* lruCache.Put: one critical section (lookup-hit path, or evict + insert)
Put(c) == /\ pc[c] = "put"
          /\ LET k == key[c] IN
             IF k \in index
             THEN /\ order' = MoveToFront(order, k) /\ UNCHANGED <<index, val>>
             ELSE Insert(c, k)
          /\ pc' = [pc EXCEPT ![c] = "done"]
          /\ UNCHANGED <<key, exp, ops, ret>>

\* the broken variant: presence check (through the locking Get) and insertion in separate critical sections
PutCheck(c) == /\ pc[c] = "putcheck"
               /\ LET k == key[c] IN
                  IF k \in index
                  THEN /\ order' = MoveToFront(order, k) /\ pc' = [pc EXCEPT ![c] = "done"]
                  ELSE /\ order' = order /\ pc' = [pc EXCEPT ![c] = "putinsert"]
               /\ UNCHANGED <<index, val, key, exp, ops, ret>>
PutInsert(c) == /\ pc[c] = "putinsert"
                /\ Insert(c, key[c])
                /\ pc' = [pc EXCEPT ![c] = "done"]
                /\ UNCHANGED <<key, exp, ops, ret>>

\* the caller verifies with exp[c]; the decision depends only on which key it was expanded from
Finish(c) == /\ pc[c] \in {"done", "fail"}
             /\ ret' = [ret EXCEPT ![c] = IF pc[c] = "fail" THEN NoKey ELSE exp[c]]
             /\ pc' = [pc EXCEPT ![c] = "idle"]
             /\ UNCHANGED <<order, index, val, key, exp, ops>>

Next == \E c \in Clients : \/ \E k \in AllKeys : Begin(c, k)
                           \/ Get(c) \/ ExpandKey(c) \/ Put(c) \/ PutCheck(c) \/ PutInsert(c) \/ Finish(c)
Spec == Init /\ [][Next]_vars

\* ---- the property C18 (cache half)
BoundedInv == Len(order) <= Capacity
NoDupInv == NoDup(order)
IndexConsistent == index = {order[i] : i \in DOMAIN order}
RightKey == \A k \in Keys : k \in index => val[k] = k
UsesRightKey == \A c \in Clients : pc[c] = "done" => exp[c] = key[c]
\* refinement of the sequential LRU: every step changes the recency list as one LRU operation does
LRUStep == [][\/ order' = order
              \/ \E k \in Keys : order' = GetOrder(order, k) \/ order' = PutOrder(order, k, Capacity)]_order
=============================================================================
