-------------------------------- MODULE Ecvrf --------------------------------
(***************************************************************************)
(* ECVRF (RFC 9381, ECVRF-EDWARDS25519-SHA512-ELL2 shape) over an abstract *)
(* group: the algebra of proving and verifying with the hash functions as  *)
(* parameters of each statement.                                           *)
(*   proof = <<GammaString, c, sString>>                                   *)
(* Admission (verification side): Y canonical, decodable, not of small     *)
(* order; Gamma canonical and decodable; s below the group order.          *)
(***************************************************************************)
CONSTANTS GDecode(_), GCanonical(_), GEncode(_), GAdd(_, _), GNeg(_), GMulS(_, _), GSmallOrder(_), GMul8(_), GBase,
          SBelowL(_), SVal(_)

\* the two points whose encodings enter the challenge hash: U = [s]B - [c]Y, V = [s]H - [c]Gamma
UV(Y, H, Gamma, c, s) == <<GAdd(GMulS(s, GBase), GNeg(GMulS(c, Y))), GAdd(GMulS(s, H), GNeg(GMulS(c, Gamma)))>>
AdmitKey(Ys) == GCanonical(Ys) /\ GDecode(Ys)[1] /\ ~GSmallOrder(GDecode(Ys)[2])
AdmitProof(Gs, ss) == GCanonical(Gs) /\ GDecode(Gs)[1] /\ SBelowL(ss)
\* chal: the challenge the hash returns for <<Y?, H, Gamma, U, V>> (an argument, like k in Ed25519.tla)
Accept(Ys, H, Gs, c, ss, chalOfUV(_)) ==
  /\ AdmitKey(Ys) /\ AdmitProof(Gs, ss)
  /\ chalOfUV(UV(GDecode(Ys)[2], H, GDecode(Gs)[2], c, SVal(ss))) = c
\* the VRF output is a function of cofactor * Gamma only
OutputPoint(Gs) == GMul8(GDecode(Gs)[2])
=============================================================================
