-------------------------------- MODULE H2C --------------------------------
(***************************************************************************)
(* RFC 9380 message expansion over byte strings, with the hash function /  *)
(* XOF as a parameter (an oracle: at real scale a table taken from the     *)
(* trace, at toy scale anything).  The loop structure (b_0, b_1, the       *)
(* strxor chain, the one-byte counter, the oversize-DST path, the abort    *)
(* conditions plus the package's documented refusal of zero-length output) *)
(* is explicit.                                                            *)
(***************************************************************************)
EXTENDS Integers, Sequences, SequencesExt, Bitwise

CONSTANTS H(_),           \* byte string -> digest (BSize bytes)
          XOF(_, _)       \* (byte string, n) -> n output bytes

OversizePrefix == <<72, 50, 67, 45, 79, 86, 69, 82, 83, 73, 90, 69, 45, 68, 83, 84, 45>>     \* "H2C-OVERSIZE-DST-"
I2OSP2(n) == <<n \div 256, n % 256>>
Zeros(n) == [i \in 1..n |-> 0]
StrXor(a, b) == [i \in 1..Len(a) |-> a[i] ^^ b[i]]
K8 == 32      \* 2 * k / 8 for k = 128

\* abort conditions; bsize/rsize: digest and block size of H
XmdAborts(n, bsize) == bsize < K8 \/ n = 0 \/ n > 65535 \/ ((n + bsize - 1) \div bsize) > 255
Xmd(msg, dst0, n, bsize, rsize) ==
  LET dst == IF Len(dst0) > 255 THEN H(OversizePrefix \o dst0) ELSE dst0
      dstp == dst \o <<Len(dst)>>
      ell == (n + bsize - 1) \div bsize
      b0 == H(Zeros(rsize) \o msg \o I2OSP2(n) \o <<0>> \o dstp)
      b1 == H(b0 \o <<1>> \o dstp)
      \* acc = <<b_(i-1), output so far>>
      chain == FoldLeft(LAMBDA acc, i : LET bi == H(StrXor(b0, acc[1]) \o <<i>> \o dstp) IN <<bi, acc[2] \o bi>>,
                        <<b1, b1>>, [i \in 1..(ell - 1) |-> i + 1])
  IN SubSeq(chain[2], 1, n)
XofAborts(n) == n = 0 \/ n > 65535
Xof(msg, dst0, n) ==
  LET dst == IF Len(dst0) > 255 THEN XOF(OversizePrefix \o dst0, K8) ELSE dst0
  IN XOF(msg \o I2OSP2(n) \o dst \o <<Len(dst)>>, n)
=============================================================================
