------------------------------- MODULE Strobe -------------------------------
(***************************************************************************)
(* STROBE-128 duplex construction as internal/strobe/strobe.go implements  *)
(* it: beginOp, duplex (chunked at the rate boundary, running the          *)
(* permutation when the cursor reaches the rate, forced for cipher ops),   *)
(* runF with its three padding bytes, the `more` continuation.             *)
(* Parametric in the state cells and the permutation so that one text is   *)
(*   - evaluated at real scale (cells = bytes, permutation = Keccak-f[1600]*)
(*     written out in Keccak.tla) on recorded transcripts, and             *)
(*   - model-checked at toy scale with an UNINTERPRETED permutation, where *)
(*     cells are symbolic and the state carries its sponge transcript.     *)
(* A state is a record [st, pos, posBegin, cur, r, init, ...].             *)
(***************************************************************************)
EXTENDS Integers, Sequences, SequencesExt

CONSTANTS XorIn(_, _),      \* (cell, byte) -> cell          st ^= data
          SetTo(_),         \* byte -> cell                  overwrite (cipher ops: st ^= (data ^ st))
          OutOf(_, _),      \* (cell, byte) -> output        data ^ st (what a cipher op returns)
          RunPerm(_)        \* state record -> state record with the permutation applied to st

FlagI == 1  FlagA == 2  FlagC == 4  FlagT == 8  FlagM == 16  FlagK == 32
HasC(f) == (f \div 4) % 2 = 1

RunF(s) ==
  LET \* the three pads are applied cumulatively: when pos = r the 0x04 and 0x80 land on the same cell
      p1 == IF s.init THEN [s.st EXCEPT ![s.pos + 1] = XorIn(@, s.posBegin)] ELSE s.st
      p2 == IF s.init THEN [p1 EXCEPT ![s.pos + 2] = XorIn(@, 4)] ELSE p1
      p3 == IF s.init THEN [p2 EXCEPT ![s.r + 2] = XorIn(@, 128)] ELSE p2
  IN [RunPerm([s EXCEPT !.st = p3]) EXCEPT !.pos = 0, !.posBegin = 0]

\* one byte of duplexing; acc = <<state, outputs>>
Duplex(s, data, cBefore, forceF) ==
  LET step(acc, d) ==
        LET t == acc[1]
            cur == t.st[t.pos + 1]
            t1 == [t EXCEPT !.st[t.pos + 1] = IF cBefore THEN SetTo(d) ELSE XorIn(cur, d), !.pos = t.pos + 1]
            t2 == IF t1.pos = t1.r THEN RunF(t1) ELSE t1
        IN <<t2, IF cBefore THEN Append(acc[2], OutOf(cur, d)) ELSE acc[2]>>
      res == FoldLeft(step, <<s, <<>>>>, data)
      s1 == res[1]
  IN <<IF forceF /\ s1.pos # 0 THEN RunF(s1) ELSE s1, res[2]>>

BeginOp(s, f) ==
  LET old == s.posBegin
      s1 == [s EXCEPT !.posBegin = s.pos + 1]
  IN Duplex(s1, <<old, f>>, FALSE, HasC(f))[1]

\* <<state', outputs>>; `more` continues the current operation (flags must match: the code panics otherwise)
Operate(s, f, data, more) ==
  LET s1 == IF more THEN s ELSE [BeginOp(s, f) EXCEPT !.cur = f]
  IN Duplex(s1, data, HasC(f), FALSE)
MoreOK(s, f) == s.cur = f

AD(s, data, more) == Operate(s, FlagA, data, more)[1]
MetaAD(s, data, more) == Operate(s, FlagA + FlagM, data, more)[1]
KEY(s, data) == Operate(s, FlagA + FlagC, data, FALSE)[1]
\* PRF: duplex n zero bytes with cBefore: <<state', the n state cells read>>
PRF(s, n) == Operate(s, FlagI + FlagA + FlagC, [i \in 1..n |-> 0], FALSE)

\* New(proto): rate R0 (= N - sec/4) for the domain block, then R0 - 2
Domain(R0) == <<1, R0, 1, 0, 1, 96, 83, 84, 82, 79, 66, 69, 118, 49, 46, 48, 46, 50>>     \* ... "STROBEv1.0.2"
New(s0, R0, proto) ==
  LET s1 == Duplex([s0 EXCEPT !.r = R0, !.init = FALSE, !.pos = 0, !.posBegin = 0, !.cur = 0], Domain(R0), FALSE, TRUE)[1]
      s2 == [s1 EXCEPT !.r = R0 - 2, !.init = TRUE]
  IN Operate(s2, FlagA + FlagM, proto, FALSE)[1]

\* cursor invariant of every reachable state
CursorOK(s) == s.pos >= 0 /\ s.pos < s.r /\ s.posBegin >= 0 /\ s.posBegin <= s.pos + 1
=============================================================================
