------------------------------ MODULE Ed25519 ------------------------------
EXTENDS Integers
(***************************************************************************)
(* Ed25519 signature verification as the property C01 states it: the       *)
(* declarative acceptance predicate, parametric in the group (toy curves   *)
(* with native integers / edwards25519 with BigNat) and in the five        *)
(* VerifyOptions flags.  The challenge k is an argument: at toy scale the  *)
(* predicate is checked for EVERY value the hash could take, at real scale *)
(* it is SHA-512(dom2 || R || A || M) mod L taken from the trace's hash    *)
(* table (the specification computes the hash input itself).               *)
(*   o = [soA, soR, ncA, ncR, cl]  (AllowSmallOrderA/R, AllowNonCanonical  *)
(*   A/R, CofactorlessVerify)                                              *)
(***************************************************************************)
CONSTANTS GDecode(_),        \* string -> <<ok, point>>
          GCanonical(_),     \* string -> BOOLEAN (y < p and not x = 0 with sign bit)
          GEncode(_),        \* point -> canonical string
          GAdd(_, _), GNeg(_),
          GMulS(_, _),       \* (scalar value, point) -> point
          GSmallOrder(_),    \* [8]P = identity
          GBase,
          SBelowL(_),        \* S string -> BOOLEAN (value < L)
          SVal(_)            \* S string -> scalar value

Incompatible(o) == o.ncR /\ o.cl
\* lenOK: the signature has exactly 64 bytes; As, Rs, Ss: the three 32-byte strings; k: challenge scalar
Accept(o, lenOK, As, Rs, Ss, k) ==
  IF Incompatible(o) THEN "error" ELSE
  /\ lenOK
  /\ SBelowL(Ss)
  /\ LET dA == GDecode(As)
         dR == GDecode(Rs)
     IN /\ dA[1] /\ (o.soA \/ ~GSmallOrder(dA[2])) /\ (o.ncA \/ GCanonical(As))
        /\ dR[1] /\ (o.soR \/ ~GSmallOrder(dR[2])) /\ (o.ncR \/ GCanonical(Rs))
        /\ LET X == GAdd(GMulS(SVal(Ss), GBase), GNeg(GMulS(k, dA[2]))) IN
           IF o.cl THEN GEncode(X) = Rs
           ELSE GSmallOrder(GAdd(X, GNeg(dR[2])))

(***************************************************************************)
(* The verdict as a function of the request's CLASS alone.  A class says,  *)
(* for A = [a]B + [tA]T8 and R = [r]B + [tR]T8 (T8 a generator of E[8]):   *)
(* whether the strings decode / are canonical, whether the prime-order     *)
(* parts vanish (small order), the torsion indices, k mod 8, whether S < L *)
(* and whether the prime-order part of [S]B - [k]A - R vanishes.           *)
(* MC_C01 proves ClassVerdict(ClassOf(x)) = Accept(x) for every toy        *)
(* request; the Go replayer constructs real requests of known class.       *)
(***************************************************************************)
ClassVerdict(o, c) ==
  IF o.ncR /\ o.cl THEN "error" ELSE
  /\ c.lenOK /\ c.sLt
  /\ c.aDec /\ (o.soA \/ ~c.aZero) /\ (o.ncA \/ c.aCanon)
  /\ c.rDec /\ (o.soR \/ ~c.rZero) /\ (o.ncR \/ c.rCanon)
  /\ c.eqPrime
  /\ o.cl => (c.rCanon /\ (c.k8 * c.tA + c.tR) % 8 = 0)

(***************************************************************************)
(* Option validation of Sign / VerifyWithOptions (property C02): a         *)
(* signature is produced only when none of these holds.                    *)
(*   hash in {"none", "sha512", "other"}; voNil: no verify options given    *)
(***************************************************************************)
OptionError(hash, ctxLen, msgLen, privLen, addRand, entropyFails, voNil, vo) ==
  \/ (~voNil /\ Incompatible(vo))
  \/ ctxLen > 255
  \/ hash = "other"
  \/ (hash = "sha512" /\ msgLen # 64)
  \/ privLen # 64
  \/ (addRand /\ entropyFails)

\* the four presets of the package
Default == [soA |-> FALSE, soR |-> TRUE, ncA |-> FALSE, ncR |-> FALSE, cl |-> FALSE]
StdLib == [soA |-> TRUE, soR |-> TRUE, ncA |-> TRUE, ncR |-> FALSE, cl |-> TRUE]
Fips1865 == [soA |-> TRUE, soR |-> TRUE, ncA |-> FALSE, ncR |-> FALSE, cl |-> FALSE]
Zip215 == [soA |-> TRUE, soR |-> TRUE, ncA |-> TRUE, ncR |-> TRUE, cl |-> FALSE]

\* Go's crypto/ed25519 (ref10 behaviour): A may be non-canonical and of any order, S < L, and the
\* canonical encoding of [S]B - [k]A is compared with the R bytes (R itself is never decoded)
StdLibAccept(lenOK, As, Rs, Ss, k) ==
  /\ lenOK /\ SBelowL(Ss)
  /\ LET dA == GDecode(As) IN
     dA[1] /\ GEncode(GAdd(GMulS(SVal(Ss), GBase), GNeg(GMulS(k, dA[2])))) = Rs
\* RFC 8032 5.1.7 with strict decoding (FIPS 186-5): canonical A and R, S < L, cofactored equation
Fips1865Accept(lenOK, As, Rs, Ss, k) ==
  /\ lenOK /\ SBelowL(Ss)
  /\ LET dA == GDecode(As)  dR == GDecode(Rs) IN
     /\ dA[1] /\ GCanonical(As) /\ dR[1] /\ GCanonical(Rs)
     /\ GSmallOrder(GAdd(GAdd(GMulS(SVal(Ss), GBase), GNeg(GMulS(k, dA[2]))), GNeg(dR[2])))
\* ZIP-215: any encoding that decodes, S < L, cofactored equation
Zip215Accept(lenOK, As, Rs, Ss, k) ==
  /\ lenOK /\ SBelowL(Ss)
  /\ LET dA == GDecode(As)  dR == GDecode(Rs) IN
     /\ dA[1] /\ dR[1]
     /\ GSmallOrder(GAdd(GAdd(GMulS(SVal(Ss), GBase), GNeg(GMulS(k, dA[2]))), GNeg(dR[2])))
=============================================================================
