-------------------------------- MODULE LRU --------------------------------
(***************************************************************************)
(* The sequential meaning of the LRU key cache                             *)
(* (primitives/ed25519/extra/cache/lru.go): a recency list of keys, most   *)
(* recent first, of bounded length; each critical section of the code      *)
(* (Get = lock; lookup; move-to-front; unlock.  Put = lock; lookup-hit     *)
(* path, else evict the back if full, insert at the front; unlock) is one  *)
(* atomic transition.  The stored value of key k is "the expanded form of  *)
(* k"; the index (Go map) is the set of keys in the list.                  *)
(***************************************************************************)
EXTENDS Integers, Sequences

\* @type: (Seq(Int), Int) => Bool;
InList(order, k) == \E i \in DOMAIN order : order[i] = k
\* @type: (Seq(Int), Int) => Seq(Int);
Without(order, k) == SelectSeq(order, LAMBDA x : x # k)
\* @type: (Seq(Int), Int) => Seq(Int);
MoveToFront(order, k) == <<k>> \o Without(order, k)
\* result order after Get(k); a miss changes nothing
\* @type: (Seq(Int), Int) => Seq(Int);
GetOrder(order, k) == IF InList(order, k) THEN MoveToFront(order, k) ELSE order
\* @type: (Seq(Int), Int) => Bool;
GetHit(order, k) == InList(order, k)
\* result order after Put(k) with the given capacity
\* @type: (Seq(Int), Int, Int) => Seq(Int);
PutOrder(order, k, cap) ==
  IF InList(order, k) THEN MoveToFront(order, k)
  ELSE IF Len(order) = cap THEN <<k>> \o SubSeq(order, 1, Len(order) - 1)     \* evict the least recently used
  ELSE <<k>> \o order
\* @type: (Seq(Int), Int, Int) => Int;
PutVictim(order, k, cap) == IF ~InList(order, k) /\ Len(order) = cap THEN order[Len(order)] ELSE -1

\* @type: (Seq(Int), Int) => Bool;
Bounded(order, cap) == Len(order) <= cap
\* @type: (Seq(Int)) => Bool;
NoDup(order) == \A i, j \in DOMAIN order : order[i] = order[j] => i = j
=============================================================================
