------------------------------- MODULE Batch -------------------------------
(***************************************************************************)
(* The Ed25519 BatchVerifier (primitives/ed25519/batch_verify.go) as a     *)
(* state machine, shaped like the code: one action per public method, the  *)
(* three sticky flags, key expansion exactly when precomputeOk() says so,  *)
(* the batch fast path and the serial fallback.  An entry is abstract:     *)
(*   keyOk  - the public key bytes expand (NewExpandedPublicKey succeeds)  *)
(*   keyAdm - the key passes the admission checks of the entry's options   *)
(*            (implies keyOk; illegal options count as keyAdm = FALSE and  *)
(*            cl = FALSE, since doInit returns before looking at either)   *)
(*   sigAdm - the signature passes its admission checks (length, S < L, R) *)
(*            adm = keyAdm /\ sigAdm is the code's entry.canBeValid        *)
(*   eqCof  - the cofactored equation holds for the entry                  *)
(*   eqCl   - the cofactorless equation holds (implies eqCof)              *)
(*   cl     - the entry's options ask for cofactorless verification        *)
(* The batch equation with random 128-bit coefficients holds iff every     *)
(* entry's cofactored equation holds (completeness is exact; soundness     *)
(* fails with probability <= 2^-128, which the model treats as never).     *)
(* The DECLARATIVE results (property C09) are stated next to the actions;  *)
(* MC_C09 checks that the machine's outputs equal them on every history.   *)
(***************************************************************************)
EXTENDS Integers, Sequences

CONSTANTS ExpandLimit      \* batchPippengerThreshold = 94: adds expand the key only below this many entries

VARIABLES entries,         \* sequence of [adm, eqCof, eqCl, cl, hasKey]
          anyInvalid, anyCofactorless, anyNotExpanded,
          out              \* last output: <<"none">> | <<"verify", all, vec>> | <<"batchonly", b>>

bvars == <<entries, anyInvalid, anyCofactorless, anyNotExpanded, out>>

\* what single-signature verification returns for the entry
Adm(e) == e.keyAdm /\ e.sigAdm
Single(e) == e.adm /\ (IF e.cl THEN e.eqCl ELSE e.eqCof)
WellFormed(e) == (e.eqCl => e.eqCof) /\ (e.keyAdm => e.keyOk)

Init == /\ entries = <<>> /\ anyInvalid = FALSE /\ anyCofactorless = FALSE /\ anyNotExpanded = FALSE
        /\ out = <<"none">>

PrecomputeOk == ~anyNotExpanded /\ Len(entries) < ExpandLimit

\* AddExpandedWithOptions(key, ...); keyNil: the caller (or a failed expansion) passed no key
AddExpanded(e, keyNil) ==
  /\ entries' = Append(entries, [adm |-> Adm(e) /\ ~keyNil, eqCof |-> e.eqCof, eqCl |-> e.eqCl, cl |-> e.cl, hasKey |-> ~keyNil /\ e.keyAdm])
  /\ anyInvalid' = (anyInvalid \/ ~(Adm(e) /\ ~keyNil))
  /\ anyCofactorless' = (anyCofactorless \/ e.cl)
  \* e.expandedA is only recorded once the key passed its checks; a nil or rejected key leaves it nil
  /\ anyNotExpanded' = (anyNotExpanded \/ ~(~keyNil /\ e.keyAdm))
  /\ out' = <<"none">>

\* Add / AddWithOptions(publicKey bytes, ...)
AddPlain(e) ==
  IF PrecomputeOk THEN AddExpanded(e, ~e.keyOk)
  ELSE /\ entries' = Append(entries, [adm |-> Adm(e), eqCof |-> e.eqCof, eqCl |-> e.eqCl, cl |-> e.cl, hasKey |-> FALSE])
       /\ anyInvalid' = (anyInvalid \/ ~Adm(e))
       /\ anyCofactorless' = (anyCofactorless \/ e.cl)
       /\ anyNotExpanded' = TRUE
       /\ out' = <<"none">>

Force == anyNotExpanded' = TRUE /\ out' = <<"none">> /\ UNCHANGED <<entries, anyInvalid, anyCofactorless>>
Reset == /\ entries' = <<>> /\ anyInvalid' = FALSE /\ anyCofactorless' = FALSE /\ anyNotExpanded' = FALSE
         /\ out' = <<"none">>

\* the batch equation over the current entries
BatchEq == \A i \in 1..Len(entries) : entries[i].eqCof
BatchOnlyImpl == Len(entries) > 0 /\ ~anyInvalid /\ ~anyCofactorless /\ BatchEq
VerifyBatchOnly == out' = <<"batchonly", BatchOnlyImpl>> /\ UNCHANGED <<entries, anyInvalid, anyCofactorless, anyNotExpanded>>

VerifyImplVec ==
  IF ~anyInvalid /\ ~anyCofactorless /\ BatchOnlyImpl
  THEN [i \in 1..Len(entries) |-> entries[i].adm]
  ELSE [i \in 1..Len(entries) |-> entries[i].adm /\ (IF entries[i].cl THEN entries[i].eqCl ELSE entries[i].eqCof)]
VerifyImplAll ==
  IF Len(entries) = 0 THEN FALSE
  ELSE IF ~anyInvalid /\ ~anyCofactorless /\ BatchOnlyImpl THEN TRUE
  ELSE ~anyInvalid /\ \A i \in 1..Len(entries) : VerifyImplVec[i]
Verify == out' = <<"verify", VerifyImplAll, IF Len(entries) = 0 THEN <<>> ELSE VerifyImplVec>>
          /\ UNCHANGED <<entries, anyInvalid, anyCofactorless, anyNotExpanded>>

---------------------------------------------------------------------------
\* DECLARATIVE results (the property)
DeclVec == [i \in 1..Len(entries) |-> Single(entries[i])]
DeclAll == Len(entries) > 0 /\ \A i \in 1..Len(entries) : Single(entries[i])
DeclBatchOnly == Len(entries) > 0 /\ \A i \in 1..Len(entries) : entries[i].adm /\ entries[i].eqCof /\ ~entries[i].cl

OutputsMatch ==
  /\ out[1] = "verify" => out[2] = DeclAll /\ out[3] = DeclVec
  /\ out[1] = "batchonly" => out[2] = DeclBatchOnly
\* the three flags are their defining quantifiers
FlagsExact ==
  /\ anyInvalid = (\E i \in 1..Len(entries) : ~entries[i].adm)
  /\ anyCofactorless = (\E i \in 1..Len(entries) : entries[i].cl)
\* the precomputed multiscalar path dereferences entry.expandedA of EVERY entry
NoNilKeyOnPrecomputedPath ==
  (PrecomputeOk /\ ~anyInvalid) => \A i \in 1..Len(entries) : entries[i].hasKey
=============================================================================
