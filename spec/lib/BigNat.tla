------------------------------ MODULE BigNat ------------------------------
(***************************************************************************)
(* Natural numbers of arbitrary size for TLC (whose integers are 32 bit).  *)
(* A number is a little-endian sequence of limbs in 0..4095 (radix 2^12).  *)
(* Column sums of a 22x22-limb product stay below 2^31.  All loops are     *)
(* FoldLeft (SequencesExt, iterated in Java), never deep recursion.        *)
(* Sequences need not be normalised (high zero limbs are allowed); use     *)
(* Eq/Cmp rather than = unless both sides were produced with the same      *)
(* explicit length.                                                        *)
(***************************************************************************)
EXTENDS Integers, Sequences, SequencesExt, TLC

B12 == 4096
Idx(n) == TLCEval([i \in 1..n |-> i])
MaxI(a, b) == IF a > b THEN a ELSE b
MinI(a, b) == IF a < b THEN a ELSE b
Limb(a, i) == IF i >= 1 /\ i <= Len(a) THEN a[i] ELSE 0
\* NOTE: every function constructor is forced with TLCEval; TLC otherwise keeps it as a
\* lazy FcnLambdaValue and re-evaluates the body on every application (nested: exponential).
Pad(a, n) == TLCEval([i \in 1..n |-> Limb(a, i)])
Zero == <<>>
FromInt(n) == <<n % B12, (n \div B12) % B12, n \div (B12 * B12)>>     \* 0 <= n < 2^31

\* carry-propagate (possibly negative) column values into exactly n limbs;
\* returns <<limbs, carryOut>>; carryOut < 0 signals a negative total.
NormC(cols, n) ==
  LET step(st, i) == LET t == Limb(cols, i) + st[1]
                     IN <<t \div B12, Append(st[2], t % B12)>>
      r == FoldLeft(step, <<0, <<>>>>, Idx(n))
  IN <<r[2], r[1]>>

IsZero(a) == \A i \in 1..Len(a) : a[i] = 0
\* number of significant limbs
SigLen(a) == FoldLeft(LAMBDA acc, i : IF a[i] # 0 THEN i ELSE acc, 0, Idx(Len(a)))
Trim(a) == SubSeq(a, 1, SigLen(a))

\* -1, 0, 1
Cmp(a, b) ==
  LET n == MaxI(Len(a), Len(b))
  IN FoldLeft(LAMBDA acc, i : IF Limb(a, i) < Limb(b, i) THEN -1
                              ELSE IF Limb(a, i) > Limb(b, i) THEN 1 ELSE acc, 0, Idx(n))
Eq(a, b) == Cmp(a, b) = 0
Lt(a, b) == Cmp(a, b) = -1
Le(a, b) == Cmp(a, b) # 1

\* a + b in exactly n limbs (caller guarantees it fits; carry out is dropped)
AddN(a, b, n) == NormC(TLCEval([i \in 1..n |-> Limb(a, i) + Limb(b, i)]), n)[1]
Add(a, b) == AddN(a, b, MaxI(Len(a), Len(b)) + 1)
\* a - b in n limbs; requires a >= b
SubN(a, b, n) == NormC(TLCEval([i \in 1..n |-> Limb(a, i) - Limb(b, i)]), n)[1]
Sub(a, b) == SubN(a, b, MaxI(Len(a), Len(b)))
\* <<limbs, borrow>>  borrow = -1 iff a < b (then limbs = a - b + 4096^n)
SubB(a, b, n) == NormC(TLCEval([i \in 1..n |-> Limb(a, i) - Limb(b, i)]), n)

ColSum(a, b, k) ==
  LET lo == MaxI(1, k + 1 - Len(b))
      hi == MinI(Len(a), k)
  IN FoldLeft(LAMBDA acc, i : acc + a[i] * b[k + 1 - i], 0, TLCEval([i \in 1..(hi - lo + 1) |-> lo + i - 1]))
\* full product; Len(a), Len(b) <= 127 keeps column sums below 2^31
Mul(a, b) ==
  IF Len(a) = 0 \/ Len(b) = 0 THEN <<>>
  ELSE NormC(TLCEval([k \in 1..(Len(a) + Len(b) - 1) |-> ColSum(a, b, k)]), Len(a) + Len(b))[1]
\* a * small (0 <= m < 2^18)
MulSmall(a, m) == NormC(TLCEval([i \in 1..Len(a) |-> a[i] * m]), Len(a) + 2)[1]

Pow2(n) == 2 ^ n
\* shifts by bit counts
Shl(a, k) ==
  LET q == k \div 12
      r == k % 12
      m == Pow2(r)
      sh == NormC(TLCEval([i \in 1..Len(a) |-> a[i] * m]), Len(a) + 1)[1]
  IN TLCEval([i \in 1..q |-> 0]) \o sh
Shr(a, k) ==
  LET q == k \div 12
      r == k % 12
      lo == Pow2(r)
      hi == Pow2(12 - r)
      n == MaxI(Len(a) - q, 0)
  IN TLCEval([i \in 1..n |-> (Limb(a, i + q) \div lo) + (Limb(a, i + q + 1) % lo) * hi])
\* a mod 2^k, as ((k+11) div 12) limbs
LowBits(a, k) ==
  LET n == (k + 11) \div 12
      r == k % 12
  IN TLCEval([i \in 1..n |-> IF i = n /\ r # 0 THEN Limb(a, i) % Pow2(r) ELSE Limb(a, i)])
Bit(a, k) == (Limb(a, (k \div 12) + 1) \div Pow2(k % 12)) % 2       \* k >= 0
\* bits [k, k+w) as a small integer, w <= 18
BitsAt(a, k, w) ==
  LET s == Shr(a, k)
  IN (Limb(s, 1) + B12 * Limb(s, 2)) % Pow2(w)
\* number of significant bits
BitLen(a) ==
  LET n == SigLen(a)
      top == IF n = 0 THEN 0 ELSE a[n]
      tb == FoldLeft(LAMBDA acc, i : IF top >= Pow2(i - 1) THEN i ELSE acc, 0, Idx(12))
  IN IF n = 0 THEN 0 ELSE 12 * (n - 1) + tb
ModSmall(a, m) ==    \* a mod m, 1 <= m < 2^18
  FoldLeft(LAMBDA acc, i : (acc * B12 + a[Len(a) + 1 - i]) % m, 0, Idx(Len(a)))

\* little-endian bytes <-> limbs (3 bytes = 2 limbs)
FromBytes(bs) ==
  LET n == Len(bs)
      g == (n + 2) \div 3
      byte(i) == IF i <= n THEN bs[i] ELSE 0
  IN TLCEval([k \in 1..(2 * g) |->
        LET t == (k + 1) \div 2
            w == byte(3 * t - 2) + 256 * byte(3 * t - 1) + 65536 * byte(3 * t)
        IN IF k % 2 = 1 THEN w % 4096 ELSE w \div 4096])
\* n little-endian bytes of a (a mod 256^n)
ToBytes(a, n) ==
  TLCEval([i \in 1..n |->
     LET t == (i + 2) \div 3            \* group number, bytes 3t-2..3t
         w == Limb(a, 2 * t - 1) + 4096 * Limb(a, 2 * t)
         j == i - (3 * t - 2)
     IN IF j = 0 THEN w % 256 ELSE IF j = 1 THEN (w \div 256) % 256 ELSE w \div 65536])
FromBytesBE(bs) == FromBytes(Reverse(bs))
ToBytesBE(a, n) == Reverse(ToBytes(a, n))
FitsBytes(a, n) == IsZero(Shr(a, 8 * n))

\* a = q*m + r /\ r < m, with q an untrusted certificate
DivModOK(a, m, q, r) == Eq(a, Add(Mul(q, m), r)) /\ Lt(r, m)

(***************************************************************************)
(* Schoolbook division, needed where no certificate is available.          *)
(* Shift-subtract over the bits of a; cost O(bits * limbs).                *)
(***************************************************************************)
DivMod(a, m) ==
  LET nb == BitLen(a)
      n == Len(m) + 1
      step(st, i) ==
        LET k == nb - i                       \* bit index, high to low
            r2 == AddN(Shl(st[2], 1), <<Bit(a, k)>>, n)
            sb == SubB(r2, m, n)
        IN IF sb[2] = 0 THEN <<st[1] \cup {k}, sb[1]>> ELSE <<st[1], r2>>
      res == FoldLeft(step, <<{}, Pad(<<>>, n)>>, Idx(nb))
      qn == (nb + 11) \div 12
  IN <<TLCEval([i \in 1..qn |-> FoldLeft(LAMBDA acc, j : IF (12 * (i - 1) + j - 1) \in res[1] THEN acc + Pow2(j - 1) ELSE acc, 0, Idx(12))]),
       res[2]>>
Mod(a, m) == DivMod(a, m)[2]

(***************************************************************************)
(* Signed integers: <<sign, magnitude>> with sign in {1, -1}; zero is +.   *)
(***************************************************************************)
SInt(s, m) == <<IF IsZero(m) THEN 1 ELSE s, m>>
SFromNat(m) == <<1, m>>
SNeg(x) == SInt(0 - x[1], x[2])
SAdd(x, y) ==
  IF x[1] = y[1] THEN SInt(x[1], Add(x[2], y[2]))
  ELSE IF Cmp(x[2], y[2]) >= 0 THEN SInt(x[1], Sub(x[2], y[2]))
  ELSE SInt(y[1], Sub(y[2], x[2]))
SSub(x, y) == SAdd(x, SNeg(y))
SMul(x, y) == SInt(x[1] * y[1], Mul(x[2], y[2]))
SEq(x, y) == (IsZero(x[2]) /\ IsZero(y[2])) \/ (x[1] = y[1] /\ Eq(x[2], y[2]))
SIsNeg(x) == x[1] = -1 /\ ~IsZero(x[2])
SShl(x, k) == SInt(x[1], Shl(x[2], k))
\* two's-complement bytes (n bytes, little endian) -> signed
SFromBytesTC(bs) ==
  LET n == Len(bs)
      neg == n > 0 /\ bs[n] >= 128
      mag == FromBytes(bs)
  IN IF neg THEN SInt(-1, Sub(Shl(<<1>>, 8 * n), mag)) ELSE SInt(1, mag)
\* x mod m in [0, m)
SMod(x, m) ==
  LET r == Mod(x[2], m)
  IN IF x[1] = 1 \/ IsZero(r) THEN r ELSE Sub(m, r)
=============================================================================
