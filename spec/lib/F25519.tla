------------------------------ MODULE F25519 ------------------------------
(***************************************************************************)
(* The field F_p, p = 2^255 - 19, at real scale on top of BigNat.          *)
(* An element is the canonical representative (< p) as exactly 22 limbs,   *)
(* so TLA+ equality is field equality.  This module is the carrier that    *)
(* spec/inst/C25519.tla hands to the parametric math modules; the toy      *)
(* instances hand them native integers mod a small prime instead.          *)
(***************************************************************************)
EXTENDS BigNat

NL == 22
\* p = 2^255 - 19: limbs 1..21 are 12 bits, limb 22 holds bits 252..254
P25519 == TLCEval([i \in 1..NL |-> IF i = 1 THEN 4077 ELSE IF i = NL THEN 7 ELSE 4095])
N19 == <<19>>

\* any natural (any length) -> canonical 22 limbs
\* fold 2^255 = 19 until below 2^255, then one conditional subtraction
FoldOnce(v) == Add(LowBits(v, 255), Mul(Shr(v, 255), N19))
FRed(v) ==
  LET v1 == IF Len(v) > NL \/ Limb(v, NL) >= 8 THEN FoldOnce(v) ELSE v
      v2 == IF Len(v1) > NL \/ Limb(v1, NL) >= 8 THEN FoldOnce(v1) ELSE v1
      v3 == IF Len(v2) > NL \/ Limb(v2, NL) >= 8 THEN FoldOnce(v2) ELSE v2
      v4 == IF SigLen(v3) > NL \/ Limb(v3, NL) >= 8 THEN FoldOnce(v3) ELSE v3
      w == Pad(v4, NL)
      sb == SubB(w, P25519, NL)
  IN IF sb[2] = 0 THEN sb[1] ELSE w

FZero == Pad(<<>>, NL)
FOne == Pad(<<1>>, NL)
FInt(n) == FRed(FromInt(n))                    \* small non-negative integer
FAdd(a, b) == FRed(AddN(a, b, NL + 1))
FSub(a, b) == LET sb == SubB(a, b, NL) IN IF sb[2] = 0 THEN sb[1] ELSE AddN(sb[1], P25519, NL)
FNeg(a) == FSub(FZero, a)
FMul(a, b) == FRed(Mul(a, b))
FSq(a) == FMul(a, a)
FIsZero(a) == IsZero(a)
FIsNeg(a) == a[1] % 2 = 1                      \* low bit of the canonical value
FPow2k(a, k) == FoldLeft(LAMBDA acc, i : FSq(acc), a, Idx(k))

\* a^(2^250 - 1) and a^11, the shared prefix of both addition chains
Pow22501(a) ==
  LET t0 == FSq(a)
      t1 == FMul(a, FPow2k(t0, 2))             \* a^9
      t2 == FMul(t0, t1)                       \* a^11
      t3 == FMul(t1, FSq(t2))                  \* a^31 = 2^5 - 1
      t4 == FMul(FPow2k(t3, 5), t3)            \* 2^10 - 1
      t5 == FMul(FPow2k(t4, 10), t4)           \* 2^20 - 1
      t6 == FMul(FPow2k(t5, 20), t5)           \* 2^40 - 1
      t7 == FMul(FPow2k(t6, 10), t4)           \* 2^50 - 1
      t8 == FMul(FPow2k(t7, 50), t7)           \* 2^100 - 1
      t9 == FMul(FPow2k(t8, 100), t8)          \* 2^200 - 1
      t10 == FMul(FPow2k(t9, 50), t7)          \* 2^250 - 1
  IN <<t10, t2>>
\* a^(p-2) = a^(2^255 - 21); 0 -> 0
FInv(a) == LET r == Pow22501(a) IN FMul(FPow2k(r[1], 5), r[2])
\* a^((p-5)/8) = a^(2^252 - 3)
FPowP58(a) == LET r == Pow22501(a) IN FMul(FPow2k(r[1], 2), a)

\* bytes
FFromBytes(bs) == FRed(LowBits(FromBytes(bs), 255))         \* 32 bytes, bit 255 ignored
FFromBytesWide(bs) == FRed(FromBytes(bs))                   \* any length, plain integer mod p
FToBytes(a) == ToBytes(a, 32)
\* value of a 32-byte string without masking/reduction is below p
BytesBelowP(bs) == Lt(FromBytes(bs), P25519)

\* sqrt(-1) = 2^((p-1)/4); computed once
FSqrtM1 == TLCEval(LET two == FInt(2)
                       \* (p-1)/4 = 2^253 - 5 ; 2^(2^253-5) = 2^(2^253) / 2^5... use p58: 2^((p-5)/8) then square*2
                       \* (p-1)/4 = 2*((p-5)/8) + 1
                       e == FPowP58(two)
                   IN FMul(FSq(e), two))
=============================================================================
