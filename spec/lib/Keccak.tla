------------------------------- MODULE Keccak -------------------------------
(***************************************************************************)
(* Keccak-f[1600] (FIPS 202) on 25 lanes of 64 bits, each lane four 16-bit *)
(* chunks (low chunk first) so that TLC's 32-bit integers suffice; xor and *)
(* and come from the CommunityModules Bitwise module (Java overrides).     *)
(* The permutation is code under test (internal/strobe/keccakf.go and      *)
(* keccakf_amd64.s), so it is written out here rather than tabulated.      *)
(***************************************************************************)
EXTENDS Integers, Sequences, SequencesExt, Bitwise, TLC

RC == << <<1, 0, 0, 0>>, <<32898, 0, 0, 0>>, <<32906, 0, 0, 32768>>, <<32768, 32768, 0, 32768>>, <<32907, 0, 0, 0>>, <<1, 32768, 0, 0>>, <<32897, 32768, 0, 32768>>, <<32777, 0, 0, 32768>>, <<138, 0, 0, 0>>, <<136, 0, 0, 0>>, <<32777, 32768, 0, 0>>, <<10, 32768, 0, 0>>, <<32907, 32768, 0, 0>>, <<139, 0, 0, 32768>>, <<32905, 0, 0, 32768>>, <<32771, 0, 0, 32768>>, <<32770, 0, 0, 32768>>, <<128, 0, 0, 32768>>, <<32778, 0, 0, 0>>, <<10, 32768, 0, 32768>>, <<32897, 32768, 0, 32768>>, <<32896, 0, 0, 32768>>, <<1, 32768, 0, 0>>, <<32776, 32768, 0, 32768>> >>
\* rho offsets, lane index x + 5y + 1
ROT == <<0, 1, 62, 28, 27, 36, 44, 6, 55, 20, 3, 10, 43, 25, 39, 41, 45, 15, 21, 8, 18, 2, 61, 56, 14>>
\* pi: source lane of each destination lane
PISRC == <<1, 7, 13, 19, 25, 4, 10, 11, 17, 23, 2, 8, 14, 20, 21, 5, 6, 12, 18, 24, 3, 9, 15, 16, 22>>

X4(a, b) == <<a[1] ^^ b[1], a[2] ^^ b[2], a[3] ^^ b[3], a[4] ^^ b[4]>>
NotAnd4(a, b) == <<(65535 - a[1]) & b[1], (65535 - a[2]) & b[2], (65535 - a[3]) & b[3], (65535 - a[4]) & b[4]>>
RotL(a, n) ==
  LET q == n \div 16
      rr == n % 16
      c(i) == a[((i - 1 - q + 8) % 4) + 1]
  IN IF rr = 0 THEN <<c(1), c(2), c(3), c(4)>>
     ELSE LET lo == 2 ^ (16 - rr)
              hi == 2 ^ rr
              f(i) == (c(i) % lo) * hi + (c(((i + 2) % 4) + 1) \div lo)
          IN <<f(1), f(2), f(3), f(4)>>
Round(A, ir) ==
  LET C == TLCEval([x \in 1..5 |-> X4(X4(X4(X4(A[x], A[x + 5]), A[x + 10]), A[x + 15]), A[x + 20])])
      D == TLCEval([x \in 1..5 |-> X4(C[((x + 3) % 5) + 1], RotL(C[(x % 5) + 1], 1))])
      T == TLCEval([i \in 1..25 |-> X4(A[i], D[((i - 1) % 5) + 1])])
      Bp == TLCEval([j \in 1..25 |-> RotL(T[PISRC[j]], ROT[PISRC[j]])])
      E == TLCEval([i \in 1..25 |-> LET x == (i - 1) % 5  y == (i - 1) \div 5
                                    IN X4(Bp[i], NotAnd4(Bp[((x + 1) % 5) + 5 * y + 1], Bp[((x + 2) % 5) + 5 * y + 1]))])
  IN TLCEval([i \in 1..25 |-> IF i = 1 THEN X4(E[1], RC[ir]) ELSE E[i]])
KeccakF(A) == FoldLeft(Round, A, TLCEval([i \in 1..24 |-> i]))
\* 200 bytes <-> 25 lanes
BytesToLanes(st) == TLCEval([i \in 1..25 |-> [c \in 1..4 |-> st[8 * (i - 1) + 2 * (c - 1) + 1] + 256 * st[8 * (i - 1) + 2 * (c - 1) + 2]]])
LanesToBytes(A) == TLCEval([k \in 1..200 |-> LET i == (k - 1) \div 8  b == (k - 1) % 8  ch == A[i + 1][(b \div 2) + 1]
                                             IN IF b % 2 = 0 THEN ch % 256 ELSE ch \div 256])
KeccakFBytes(st) == LanesToBytes(KeccakF(BytesToLanes(st)))
=============================================================================
