----------------------------- MODULE Trace_C03 -----------------------------
(***************************************************************************)
(* C03: recorded group operations and scalar multiplications (every entry  *)
(* point of package curve, points in arbitrary projective scalings,        *)
(* 255-bit unreduced scalars) against the group law of Edwards.tla.        *)
(* A multiplication event lists its distinct points and its terms          *)
(* (scalar, point index); the expected result is sum_j [S_j] P_j with S_j  *)
(* the integer sum of the scalars attached to point j - this keeps events  *)
(* with hundreds of terms (Pippenger thresholds) affordable.               *)
(***************************************************************************)
EXTENDS C25519, TraceBase

FB(bs) == FFromBytes(bs)
PtOf(r) == <<FB(r.x), FB(r.y), FB(r.z), FB(r.t)>>
Pts(e) == [i \in 1..Len(e.pts) |-> PtOf(e.pts[i])]
In255(bs) == LowBits(FromBytes(bs), 255)

GrpOK(e) ==
  LET P == Pts(e)  O == PtOf(e.out) IN
  /\ \A i \in 1..Len(P) : ExtValid(P[i])
  /\ ExtValid(O)
  /\ CASE e.kind = "add" -> ExtEq(O, ExtAdd(P[1], P[2]))
       [] e.kind = "sub" -> ExtEq(O, ExtSub(P[1], P[2]))
       [] e.kind = "neg" -> ExtEq(O, ExtNeg(P[1]))
       [] e.kind = "cof" -> ExtEq(O, ExtMulCofactor(P[1]))
       [] e.kind = "sum" -> ExtEq(O, ExtSum(P))
       [] OTHER -> FALSE

\* integer sum of the scalars attached to distinct point j (0-based index in the event)
ScalarFor(e, j) ==
  FoldLeft(LAMBDA acc, i : IF e.terms[i].p = j THEN Add(acc, In255(e.terms[i].s)) ELSE acc, <<>>, Idx(Len(e.terms)))
Expected(e) ==
  LET P == Pts(e) IN
  FoldLeft(LAMBDA acc, j : LET s == ScalarFor(e, j - 1) IN ExtAdd(acc, ExtMulBits(NatBits(s, BitLen(s)), P[j])),
           ExtId, Idx(Len(P)))
MulOK(e) ==
  LET P == Pts(e)  O == PtOf(e.out) IN
  /\ \A i \in 1..Len(P) : ExtValid(P[i])
  /\ ExtValid(O)
  /\ ExtEq(O, Expected(e))
  /\ e.enc = EncodePointP(O, Certs(e))
  /\ Has(e, "argsok") => e.argsok          \* the caller's argument slices are as they were

\* agreement sweep: every single-scalar entry point returned the encoding of [s]P (computed once here)
AgreeOK(e) ==
  LET P == PtOf(e.pts[1])  s == In255(e.s)
      want == EncodePoint(ExtMulBits(NatBits(s, BitLen(s)), P))
  IN ExtValid(P) /\ Len(e.outs) >= 7 /\ \A i \in 1..Len(e.outs) : e.outs[i] = want

EventOK(e) ==
  CASE e.op = "grp" -> GrpOK(e)
    [] e.op = "agree" -> AgreeOK(e)
    [] e.op = "mul" -> MulOK(e)
    [] OTHER -> FALSE

VARIABLE l
Init == l = 1
Next == /\ l <= Len(Trace)
        /\ l' = l + 1
        /\ EventOK(Trace[l]) \/ PrintT(<<"REJECT", l, Trace[l].seq>>)
Spec == Init /\ [][Next]_l
=============================================================================
