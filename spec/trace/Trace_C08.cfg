SPECIFICATION Spec
POSTCONDITION AllConsumed
INVARIANT Sensitive
CHECK_DEADLOCK FALSE
