----------------------------- MODULE Trace_C16 -----------------------------
(***************************************************************************)
(* C16 at real scale.                                                      *)
(*  fsv - FindShortVector(k) -> (d0, d1) as signed 128-bit integers        *)
(*        (two's complement bytes) recorded inside internal/lattice: the   *)
(*        postcondition Lattice!Short must hold: non-zero, d0 = d1 k       *)
(*        (mod L), d1 invertible; the call must have terminated; the       *)
(*        magnitudes/signs handed to the multiplication (Int128.ToScalar,  *)
(*        IsNegative) must be those of d0, d1.                             *)
(*  tsm - TripleScalarMulBasepointVartime(a, A, b, C) and the expanded     *)
(*        variant, recorded inside package curve on torsion-laden A, C:    *)
(*        the result is a valid point lying in E[8] exactly when           *)
(*        [a]A + [b]B - C does (recomputed with Edwards.tla).              *)
(***************************************************************************)
EXTENDS C25519, TraceBase

In255(bs) == LowBits(FromBytes(bs), 255)
FB(bs) == FFromBytes(bs)
PtOf(r) == <<FB(r.x), FB(r.y), FB(r.z), FB(r.t)>>
\* Short(k, d0, d1) with BigNat signed integers
ShortOK(e) ==
  LET k == In255(e.k)
      d0 == SFromBytesTC(e.d0)
      d1 == SFromBytesTC(e.d1)
      lhs == SMod(d0, LL)
      rhs == ModL(Mul(SMod(d1, LL), ModL(k)))
  IN /\ ~(IsZero(d0[2]) /\ IsZero(d1[2]))
     /\ Eq(lhs, rhs)
     /\ ~IsZero(SMod(d1, LL))
     \* what the multiplication consumes: |d| as a scalar (Abs().ToScalar) and the sign; ToScalar itself = d mod L
     /\ Eq(FromBytes(e.s0), d0[2]) /\ Eq(FromBytes(e.s1), d1[2])
     /\ Eq(FromBytes(e.t0), SMod(d0, LL)) /\ Eq(FromBytes(e.t1), SMod(d1, LL))
     /\ e.neg0 = SIsNeg(d0) /\ e.neg1 = SIsNeg(d1)
TsmOK(e) ==
  LET A == PtOf(e.A)  C == PtOf(e.C)  O == PtOf(e.out)  OX == PtOf(e.outx)
      a == In255(e.a)  b == In255(e.b)
      W == ExtSub(ExtAdd(ExtMulBits(NatBits(a, 255), A), ExtMulBits(NatBits(b, 255), BasePt)), C)
      want == ExtIsSmallOrder(W)
  IN /\ ExtValid(A) /\ ExtValid(C) /\ ExtValid(O) /\ ExtValid(OX)
     /\ want = e.holds                          \* the recorder's construction agrees with the specification
     /\ ExtIsSmallOrder(O) = want /\ ExtIsSmallOrder(OX) = want
     /\ e.small = want /\ e.smallx = want
     \* the same call with the receiver aliasing A, C (plain) and C (expanded)
     /\ Has(e, "smallRecvA") => (e.smallRecvA = want /\ e.smallRecvC = want /\ e.smallRecvCx = want)

EventOK(e) ==
  CASE e.op = "fsv" -> ~e.timeout /\ ShortOK(e)
    [] e.op = "tsm" -> ~e.timeout /\ TsmOK(e)
    [] OTHER -> FALSE

VARIABLE l
Init == l = 1
Next == /\ l <= Len(Trace)
        /\ l' = l + 1
        /\ EventOK(Trace[l]) \/ PrintT(<<"REJECT", l, Trace[l].seq>>)
Spec == Init /\ [][Next]_l
=============================================================================
