----------------------------- MODULE Trace_C20 -----------------------------
(***************************************************************************)
(* C20: every embedded constant and every table entry, dumped by in-package*)
(* overlay tests on each backend, must equal its DEFINITION, recomputed    *)
(* here from first principles (d = -121665/121666, B = (x, 4/5), L, ...).  *)
(* Square-root constants are defined by their equation plus the sign       *)
(* (parity of the canonical value) documented in RFC 9496 / dalek.         *)
(***************************************************************************)
EXTENDS C25519, TraceBase

\* Ristretto.tla (RFC 9496) with the specification's own square roots
Rist == INSTANCE Ristretto WITH SqrtRI <- LAMBDA u, v : SqrtRatioI(u, v),
                                InvSqrtAMinusD <- TLCEval(SqrtRatioI(FOne, FSub(FNeg(FOne), FD))[2]),
                                SqrtAdMinusOne <- TLCEval(FNeg(SqrtRatioI(FSub(FNeg(FD), FOne), FOne)[2]))
FB(bs) == FFromBytes(bs)
CanonFE(bs) == BytesBelowP(bs) /\ bs[32] < 128
A486662 == FInt(486662)
FTwoC == FInt(2)
\* name -> predicate on the canonical field value x
FeOK(name, x) ==
  CASE name = "EDWARDS_D" -> x = FD
    [] name = "EDWARDS_D2" -> x = FAdd(FD, FD)
    [] name \in {"MINUS_ONE", "FIELD_MINUS_ONE"} -> x = FNeg(FOne)
    [] name = "ONE" -> x = FOne
    [] name = "FIELD_TWO" -> x = FTwoC
    [] name = "ONE_MINUS_EDWARDS_D_SQUARED" -> x = FSub(FOne, FSq(FD))
    [] name = "EDWARDS_D_MINUS_ONE_SQUARED" -> x = FSq(FSub(FD, FOne))
    [] name = "SQRT_AD_MINUS_ONE" -> FSq(x) = FSub(FNeg(FD), FOne) /\ FIsNeg(x)            \* a = -1; RFC 9496 value is odd
    [] name = "INVSQRT_A_MINUS_D" -> FMul(FSq(x), FSub(FNeg(FOne), FD)) = FOne /\ ~FIsNeg(x) \* RFC 9496 value is even
    [] name = "SQRT_M1" -> x = FSqrtM1 /\ FSq(x) = FNeg(FOne) /\ ~FIsNeg(x)
    [] name = "MONTGOMERY_A" -> x = A486662
    [] name = "MONTGOMERY_NEG_A" -> x = FNeg(A486662)
    [] name = "MONTGOMERY_A_SQUARED" -> x = FSq(A486662)
    [] name = "MONTGOMERY_SQRT_NEG_A_PLUS_TWO" -> FSq(x) = FNeg(FAdd(A486662, FTwoC)) /\ ~FIsNeg(x)
    [] name = "MONTGOMERY_U_FACTOR" -> x = FNeg(FMul(FTwoC, FSqrtM1))
    [] name = "MONTGOMERY_V_FACTOR" -> FSq(x) = FNeg(FMul(FTwoC, FSqrtM1)) /\ ~FIsNeg(x)
    [] OTHER -> FALSE

\* ---- expected tables, computed once per TLC process
B128 == TLCEval(ExtMulPow2(BasePt, 128))
\* rows P_i = [256^i]B, i = 0..31, then multiples (j+1) P_i, j = 0..7
BaseRowPts == TLCEval(FoldLeft(LAMBDA acc, i : Append(acc, ExtMulPow2(acc[Len(acc)], 8)), <<BasePt>>, Idx(31)))
Multiples(Q, n) == FoldLeft(LAMBDA acc, j : Append(acc, ExtAdd(acc[Len(acc)], Q)), <<Q>>, Idx(n - 1))
BaseTable == TLCEval([i \in 1..32 |-> Multiples(BaseRowPts[i], 8)])
OddMultiples(Q, n) == LET Q2 == ExtDbl(Q) IN FoldLeft(LAMBDA acc, j : Append(acc, ExtAdd(acc[Len(acc)], Q2)), <<Q>>, Idx(n - 1))
OddB == TLCEval(OddMultiples(BasePt, 64))
OddB128 == TLCEval(OddMultiples(B128, 64))
Expected(tbl, i, j) ==
  CASE tbl \in {"base", "vbase"} -> BaseTable[i + 1][j + 1]
    [] tbl \in {"oddB", "voddB"} -> OddB[j + 1]
    [] tbl \in {"oddB128", "voddB128"} -> OddB128[j + 1]
\* affine Niels (y+x, y-x, 2dxy) of the point E = (X:Y:Z:T), without inversion
NielsOK(E, ypx, ymx, xy2d) ==
  /\ FMul(ypx, E[3]) = FAdd(E[2], E[1])
  /\ FMul(ymx, E[3]) = FSub(E[2], E[1])
  /\ FMul(xy2d, E[3]) = FMul(E[4], FAdd(FD, FD))
PtOf(e) == <<FB(e.x), FB(e.y), FB(e.z), FB(e.t)>>
\* the eight 8-torsion encodings (the well-known small-order list)

NatOf(e) == FoldLeft(LAMBDA acc, i : Add(acc, Shl(FromBytes(e.limbs[i]), e.w * (i - 1))), <<>>, Idx(Len(e.limbs)))
NatOK(e) ==
  LET v == NatOf(e) IN
  CASE e.name \in {"L", "ORDER_WORDS"} -> Eq(v, LL)
    [] e.name = "R" -> Eq(v, ModL(Shl(<<1>>, e.lw * Len(e.limbs))))
    [] e.name = "RR" -> LET r == ModL(Shl(<<1>>, e.lw * Len(e.limbs))) IN Eq(v, ModL(Mul(r, r)))
    [] e.name = "LFACTOR" -> IsZero(LowBits(Add(Mul(LL, v), <<1>>), e.lw)) /\ BitLen(v) <= e.lw
    [] e.name = "ELL_SQUARED" -> Eq(v, Mul(LL, LL))
    [] e.name = "ELL_LOWER_HALF" -> Eq(v, LowBits(LL, 128))
    [] OTHER -> FALSE

VARIABLE l
EventOK(e) ==
  CASE e.op = "fresh" -> e.ok = TRUE      \* values handed to the caller are the caller's own (vfresh in the recorder)
    [] e.op = "fe" -> CanonFE(e.val) /\ FeOK(e.name, FB(e.val))
    [] e.op = "pt" ->
         LET Q == PtOf(e) IN
         /\ ExtValid(Q)
         /\ CASE e.name \in {"BASEPOINT", "TABLE_BASEPOINT", "RISTRETTO_BASEPOINT"} -> ExtEq(Q, BasePt)
              [] e.name = "B_SHL_128" -> ExtEq(Q, B128)
              [] OTHER -> FALSE
    [] e.op = "torsion" ->
         \* EIGHT_TORSION[i] = [i]T for a point T of exact order 8: all eight distinct, orders 1,8,4,8,2,8,4,8
         LET T == [i \in 1..Len(e.pts) |-> PtOf(e.pts[i])] IN
         /\ Len(e.pts) = 8
         /\ \A i \in 1..8 : ExtValid(T[i]) /\ ExtIsSmallOrder(T[i])
         /\ ExtIsId(T[1])
         /\ ~ExtIsId(ExtMulPow2(T[2], 2))                                   \* T[2] has order exactly 8
         /\ \A i \in 3..8 : ExtEq(T[i], ExtAdd(T[i - 1], T[2]))
         /\ \A i \in 1..8 : \A j \in (i + 1)..8 : ~ExtEq(T[i], T[j])
    [] e.op = "str" ->
         CASE e.name = "ED25519_BASEPOINT_COMPRESSED" -> e.val = EncodePoint(BasePt)
           [] e.name = "X25519_BASEPOINT" -> e.val = ToBytes(<<9>>, 32)
           [] e.name = "BASEPOINT_ORDER" -> e.val = ToBytes(LL, 32)
           [] e.name = "RISTRETTO_BASEPOINT_COMPRESSED" -> e.val = FToBytes(Rist!EncodeField(BasePt))   \* RFC 9496 encoding of B
           [] OTHER -> FALSE
    [] e.op = "niels" -> /\ e.i \in 0..31 /\ e.j \in 0..63
                         /\ NielsOK(Expected(e.name, e.i, e.j), FB(e.ypx), FB(e.ymx), FB(e.xy2d))
                         /\ e.src = "packed" => (e.ypx[32] < 128 /\ e.ymx[32] < 128 /\ e.xy2d[32] < 128)
    [] e.op = "vpt" -> LET Q == PtOf(e) IN ExtValid(Q) /\ ExtEq(Q, Expected(e.name, e.i, e.j))
    [] e.op = "nat" -> NatOK(e)
    [] e.op = "veclive" -> TRUE
    [] OTHER -> FALSE

Init == l = 1
Next == /\ l <= Len(Trace)
        /\ l' = l + 1
        /\ EventOK(Trace[l]) \/ PrintT(<<"REJECT", l, Trace[l].seq>>)
Spec == Init /\ [][Next]_l
=============================================================================
