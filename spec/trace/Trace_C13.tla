----------------------------- MODULE Trace_C13 -----------------------------
(***************************************************************************)
(* C13: operation histories recorded from primitives/merlin (public API)   *)
(* and from internal/strobe (in-package overlay: raw STROBE operations     *)
(* with the `more` continuation, cursor state after every call, and the    *)
(* permutation alone) must be behaviours of Merlin.tla / Strobe.tla /      *)
(* Keccak.tla: every extracted byte equal, clones independent.             *)
(* objs: the live objects (transcripts, RNG builders, RNGs, raw strobes)   *)
(* by id; a clone is a new id holding a copy of the value.                 *)
(***************************************************************************)
EXTENDS MerlinReal, TraceBase

VARIABLES l, objs
Ev == Trace[l]
Set(id, v) == objs' = [objs EXCEPT ![id] = v]
Push(v) == objs' = Append(objs, v)
Obj(id) == objs[id]
Cursor(s, e) == e.pos = s.pos /\ e.posBegin = s.posBegin /\ e.cur = s.cur

Reset == Ev.op = "reset" /\ objs' = <<>>
New_ == Ev.op = "new" /\ Ev.id = Len(objs) + 1 /\ Push(NewTranscript(Ev.label))
Append_ == Ev.op = "append" /\ Set(Ev.t, M!AppendMessage(Obj(Ev.t), Ev.label, Ev.data))
Extract_ == /\ Ev.op = "extract"
            /\ LET r == M!ExtractBytes(Obj(Ev.t), Ev.label, Len(Ev.out)) IN r[2] = Ev.out /\ Set(Ev.t, r[1])
Clone_ == Ev.op \in {"clone", "buildrng"} /\ Ev.id = Len(objs) + 1 /\ Push(Obj(Ev.t))
Rekey_ == Ev.op = "rekey" /\ Set(Ev.t, M!RekeyWithWitness(Obj(Ev.t), Ev.label, Ev.data))
Finalize_ == Ev.op = "finalize" /\ Set(Ev.t, M!Finalize(Obj(Ev.t), Ev.rnd))
Read_ == /\ Ev.op = "read"
         /\ LET r == M!RngRead(Obj(Ev.t), Len(Ev.out)) IN r[2] = Ev.out /\ Set(Ev.t, r[1])
\* raw STROBE (overlay in internal/strobe): state bytes and cursor logged after every call
SNew_ == /\ Ev.op = "snew" /\ Ev.id = Len(objs) + 1
         /\ LET s == NewStrobe(Ev.label) IN Push(s) /\ Cursor(s, Ev) /\ Ev.st = s.st
SOp_ == /\ Ev.op = "sop"
        /\ LET s == Obj(Ev.t)
               f == Ev.flags
               r == M!Operate(s, f, IF M!HasC(f) /\ f % 2 = 1 THEN [i \in 1..Len(Ev.data) |-> 0] ELSE Ev.data, Ev.more)
           IN /\ (Ev.more => M!MoreOK(s, f))
              /\ Cursor(r[1], Ev) /\ Ev.st = r[1].st /\ M!CursorOK(r[1])
              /\ (M!HasC(f) /\ f % 2 = 1) => r[2] = Ev.out      \* PRF output
              /\ Set(Ev.t, r[1])
SClone_ == Ev.op = "sclone" /\ Ev.id = Len(objs) + 1 /\ Push(Obj(Ev.t))
Keccak_ == Ev.op = "keccak" /\ Ev.out = KeccakFBytes(Ev.in) /\ UNCHANGED objs

Step == Reset \/ New_ \/ Append_ \/ Extract_ \/ Clone_ \/ Rekey_ \/ Finalize_ \/ Read_ \/ SNew_ \/ SOp_ \/ SClone_ \/ Keccak_
\* a rejected event is reported and the rest of its history skipped: validation resumes at the next "reset" / "keccak" event
NextStart == LET js == {j \in (l + 1)..Len(Trace) : Trace[j].op \in {"reset", "keccak"}} IN IF js = {} THEN Len(Trace) + 1 ELSE CHOOSE j \in js : \A k \in js : j <= k
TraceInit == l = 1 /\ objs = <<>>
TraceNext == /\ l <= Len(Trace)
             /\ \/ l' = l + 1 /\ Step
                \/ /\ ~ENABLED Step
                   /\ PrintT(<<"REJECT", l, Ev.seq>>)
                   /\ l' = NextStart /\ objs' = <<>>
Spec == TraceInit /\ [][TraceNext]_<<l, objs>>
=============================================================================
