----------------------------- MODULE Trace_C05 -----------------------------
(***************************************************************************)
(* C05: every recorded call of the curve/scalar API must return what the   *)
(* specification of Z/L says.  Inputs are the 32 bytes handed to SetBits   *)
(* (bit 255 masked, no reduction: all 255-bit values reach the arithmetic).*)
(***************************************************************************)
EXTENDS C25519, TraceBase

In255(bs) == LowBits(FromBytes(bs), 255)          \* Scalar.SetBits
Out(v) == ToBytes(v, 32)
ProdL(xs) == FoldLeft(LAMBDA acc, x : ScMul(acc, In255(x)), Pad(<<1>>, NL), xs)
SumL(xs) == FoldLeft(LAMBDA acc, x : ScAdd(acc, In255(x)), Pad(<<>>, NL), xs)
Below(bs) == Lt(FromBytes(bs), LL)                \* all 256 bits

EventOK(e) ==
  CASE e.op = "add" -> e.out = Out(ScAdd(In255(e.a), In255(e.b)))
    [] e.op = "sub" -> e.out = Out(ScSub(In255(e.a), In255(e.b)))
    [] e.op = "mul" -> e.out = Out(ScMul(In255(e.a), In255(e.b)))
    [] e.op = "uint64" -> e.out = Out(FromBytes(e.a))                              \* SetUint64 / One: no reduction needed
    [] e.op = "neg" -> e.out = Out(ScNeg(In255(e.a)))
    [] e.op = "reduce" -> e.out = Out(ModL(In255(e.a)))
    [] e.op = "modorder" -> e.ok /\ e.out = Out(ModL(FromBytes(e.a)))          \* all 256 bits
    [] e.op = "wide" -> e.ok /\ e.out = Out(ModL(FromBytes(e.a)))              \* all 512 bits
    [] e.op = "product" -> e.out = Out(ProdL(e.as))
    [] e.op = "sum" -> e.out = Out(SumL(e.as))
    [] e.op = "invert" -> IsZero(ModL(In255(e.a)))
                          \/ (Below(e.out) /\ ScMul(In255(e.a), FromBytes(e.out)) = Pad(<<1>>, NL))
    [] e.op = "batchinvert" ->
         /\ Len(e.outs) = Len(e.as)
         /\ \A i \in 1..Len(e.as) : Below(e.outs[i]) /\ ScMul(In255(e.as[i]), FromBytes(e.outs[i])) = Pad(<<1>>, NL)
         /\ Below(e.out) /\ ScMul(ProdL(e.as), FromBytes(e.out)) = Pad(<<1>>, NL)
    [] e.op = "canonical" -> /\ e.ok <=> Below(e.a)
                             /\ e.ok => e.out = e.a
    [] e.op = "iscanonical" -> e.ok <=> Lt(In255(e.a), LL)
    [] e.op = "scminimal" -> e.ok <=> Below(e.a)
    [] e.op = "fresh" -> e.ok = TRUE          \* a marshalled value is the caller's own copy
    [] OTHER -> FALSE

VARIABLE l
Init == l = 1
Next == /\ l <= Len(Trace)
        /\ l' = l + 1
        /\ EventOK(Trace[l]) \/ PrintT(<<"REJECT", l, Trace[l].seq>>)
Spec == Init /\ [][Next]_l
=============================================================================
