----------------------------- MODULE Trace_C19 -----------------------------
(***************************************************************************)
(* C19: every recorded call of a byte-taking entry point (all lengths      *)
(* 0..130 and some large ones at every argument position, nil and empty,   *)
(* zero / random / truncated-valid / bit-flipped contents) must be allowed *)
(* by the contract table Robustness.tla; a valid tuple must succeed.       *)
(***************************************************************************)
EXTENDS Robustness, TraceBase

EventOK(e) ==
  /\ e.op = "api"
  /\ Allowed(e.api, e.lens, e.outcome, e.after, e.msgclass, e.overrun)
  /\ e.how = "valid" => e.outcome \in Success

VARIABLE l
Init == l = 1
Next == /\ l <= Len(Trace)
        /\ l' = l + 1
        /\ EventOK(Trace[l]) \/ PrintT(<<"REJECT", l, Trace[l].seq>>)
Spec == Init /\ [][Next]_l
=============================================================================
