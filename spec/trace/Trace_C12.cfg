CONSTANTS ExpandLimit = 0
SPECIFICATION Spec
POSTCONDITION AllConsumed
CHECK_DEADLOCK FALSE
