----------------------------- MODULE Trace_C15 -----------------------------
(***************************************************************************)
(* C15: ECVRF-EDWARDS25519-SHA512-ELL2 (RFC 9381) at real scale.           *)
(*  vrfprove  - the proof is recomputed byte for byte from the seed:       *)
(*     x = clamp(SHA-512(seed)), Y = [x]B, H = encode_to_curve(Y || alpha) *)
(*     (RFC 9380 NU suite with the ECVRF DST), Gamma = [x]H, nonce k as    *)
(*     RFC 8032 (with the package's documented added-randomness framing),  *)
(*     c = challenge(Y?, H, Gamma, [k]B, [k]H), s = k + c x; beta.         *)
(*  vrfverify - the decision and the output are those of RFC 9381 5.3 with *)
(*     key validation: recomputed from the bytes for honest, altered,      *)
(*     torsion-shifted, small-order-key, non-canonical and cross-version   *)
(*     inputs.  SHA-512 by table; the specification rebuilds every input.  *)
(***************************************************************************)
EXTENDS C25519, TraceBase

Lookup(tab, in) == LET hit == SelectSeq(tab, LAMBDA x : x.in = in) IN IF hit = <<>> THEN <<>> ELSE hit[1].out
HC(tab) == INSTANCE H2C WITH H <- LAMBDA x : Lookup(tab, x), XOF <- LAMBDA x, n : <<>>
RIsSquare(a) == SqrtRatioI(a, FOne)[1]
RSqrt(a) == SqrtRatioI(a, FOne)[2]
C1v == TLCEval(LET r == RSqrt(FNeg(FInt(486664))) IN IF FIsNeg(r) THEN FNeg(r) ELSE r)
El == INSTANCE Elligator WITH IsSquare <- RIsSquare, Sqrt <- RSqrt, JJ <- FInt(486662), ZZ <- FInt(2), C1 <- C1v

VrfDST == <<69, 67, 86, 82, 70, 95, 101, 100, 119, 97, 114, 100, 115, 50, 53, 53, 49, 57, 95, 88, 77, 68, 58, 83, 72, 65, 45, 53, 49, 50, 95, 69, 76, 76, 50, 95, 78, 85, 95, 4>>
EncodeToCurve(tab, ys, alpha) ==
  LET ub == HC(tab)!Xmd(ys \o alpha, VrfDST, 48, 64, 128)
  IN ExtMulCofactor(FromAffine(El!MapToCurve(FFromBytesWide(Reverse(ub)))))
Challenge(tab, v10, ys, H, G, U, V) ==
  LET d == Lookup(tab, <<4, 2>> \o (IF v10 THEN <<>> ELSE ys) \o EncodePoint(H) \o EncodePoint(G) \o EncodePoint(U) \o EncodePoint(V) \o <<0>>)
  IN IF d = <<>> THEN <<>> ELSE SubSeq(d, 1, 16)
Beta(tab, G) == Lookup(tab, <<4, 3>> \o EncodePoint(ExtMulCofactor(G)) \o <<0>>)
Clamp(h32) == [i \in 1..32 |-> IF i = 1 THEN h32[1] - (h32[1] % 8) ELSE IF i = 32 THEN (h32[32] % 64) + 64 ELSE h32[i]]
Zeros(n) == [i \in 1..n |-> 0]
PMul(sNat, nbits, PP) == ExtMulBits(NatBits(sNat, nbits), PP)

ProveOK(e) ==
  LET tab == e.sha
      h0 == Lookup(tab, e.seed)
      x == FromBytes(Clamp(SubSeq(h0, 1, 32)))
      Y == PMul(x, 255, BasePt)
      ys == EncodePoint(Y)
      H == EncodeToCurve(tab, ys, e.alpha)
      hs == EncodePoint(H)
      G == PMul(x, 255, H)
      kd == Lookup(tab, (IF e.addRand THEN e.z ELSE <<>>) \o SubSeq(h0, 33, 64) \o (IF e.addRand THEN Zeros(1024 - 64) ELSE <<>>) \o hs)
      k == ModL(FromBytes(kd))
      c16 == Challenge(tab, e.v10, ys, H, G, PMul(k, 253, BasePt), PMul(k, 253, H))
      s == ScAdd(k, ScMul(FromBytes(c16), ModL(x)))
  IN /\ Len(h0) = 64 /\ Len(kd) = 64 /\ Len(c16) = 16
     /\ e.pk = ys
     /\ e.pi = EncodePoint(G) \o c16 \o ToBytes(s, 32)
     /\ e.beta = Beta(tab, G)
     /\ e.tailok                      \* nothing was written past the key / alpha slices handed to Prove

\* RFC 9381 5.3 with validate_key; <<accept, beta>>
VerifySpec(e) ==
  LET tab == e.sha IN
  IF Len(e.pk) # 32 \/ Len(e.pi) # 80 THEN <<FALSE, <<>>>> ELSE
  LET ys == e.pk
      gs == SubSeq(e.pi, 1, 32)
      c16 == SubSeq(e.pi, 33, 48)
      ss == SubSeq(e.pi, 49, 80)
      dY == DecodePoint(ys)
      dG == DecodePoint(gs)
  IN IF ~(CanonicalStr(ys) /\ dY[1]) THEN <<FALSE, <<>>>>
     ELSE IF ExtIsSmallOrder(dY[2]) THEN <<FALSE, <<>>>>
     ELSE IF ~(CanonicalStr(gs) /\ dG[1] /\ Lt(FromBytes(ss), LL)) THEN <<FALSE, <<>>>>
     ELSE LET H == EncodeToCurve(tab, ys, e.alpha)
              c == FromBytes(c16)
              s == FromBytes(ss)
              U == ExtSub(PMul(s, 253, BasePt), PMul(c, 128, dY[2]))
              V == ExtSub(PMul(s, 253, H), PMul(c, 128, dG[2]))
              c2 == Challenge(tab, e.v10, ys, H, dG[2], U, V)
          IN IF c2 = c16 THEN <<TRUE, Beta(tab, dG[2])>> ELSE <<FALSE, <<>>>>
\* proof_to_hash alone: decodes Gamma (canonical), s < L
P2HSpec(e) ==
  IF Len(e.pi) # 80 THEN <<FALSE, <<>>>> ELSE
  LET gs == SubSeq(e.pi, 1, 32)  dG == DecodePoint(gs) IN
  IF CanonicalStr(gs) /\ dG[1] /\ Lt(FromBytes(SubSeq(e.pi, 49, 80)), LL) THEN <<TRUE, dG[2]>> ELSE <<FALSE, <<>>>>
VerifyOK(e) ==
  LET v == VerifySpec(e) IN
  /\ e.ok = v[1]
  /\ e.beta = v[2]
  /\ e.p2hok = P2HSpec(e)[1]
  /\ (e.ok /\ e.p2hok) => e.p2h = e.beta              \* verify's output = proof_to_hash
  /\ e.kind = "honest" => e.ok
  /\ e.kind \in {"crossversion", "s+L", "otheralpha", "otherkey", "shortproof", "smallorderkey", "noncanonicalGamma", "noncanonicalKey"} => ~e.ok

EventOK(e) ==
  CASE e.op = "vrfprove" -> ProveOK(e)
    [] e.op = "vrfverify" -> VerifyOK(e)
    [] e.op = "vrfp2h" -> e.p2hok = P2HSpec(e)[1]          \* proof decoder alone: canonical Gamma and s < L
    \* input-length sweep: an honest proof verifies for its alpha and for no other input (Ecvrf.tla: Verify recomputes
    \* H = encode_to_curve(Y || alpha); MC_C15 Uniqueness/Completeness); the verdict follows from the request's class
    [] e.op = "vrfsweep" -> e.same = TRUE /\ e.last = FALSE /\ e.trunc = FALSE /\ e.app = FALSE
    [] OTHER -> FALSE

VARIABLE l
Init == l = 1
Next == /\ l <= Len(Trace)
        /\ l' = l + 1
        /\ EventOK(Trace[l]) \/ PrintT(<<"REJECT", l, Trace[l].seq>>)
Spec == Init /\ [][Next]_l
=============================================================================
