----------------------------- MODULE Trace_C17 -----------------------------
(***************************************************************************)
(* C17: recorded digit arrays of Scalar.Bits / NonAdjacentForm / ToRadix16 *)
(* / ToRadix2w must satisfy the postconditions of Recoding.tla and         *)
(* reconstruct the 255-bit value (signed column sums, BigNat).             *)
(***************************************************************************)
EXTENDS C25519, TraceBase

R == INSTANCE Recoding
In255(bs) == LowBits(FromBytes(bs), 255)
\* sum d[i] * 2^(w*(i-1)) as <<limbs, carry>>; carry # 0 means negative or too large
Recon(d, w) ==
  LET n == Len(d)
      nc == (w * n) \div 12 + 3
      step(cols, i) == LET sh == w * (i - 1) IN [cols EXCEPT ![(sh \div 12) + 1] = @ + d[i] * Pow2(sh % 12)]
      cols == FoldLeft(step, TLCEval([k \in 1..nc |-> 0]), Idx(n))
  IN NormC(cols, nc)
ReconIs(d, w, v) == LET r == Recon(d, w) IN r[2] = 0 /\ Eq(r[1], v)
Hint(w) == CASE w = 6 -> 43 [] w = 7 -> 37 [] w = 8 -> 33

EventOK(e) ==
  LET v == In255(e.a) IN
  CASE e.op = "bits" -> Len(e.out) = 256 /\ R!BitsOK(e.out) /\ ReconIs(e.out, 1, v)
    [] e.op = "naf" -> Len(e.out) = 256 /\ R!NafOK(e.out, e.w) /\ ReconIs(e.out, 1, v)
    [] e.op = "radix16" -> Len(e.out) = 64 /\ R!Radix16OK(e.out) /\ ReconIs(e.out, 4, v)
    [] e.op = "radix2w" -> /\ Len(e.out) = 43 /\ e.hint = Hint(e.w)
                           /\ R!Radix2wOK(e.out, e.w, e.hint) /\ ReconIs(e.out, e.w, v)
    [] OTHER -> FALSE

VARIABLE l
Init == l = 1
Next == /\ l <= Len(Trace)
        /\ l' = l + 1
        /\ EventOK(Trace[l]) \/ PrintT(<<"REJECT", l, Trace[l].seq>>)
Spec == Init /\ [][Next]_l
=============================================================================
