----------------------------- MODULE Trace_C06 -----------------------------
(***************************************************************************)
(* C06: the merged per-step observations of the deterministic workloads    *)
(* (the recorders of the other properties, run with one seed under the     *)
(* four build/CPU configurations) must be a behaviour of Backends.tla.     *)
(* A rejected line names the first configuration whose observation of a    *)
(* step differs from the reference; the driver maps it back to the event.  *)
(***************************************************************************)
EXTENDS Backends, TraceBase
VARIABLE l
Ev == Trace[l]
TraceInit == l = 1 /\ BInit
\* a mismatch is reported and the differing observation becomes the new reference, so that one run lists every
\* diverging step instead of stopping at the first
TraceNext == /\ l <= Len(Trace)
             /\ l' = l + 1
             /\ \/ Observe(Ev.wl, Ev.step, Ev.cfg, Ev.d)
                \/ /\ ~ENABLED Observe(Ev.wl, Ev.step, Ev.cfg, Ev.d)
                   /\ PrintT(<<"REJECT", l, Ev.step>>)
                   /\ ref' = <<Ev.wl, Ev.step, Ev.d>> /\ seenCfgs' = {Ev.cfg}
Spec == TraceInit /\ [][TraceNext]_<<l, bkvars>>
=============================================================================
