----------------------------- MODULE Trace_C14 -----------------------------
(***************************************************************************)
(* C14: recorded message expansions and suite outputs against RFC 9380     *)
(* (H2C.tla, Elligator.tla, Ristretto.tla) at real scale.  Hashes and XOFs *)
(* are tables from the trace (standard library / x/crypto, outside the     *)
(* system under test); every input is rebuilt by the specification.        *)
(***************************************************************************)
EXTENDS C25519, TraceBase

Lookup(tab, in) == LET hit == SelectSeq(tab, LAMBDA x : x.in = in) IN IF hit = <<>> THEN <<>> ELSE hit[1].out
LookupX(tab, in, n) == LET hit == SelectSeq(tab, LAMBDA x : x.in = in /\ x.n = n) IN IF hit = <<>> THEN <<>> ELSE hit[1].out
HC(tab) == INSTANCE H2C WITH H <- LAMBDA x : Lookup(tab, x), XOF <- LAMBDA x, n : LookupX(tab, x, n)

\* ---- Elligator 2 for edwards25519 (RFC 9380 6.8.2): J = 486662, Z = 2, c1 = sqrt(-486664) with sgn0 = 0
RIsSquare(a) == SqrtRatioI(a, FOne)[1]
RSqrt(a) == SqrtRatioI(a, FOne)[2]
J486662 == FInt(486662)
C1v == TLCEval(LET r == RSqrt(FNeg(FInt(486664))) IN IF FIsNeg(r) THEN FNeg(r) ELSE r)
El == INSTANCE Elligator WITH IsSquare <- RIsSquare, Sqrt <- RSqrt, JJ <- J486662, ZZ <- FInt(2), C1 <- C1v
\* hash_to_field with m = 1, L = 48: big-endian 48 bytes mod p
ToField(bs) == FFromBytesWide(Reverse(bs))
MapPt(u) == FromAffine(El!MapToCurve(u))
\* ristretto255
InvSqrtAMD == TLCEval(SqrtRatioI(FOne, FSub(FNeg(FOne), FD))[2])
SqrtADM1 == TLCEval(FNeg(SqrtRatioI(FSub(FNeg(FD), FOne), FOne)[2]))
Ri == INSTANCE Ristretto WITH SqrtRI <- SqrtRatioI, InvSqrtAMinusD <- InvSqrtAMD, SqrtAdMinusOne <- SqrtADM1

Uniform(e) == IF Has(e, "xof") THEN HC(e.sha)!Xof(e.msg, e.dst, e.n) ELSE HC(e.sha)!Xmd(e.msg, e.dst, e.n, e.b, e.r)
SuiteOK(e) ==
  LET ub == Uniform(e) IN
  /\ e.ok /\ Len(ub) = e.n
  /\ e.tok                       \* the returned object is a consistent extended point: (P + B) - B = P through the API
  /\ CASE e.kind = "ro" -> LET Q == ExtAdd(MapPt(ToField(SubSeq(ub, 1, 48))), MapPt(ToField(SubSeq(ub, 49, 96))))
                               PP == ExtMulCofactor(Q)
                           IN e.out = EncodePoint(PP) /\ IsTorsionFree(PP)
       [] e.kind = "nu" -> LET PP == ExtMulCofactor(MapPt(ToField(ub))) IN e.out = EncodePoint(PP) /\ IsTorsionFree(PP)
       [] e.kind = "r255" -> LET S == ExtAdd(Ri!Map(FFromBytes(SubSeq(ub, 1, 32))), Ri!Map(FFromBytes(SubSeq(ub, 33, 64))))
                             IN e.out = FToBytes(Ri!EncodeField(S))
       [] OTHER -> FALSE

EventOK(e) ==
  CASE e.op = "xmd" -> IF HC(e.sha)!XmdAborts(e.n, e.b) THEN ~e.ok
                       ELSE e.ok /\ e.out = HC(e.sha)!Xmd(e.msg, e.dst, e.n, e.b, e.r) /\ Len(e.out) = e.n
    [] e.op = "xof" -> IF HC(e.sha)!XofAborts(e.n) THEN ~e.ok
                       ELSE e.ok /\ e.out = HC(e.sha)!Xof(e.msg, e.dst, e.n) /\ Len(e.out) = e.n
    [] e.op = "suite" -> SuiteOK(e)
    [] e.op = "suiteabort" -> HC(e.sha)!XmdAborts(e.n, e.b) /\ ~e.ok /\ e.ptnil     \* weak hash: error and no point
    \* primitives/h2c.hashToCurve / encodeToCurve on crafted uniform bytes (overlay): everything behind expand_message
    [] e.op = "h2cmap" ->
         CASE e.kind = "ro" -> LET Q == ExtAdd(MapPt(ToField(SubSeq(e.u, 1, 48))), MapPt(ToField(SubSeq(e.u, 49, 96))))
                                   PP == ExtMulCofactor(Q)
                               IN e.out = EncodePoint(PP) /\ IsTorsionFree(PP)
           [] e.kind = "nu" -> LET PP == ExtMulCofactor(MapPt(ToField(e.u))) IN e.out = EncodePoint(PP) /\ IsTorsionFree(PP)
           [] OTHER -> FALSE
    [] e.op = "ell2" ->          \* internal/elligator.EdwardsFlavor on a raw field element (overlay)
         LET q == El!MapToCurve(FFromBytes(e.r)) IN e.out = EncodePoint(FromAffine(q))
    [] OTHER -> FALSE

VARIABLE l
Init == l = 1
Next == /\ l <= Len(Trace)
        /\ l' = l + 1
        /\ EventOK(Trace[l]) \/ PrintT(<<"REJECT", l, Trace[l].seq>>)
Spec == Init /\ [][Next]_l
=============================================================================
