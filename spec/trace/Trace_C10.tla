----------------------------- MODULE Trace_C10 -----------------------------
(***************************************************************************)
(* C10: Edwards decoding / encoding / canonicity / predicates / Edwards <-> *)
(* Montgomery conversions recorded from package curve (in-package overlay, *)
(* so points arrive in arbitrary projective scalings) against Edwards.tla  *)
(* instantiated at real scale.                                             *)
(***************************************************************************)
EXTENDS C25519, TraceBase

FB(bs) == FFromBytes(bs)
PtOf(e) == <<FB(e.x), FB(e.y), FB(e.z), FB(e.t)>>
IdStr == MkStr(FOne, 0)
Dec(bs, cert) == DecompressWithCert(StrY(bs), StrSign(bs), FB(cert))
DecodeOK(e) ==
  LET d == Dec(e.in, e.cert) IN
  /\ e.ok = d[1]
  /\ e.canon = CanonicalStr(e.in)
  /\ e.ok => LET Q == PtOf(e) IN
             /\ ExtValid(Q) /\ ExtEq(Q, d[2])
             /\ e.out = EncodePointP(d[2], Certs(e))
UnmarshalOK(e) ==
  LET len32 == Len(e.in) = 32
      d == IF len32 THEN Dec(e.in, e.cert) ELSE <<FALSE, ExtId>>
      good == d[1]
  IN /\ e.ok = good /\ e.cok = good
     /\ e.nok = len32
     /\ e.after = (IF good THEN EncodePointP(d[2], Certs(e)) ELSE IdStr)
     /\ LET Rc == PtOf(e.rcv) IN ExtValid(Rc) /\ (IF good THEN ExtEq(Rc, d[2]) ELSE ExtIsId(Rc))     \* all four coordinates consistent
     /\ e.cafter = (IF good THEN e.in ELSE IdStr)
PredsOK(e) ==
  LET Q == PtOf(e) IN
  /\ ExtValid(Q)
  /\ e.isid = ExtIsId(Q)
  /\ e.small = ExtIsSmallOrder(Q)
  \* a small-order point is torsion free exactly when it is the identity (no 253-bit multiplication needed for those)
  /\ Has(e, "tfree") => e.tfree = (IF ExtIsSmallOrder(Q) THEN ExtIsId(Q) ELSE IsTorsionFree(Q))
  /\ e.enc = EncodePointP(Q, Certs(e))
  /\ LET C8 == PtOf(e.c8) IN ExtValid(C8) /\ ExtEq(C8, ExtMulCofactor(Q))
  /\ LET zmy == FSub(Q[3], Q[2]) IN       \* u = (Z+Y)/(Z-Y), identity -> 0
     e.mont = FToBytes(FMul(FAdd(Q[3], Q[2]), InvP(zmy, Certs(e))))
Mont2EdOK(e) ==
  LET u == FB(e.u)
      y == FMul(FSub(u, FOne), InvP(FAdd(u, FOne), Certs(e)))
      d == DecompressWithCert(y, e.sign, FB(e.cert))
  IN IF u = FNeg(FOne) THEN ~e.ok
     ELSE /\ e.ok = d[1]
          /\ e.ok => /\ e.out = EncodePointP(d[2], Certs(e))
                      /\ LET Q == PtOf(e) IN ExtValid(Q) /\ ExtEq(Q, d[2])

EventOK(e) ==
  CASE e.op = "fresh" -> e.ok = TRUE      \* values handed to the caller are the caller's own (vfresh in the recorder)
    [] e.op = "decode" -> DecodeOK(e)
    [] e.op = "unmarshal" -> UnmarshalOK(e)
    [] e.op = "preds" -> PredsOK(e)
    [] e.op = "equal" -> LET P1 == PtOf(e.p)  Q1 == PtOf(e.q) IN
                         ExtValid(P1) /\ ExtValid(Q1) /\ e.eq = (IF ExtEq(P1, Q1) THEN 1 ELSE 0)
    [] e.op = "mont2ed" -> Mont2EdOK(e)
    [] OTHER -> FALSE

VARIABLE l
Init == l = 1
Next == /\ l <= Len(Trace)
        /\ l' = l + 1
        /\ EventOK(Trace[l]) \/ PrintT(<<"REJECT", l, Trace[l].seq>>)
Spec == Init /\ [][Next]_l
=============================================================================
