----------------------------- MODULE Trace_C01 -----------------------------
(***************************************************************************)
(* C01, real scale: a sample of the recorded verification requests is      *)
(* re-decided FROM THE BYTES by the declarative Accept of Ed25519.tla      *)
(* instantiated with edwards25519 (BigNat): decode A and R, check S < L,   *)
(* compute [S]B - [k]A with k = SHA-512(dom2 || R || A || M) mod L, and    *)
(* the configured equation.  SHA-512 is outside the system under test: the *)
(* digest comes from the trace, but the specification builds the hash      *)
(* INPUT itself and requires the logged input to be exactly that.          *)
(***************************************************************************)
EXTENDS C25519, TraceBase

Dom2Prefix == <<83, 105, 103, 69, 100, 50, 53, 53, 49, 57, 32, 110, 111, 32, 69, 100, 50, 53, 53, 49, 57, 32, 99, 111, 108, 108, 105, 115, 105, 111, 110, 115>>
Dom2(f, ctx) == IF f = "pure" THEN <<>> ELSE Dom2Prefix \o <<IF f = "ph" THEN 1 ELSE 0, Len(ctx)>> \o ctx

E == INSTANCE Ed25519 WITH GDecode <- DecodePoint, GCanonical <- CanonicalStr, GEncode <- EncodePoint,
                           GAdd <- ExtAdd, GNeg <- ExtNeg,
                           GMulS <- LAMBDA s, PP : ExtMulBits(NatBits(s, 253), PP),
                           GSmallOrder <- ExtIsSmallOrder, GBase <- BasePt,
                           SBelowL <- LAMBDA bs : Lt(FromBytes(bs), LL), SVal <- LAMBDA bs : FromBytes(bs)

Zero32 == [i \in 1..32 |-> 0]
ReqOK(e) ==
  LET q == e.req
      lenOK == Len(q.sig) = 64
      Rs == IF lenOK THEN SubSeq(q.sig, 1, 32) ELSE Zero32
      Ss == IF lenOK THEN SubSeq(q.sig, 33, 64) ELSE Zero32
      hin == Dom2(q.f, q.ctx) \o Rs \o q.pk \o q.msg
      k == ModL(FromBytes(q.h))
      v == E!Accept(e.o, lenOK, q.pk, Rs, Ss, k)
  IN /\ lenOK => q.hin = hin              \* the digest in the trace is the digest of the input the spec demands
     /\ e.res = (IF E!Incompatible(e.o) THEN "error" ELSE IF v THEN "true" ELSE "false")

EventOK(e) == e.op \in {"vclass", "vhonest", "vmut", "vreq"} /\ ReqOK(e)

VARIABLE l
Init == l = 1
Next == /\ l <= Len(Trace)
        /\ l' = l + 1
        /\ EventOK(Trace[l]) \/ PrintT(<<"REJECT", l, Trace[l].seq>>)
Spec == Init /\ [][Next]_l
=============================================================================
