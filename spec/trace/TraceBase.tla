----------------------------- MODULE TraceBase -----------------------------
(***************************************************************************)
(* Shared plumbing of the trace specifications: the recorded trace (one    *)
(* JSON object per line, file named by the environment variable TRACE),    *)
(* and the acceptance condition.  For traces of independent events the     *)
(* trace spec consumes every line and prints <<"REJECT", line>> for each   *)
(* event the specification does not allow, so that one run reports every   *)
(* failing event; for stateful traces (batch verifier, cache, transcript)  *)
(* a rejected event disables Next and the diameter names the line.         *)
(***************************************************************************)
EXTENDS Integers, Sequences, TLC, Json, IOUtils

Trace == ndJsonDeserialize(IOEnv.TRACE)
Has(e, f) == f \in DOMAIN e
\* POSTCONDITION: every line was consumed (initial state + one state per line)
AllConsumed == TLCGet("stats").diameter - 1 = Len(Trace)
=============================================================================
