----------------------------- MODULE Trace_C11 -----------------------------
(***************************************************************************)
(* C11: Ristretto255 operations recorded inside package curve (so that     *)
(* representatives P + T, T in E[4], in arbitrary projective scalings can  *)
(* be fed to the encoder) against Ristretto.tla = RFC 9496 instantiated    *)
(* with edwards25519.  Square roots use untrusted certificates from the    *)
(* trace that are checked by Field!SqrtRatioCertOK (sound: proved          *)
(* equivalent to the declarative contract on complete toy fields),         *)
(* falling back to the specification's own algorithm.                      *)
(***************************************************************************)
EXTENDS C25519, TraceBase

FB(bs) == FFromBytes(bs)
PtOf(r) == <<FB(r.x), FB(r.y), FB(r.z), FB(r.t)>>
SqrtP(u, v, cs) ==
  LET t == SelectSeq(cs, LAMBDA r : SqrtRatioCertOK(u, v, TRUE, r))
      f == SelectSeq(cs, LAMBDA r : SqrtRatioCertOK(u, v, FALSE, r))
  IN IF t # <<>> THEN <<TRUE, t[1]>> ELSE IF f # <<>> THEN <<FALSE, f[1]>> ELSE SqrtRatioI(u, v)
InvSqrtAMD == TLCEval(SqrtRatioI(FOne, FSub(FNeg(FOne), FD))[2])
SqrtADM1 == TLCEval(FNeg(SqrtRatioI(FSub(FNeg(FD), FOne), FOne)[2]))
R(cs) == INSTANCE Ristretto WITH SqrtRI <- LAMBDA u, v : SqrtP(u, v, cs), InvSqrtAMinusD <- InvSqrtAMD, SqrtAdMinusOne <- SqrtADM1
Roots(e) == IF Has(e, "sqrts") THEN [i \in 1..Len(e.sqrts) |-> FB(e.sqrts[i])] ELSE <<>>
Zero32 == [i \in 1..32 |-> 0]

\* byte-level decoding: 32 bytes, canonical field encoding (so bit 255 clear and value < p), non-negative
DecodeBytes(bs, cs) ==
  IF Len(bs) # 32 THEN <<FALSE, ExtId>>
  ELSE LET s == FB(bs) IN
       IF FToBytes(s) # bs \/ FIsNeg(s) THEN <<FALSE, ExtId>> ELSE R(cs)!DecodeField(s)
EncodeBytes(PP, cs) == FToBytes(R(cs)!EncodeField(PP))

DecodeOK(e) ==
  LET cs == Roots(e)
      d == DecodeBytes(e.in, cs)
  IN /\ e.ok = d[1] /\ e.cok = d[1]
     /\ Has(e, "sok") => e.sok = d[1]
     /\ e.after = (IF d[1] THEN e.in ELSE Zero32)            \* re-encoding an accepted string returns the same bytes
     /\ e.cafter = (IF d[1] THEN e.in ELSE Zero32)           \* failure leaves the identity
     /\ d[1] => LET Q == PtOf(e) IN ExtValid(Q) /\ R(cs)!REquals(Q, d[2]) /\ EncodeBytes(Q, cs) = e.in
UniformOK(e) ==
  IF Len(e.in) # 64 THEN ~e.ok
  ELSE LET cs == Roots(e)
           P1 == R(cs)!Map(FB(SubSeq(e.in, 1, 32)))
           P2 == R(cs)!Map(FB(SubSeq(e.in, 33, 64)))
           S == ExtAdd(P1, P2)
       IN /\ e.ok /\ ExtValid(P1) /\ ExtValid(P2)
          /\ LET Q == PtOf(e) IN ExtValid(Q) /\ R(cs)!REquals(Q, S)
          /\ e.out = EncodeBytes(S, cs)

VARIABLES l, seen      \* seen: <<element id, bytes>> of the last encoding, to compare representatives across events
EventOK(e) ==
  CASE e.op = "fresh" -> e.ok = TRUE      \* values handed to the caller are the caller's own (vfresh in the recorder)
    [] e.op = "rdecode" -> DecodeOK(e)
    [] e.op = "rencode" -> LET Q == PtOf(e) IN
                           /\ ExtValid(Q) /\ e.out = EncodeBytes(Q, Roots(e))
                           /\ e.isid = (e.out = Zero32)
                           \* all representatives of one element (same elem id, consecutive events) give the same bytes
                           /\ (seen # <<>> /\ seen[1] = e.elem) => seen[2] = e.out
    [] e.op = "requal" -> LET P1 == PtOf(e.p)  Q1 == PtOf(e.q) IN
                          /\ ExtValid(P1) /\ ExtValid(Q1)
                          /\ e.eq = (IF R(<<>>)!REquals(P1, Q1) THEN 1 ELSE 0)
    [] e.op = "runiform" -> UniformOK(e)
    [] e.op = "rbase" -> e.val = EncodeBytes(BasePt, <<>>)
    [] e.op = "rgroup" ->          \* [a]P + [b]B through the Ristretto wrappers (every kind computes this element)
         LET PP == PtOf(e.P)  Q == PtOf(e)  cs == Roots(e)
             W == ExtAdd(ExtMulBits(NatBits(FromBytes(e.a), 253), PP), ExtMulBits(NatBits(FromBytes(e.b), 253), BasePt))
         IN /\ ExtValid(PP) /\ ExtValid(Q)
            /\ R(cs)!REquals(Q, W)
            /\ e.out = EncodeBytes(W, <<>>)          \* the reference encoding of the reference result
            /\ e.out = EncodeBytes(Q, cs)            \* and of the representative the code holds
    [] OTHER -> FALSE

Init == l = 1 /\ seen = <<>>
Next == /\ l <= Len(Trace)
        /\ l' = l + 1
        /\ seen' = IF Trace[l].op = "rencode" THEN <<Trace[l].elem, Trace[l].out>> ELSE seen
        /\ EventOK(Trace[l]) \/ PrintT(<<"REJECT", l, Trace[l].seq>>)
Spec == Init /\ [][Next]_<<l, seen>>
=============================================================================
