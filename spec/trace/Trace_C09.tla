----------------------------- MODULE Trace_C09 -----------------------------
(***************************************************************************)
(* C09: recorded histories of real BatchVerifier objects (reused across    *)
(* Reset; entries added through Add / AddWithOptions / AddExpanded* and    *)
(* the caching verifier) must be behaviours of Batch.tla, with the         *)
(* recorded outputs of Verify / VerifyBatchOnly equal to the machine's,    *)
(* and each entry's abstract kind consistent with what real single-        *)
(* signature verification returned for it.                                 *)
(***************************************************************************)
EXTENDS Batch, TraceBase

VARIABLE l
Ev == Trace[l]
B01(s) == s = "true"

NewT == /\ Ev.op = "new"
        /\ entries' = <<>> /\ anyInvalid' = FALSE /\ anyCofactorless' = FALSE /\ anyNotExpanded' = FALSE
        /\ out' = <<"none">>
AddT == /\ Ev.op = "add"
        /\ LET k == Ev.kind IN
           /\ WellFormed(k)
           \* the entry's kind agrees with real single verification ("error" = illegal options = not valid)
           /\ B01(Ev.single) = (Adm(k) /\ (IF k.cl THEN k.eqCl ELSE k.eqCof))
           /\ Ev.keynil = (Ev.via = "expanded" /\ ~k.keyOk)
           /\ IF Ev.via = "plain" THEN AddPlain(k) ELSE AddExpanded(k, Ev.keynil)
ForceT == Ev.op = "force" /\ Force
ResetT == Ev.op = "reset" /\ Reset
VerifyT == /\ Ev.op = "verify" /\ Verify
           /\ out'[2] = Ev.all /\ out'[3] = Ev.vec
           /\ OutputsMatch'
BatchOnlyT == /\ Ev.op = "batchonly" /\ VerifyBatchOnly
              /\ out'[2] = Ev.res
              /\ OutputsMatch'
\* verification through the caching verifier = plain verification of the same inputs
CachedT == /\ Ev.op = "cachedverify" /\ Ev.res = Ev.single
           /\ UNCHANGED bvars

Step == NewT \/ AddT \/ ForceT \/ ResetT \/ VerifyT \/ BatchOnlyT \/ CachedT
\* a rejected event is reported and the rest of ITS history is skipped: validation resumes at the next "new"
\* event, so one defect does not leave the remainder of the shard unexamined
NextNew == LET js == {j \in (l + 1)..Len(Trace) : Trace[j].op = "new"} IN IF js = {} THEN Len(Trace) + 1 ELSE CHOOSE j \in js : \A k \in js : j <= k
TraceInit == l = 1 /\ Init
TraceNext == /\ l <= Len(Trace)
             /\ \/ l' = l + 1 /\ Step
                \/ /\ ~ENABLED Step
                   /\ PrintT(<<"REJECT", l, Ev.seq>>)
                   /\ l' = NextNew
                   /\ entries' = <<>> /\ anyInvalid' = FALSE /\ anyCofactorless' = FALSE /\ anyNotExpanded' = FALSE
                   /\ out' = <<"none">>
Spec == TraceInit /\ [][TraceNext]_<<l, bvars>>
=============================================================================
