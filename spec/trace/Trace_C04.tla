----------------------------- MODULE Trace_C04 -----------------------------
(***************************************************************************)
(* C04: every recorded internal/field operation, on elements built from    *)
(* RAW LIMBS anywhere in the documented headroom, must return the exact    *)
(* result modulo p = 2^255-19.  Limbs arrive as 8 little-endian bytes      *)
(* each; the value of a limb vector is sum limb[i] * 2^shift[i] with the   *)
(* radix of the backend (51-bit limbs, or alternating 26/25-bit limbs).    *)
(* Every event that carries an output also carries the output's ToBytes:   *)
(* it must be the canonical encoding of the expected value.                *)
(***************************************************************************)
EXTENDS C25519, TraceBase

Shift64 == <<0, 51, 102, 153, 204>>
Shift32 == <<0, 26, 51, 77, 102, 128, 153, 179, 204, 230>>
Shifts(bk) == IF bk = "u64" THEN Shift64 ELSE Shift32
\* natural number represented by a limb vector
LimbNat(ls, bk) == FoldLeft(LAMBDA acc, i : Add(acc, Shl(FromBytes(ls[i]), Shifts(bk)[i])), <<>>, Idx(Len(ls)))
Val(ls, bk) == FRed(LimbNat(ls, bk))
Is(e, x) == Val(e.out, e.bk) = x /\ e.outb = FToBytes(x)
B01(b) == IF b THEN 1 ELSE 0
InvOK(a, o) == IF a = FZero THEN o = FZero ELSE FMul(a, o) = FOne
F121666 == FInt(121666)

EventOK(e) ==
  LET bk == e.bk
      a == IF Has(e, "a") THEN Val(e.a, bk) ELSE FZero
      b == IF Has(e, "b") THEN Val(e.b, bk) ELSE FZero
  IN
  CASE e.op = "add" -> Is(e, FAdd(a, b))
    [] e.op = "sub" -> Is(e, FSub(a, b))
    [] e.op \in {"mul", "mulgeneric"} -> Is(e, FMul(a, b))
    [] e.op = "neg" -> Is(e, FNeg(a))
    [] e.op = "square" -> Is(e, FSq(a))
    [] e.op = "square2" -> Is(e, FAdd(FSq(a), FSq(a)))
    [] e.op \in {"pow2k", "pow2kgeneric"} -> Is(e, FPow2k(a, e.k))
    [] e.op = "mul121666" -> Is(e, FMul(a, F121666))
    [] e.op = "invert" -> InvOK(a, Val(e.out, bk)) /\ e.outb = FToBytes(Val(e.out, bk))
    [] e.op = "condneg0" -> Is(e, a)
    [] e.op = "condneg1" -> Is(e, FNeg(a))
    [] e.op = "tobytes" -> Is(e, a)
    [] e.op = "pred" -> e.equal = B01(a = b) /\ e.isneg = B01(FIsNeg(a)) /\ e.iszero = B01(a = FZero)
    [] e.op = "cond" -> /\ Val(e.sel, bk) = (IF e.choice = 1 THEN b ELSE a)
                        /\ Val(e.swapa, bk) = (IF e.choice = 1 THEN b ELSE a)
                        /\ Val(e.swapb, bk) = (IF e.choice = 1 THEN a ELSE b)
                        /\ Val(e.asg, bk) = (IF e.choice = 1 THEN b ELSE a)
    [] e.op = "sqrtratio" -> LET r == Val(e.out, bk) IN
                             e.ok \in {0, 1} /\ SqrtRatioCertOK(a, b, e.ok = 1, r) /\ e.outb = FToBytes(r)
    [] e.op = "setbytes" -> e.ok /\ Is(e, FFromBytes(e.in))
    [] e.op = "setbyteswide" -> e.ok /\ Is(e, FFromBytesWide(e.in))
    [] e.op = "batchinvert" ->
         /\ Len(e.outs) = Len(e.as)
         /\ \A i \in 1..Len(e.as) : InvOK(Val(e.as[i], bk), Val(e.outs[i], bk))
    \* ---- AVX2 vector lanes: four elements per vector, each ten 26/25-bit limbs
    [] e.op = "vmul" -> \A j \in 1..4 : Val(e.out[j], "u32") = FMul(Val(e.a[j], "u32"), Val(e.b[j], "u32"))
    [] e.op = "vsqnd" -> /\ \A j \in 1..3 : Val(e.out[j], "u32") = FSq(Val(e.a[j], "u32"))
                         /\ Val(e.out[4], "u32") = FNeg(FSq(Val(e.a[4], "u32")))
    [] e.op = "vreduce" -> \A j \in 1..4 : Val(e.out[j], "u32") = Val(e.a[j], "u32")
    [] e.op = "vneg" -> \A j \in 1..4 : Val(e.out[j], "u32") = FNeg(Val(e.a[j], "u32"))
    [] e.op = "vsel" -> \A j \in 1..4 : e.out[j] = (IF e.choice = 1 THEN e.b[j] ELSE e.a[j])
    [] e.op = "vsplit" -> \A j \in 1..4 : /\ e.fe[j] = FToBytes(Val(e.a[j], "u32"))
                                          /\ Val(e.out[j], "u32") = Val(e.a[j], "u32")
    [] OTHER -> FALSE

VARIABLE l
Init == l = 1
Next == /\ l <= Len(Trace)
        /\ l' = l + 1
        /\ EventOK(Trace[l]) \/ PrintT(<<"REJECT", l, Trace[l].seq>>)
Spec == Init /\ [][Next]_l
=============================================================================
