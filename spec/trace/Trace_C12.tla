----------------------------- MODULE Trace_C12 -----------------------------
(***************************************************************************)
(* C12: sr25519 (schnorrkel) at real scale, over Merlin transcripts        *)
(* (Merlin.tla / Strobe.tla / Keccak.tla) and Ristretto255 (Ristretto.tla):*)
(*  srexpand - MiniSecretKey expansion (uniform: Merlin; Ed25519-style:    *)
(*             SHA-512, clamp, divide by the cofactor), public key;        *)
(*  srsign   - the signature bytes recomputed from the secret key, the     *)
(*             transcript source (bytes / 256- or 512-bit hash / XOF), the *)
(*             context and the entropy: witness from the transcript RNG    *)
(*             keyed with the nonce, R = [r]B, k = challenge, s = k a + r, *)
(*             schnorrkel marker bit;                                      *)
(*  srverify - decision recomputed from the bytes (decoders included);     *)
(*  srdecode - the four decoders: accepted exactly when well formed, and   *)
(*             marshal(unmarshal(b)) = b;                                  *)
(*  srb*     - batch verifier histories against Batch.tla.                 *)
(***************************************************************************)
EXTENDS C25519, TraceBase

Mr == INSTANCE MerlinReal
LSigningContext == <<83, 105, 103, 110, 105, 110, 103, 67, 111, 110, 116, 101, 120, 116>>    \* "SigningContext"
LSignBytes == <<115, 105, 103, 110, 45, 98, 121, 116, 101, 115>>    \* "sign-bytes"
LSign256 == <<115, 105, 103, 110, 45, 50, 53, 54>>    \* "sign-256"
LSign512 == <<115, 105, 103, 110, 45, 53, 49, 50>>    \* "sign-512"
LSignXof == <<115, 105, 103, 110, 45, 88, 111, 70>>    \* "sign-XoF"
LProtoName == <<112, 114, 111, 116, 111, 45, 110, 97, 109, 101>>    \* "proto-name"
LSchnorrSig == <<83, 99, 104, 110, 111, 114, 114, 45, 115, 105, 103>>    \* "Schnorr-sig"
LSignPk == <<115, 105, 103, 110, 58, 112, 107>>    \* "sign:pk"
LSignR == <<115, 105, 103, 110, 58, 82>>    \* "sign:R"
LSignC == <<115, 105, 103, 110, 58, 99>>    \* "sign:c"
LSigning == <<115, 105, 103, 110, 105, 110, 103>>    \* "signing"
LExpand == <<69, 120, 112, 97, 110, 100, 83, 101, 99, 114, 101, 116, 75, 101, 121, 115>>    \* "ExpandSecretKeys"
LMini == <<109, 105, 110, 105>>    \* "mini"
LSk == <<115, 107>>    \* "sk"
LNo == <<110, 111>>    \* "no"

Lookup(tab, in) == LET hit == SelectSeq(tab, LAMBDA x : x.in = in) IN IF hit = <<>> THEN <<>> ELSE hit[1].out
InvSqrtAMD == TLCEval(SqrtRatioI(FOne, FSub(FNeg(FOne), FD))[2])
SqrtADM1 == TLCEval(FNeg(SqrtRatioI(FSub(FNeg(FD), FOne), FOne)[2]))
Ri == INSTANCE Ristretto WITH SqrtRI <- SqrtRatioI, InvSqrtAMinusD <- InvSqrtAMD, SqrtAdMinusOne <- SqrtADM1
REnc(PP) == FToBytes(Ri!EncodeField(PP))
RDec(bs) == IF Len(bs) # 32 THEN <<FALSE, ExtId>>
            ELSE LET s == FFromBytes(bs) IN IF FToBytes(s) # bs \/ FIsNeg(s) THEN <<FALSE, ExtId>> ELSE Ri!DecodeField(s)
PMul(sNat, nbits, PP) == ExtMulBits(NatBits(sNat, nbits), PP)
Zero32 == [i \in 1..32 |-> 0]

\* ---- transcripts
Context(ctx) == Mr!M!AppendMessage(Mr!NewTranscript(LSigningContext), <<>>, ctx)
TLabel(k) == CASE k = "bytes" -> LSignBytes [] k = "hash256" -> LSign256 [] k = "hash512" -> LSign512 [] k = "xof" -> LSignXof
Transcript(e) == Mr!M!AppendMessage(Context(e.ctx), TLabel(e.tkind), e.msg)
Commit(t, label, b) == Mr!M!AppendMessage(t, label, b)
ChallengeScalar(t, label) == LET r == Mr!M!ExtractBytes(t, label, 64) IN <<r[1], ModL(FromBytes(r[2]))>>

\* ---- keys
KeyOf(skb) == FromBytes(SubSeq(skb, 1, 32))
ExpandOK(e) ==
  LET keyAndNonce ==
        IF e.mode = "uniform"
        THEN LET t0 == Commit(Mr!NewTranscript(LExpand), LMini, e.mini)
                 r1 == Mr!M!ExtractBytes(t0, LSk, 64)
                 r2 == Mr!M!ExtractBytes(r1[1], LNo, 32)
             IN <<ModL(FromBytes(r1[2])), r2[2]>>
        ELSE LET d == Lookup(e.sha, e.mini)
                 \* clamp as ExpandEd25519 does, then divide by the cofactor (exact: the low three bits are clear)
                 cl == [i \in 1..32 |-> IF i = 1 THEN d[1] - (d[1] % 8) ELSE IF i = 32 THEN (d[32] % 64) + 64 ELSE d[i]]
             IN <<Shr(FromBytes(cl), 3), SubSeq(d, 33, 64)>>
      key == keyAndNonce[1]
  IN /\ e.sk = ToBytes(key, 32) \o keyAndNonce[2]
     /\ e.pk = REnc(PMul(key, 256, BasePt))

SignOK(e) ==
  LET key == KeyOf(e.sk)
      nonce == SubSeq(e.sk, 33, 64)
      t1 == Commit(Commit(Transcript(e), LProtoName, LSchnorrSig), LSignPk, e.pk)
      rng == Mr!M!Finalize(Mr!M!RekeyWithWitness(t1, LSigning, nonce), e.entropy)
      r == ModL(FromBytes(Mr!M!RngRead(rng, 64)[2]))
      Rs == REnc(PMul(r, 253, BasePt))
      k == ChallengeScalar(Commit(t1, LSignR, Rs), LSignC)[2]
      s == ScAdd(ScMul(k, key), r)
      sb == ToBytes(s, 32)
  IN e.sig = Rs \o [sb EXCEPT ![32] = @ + 128]

\* decoders
SigDecodes(b) == Len(b) = 64 /\ b[64] >= 128 /\ Lt(FromBytes([SubSeq(b, 33, 64) EXCEPT ![32] = @ - 128]), LL)
PubDecodes(b) == Len(b) = 32 /\ RDec(b)[1]
VerifySpec(e) ==
  IF ~(PubDecodes(e.pk) /\ SigDecodes(e.sig)) THEN FALSE ELSE
  LET Rs == SubSeq(e.sig, 1, 32)
      s == FromBytes([SubSeq(e.sig, 33, 64) EXCEPT ![32] = @ - 128])
      dR == RDec(Rs)
      A == RDec(e.pk)[2]
  IN IF ~dR[1] THEN FALSE ELSE
     LET t1 == Commit(Commit(Commit(Transcript(e), LProtoName, LSchnorrSig), LSignPk, e.pk), LSignR, Rs)
         k == ChallengeScalar(t1, LSignC)[2]
         W == ExtSub(ExtSub(PMul(s, 253, BasePt), PMul(k, 253, A)), dR[2])
     IN Ri!REquals(W, ExtId)
VerifyOK(e) ==
  /\ e.pkok = PubDecodes(e.pk) /\ e.sigok = SigDecodes(e.sig)
  /\ e.ok = VerifySpec(e)
  /\ e.kind = "honest" => e.ok
  /\ e.kind \in {"bitflip", "othermsg", "s+L", "otherkey", "unmarked"} => ~e.ok

\* e.reuse: decoding the same bytes into a long-lived, previously used receiver gave the same outcome, encoding and
\* derived public key as the fresh object
DecodeOK(e) ==
  LET b == e.in IN
  e.reuse /\
  CASE e.kind = "pub" -> e.ok = PubDecodes(b) /\ (e.ok => e.out = b)
    [] e.kind = "sig" -> e.ok = SigDecodes(b) /\ (e.ok => e.out = b)
    [] e.kind = "sec" -> e.ok = (Len(b) = 64 /\ Lt(FromBytes(SubSeq(b, 1, 32)), LL)) /\ (e.ok => e.out = b)
    [] e.kind = "pair" -> /\ e.ok = (Len(b) = 96 /\ Lt(FromBytes(SubSeq(b, 1, 32)), LL) /\ PubDecodes(SubSeq(b, 65, 96))
                                     /\ REnc(PMul(FromBytes(SubSeq(b, 1, 32)), 253, BasePt)) = SubSeq(b, 65, 96))
                          /\ (e.ok => e.out = b)
    [] e.kind = "edsec" -> /\ e.ok = (Len(b) = 64 /\ b[1] % 8 = 0 /\ b[32] \div 64 = 1)
                           /\ (e.ok => e.out = ToBytes(Shr(FromBytes(SubSeq(b, 1, 32)), 3), 32) \o SubSeq(b, 33, 64))
    [] OTHER -> FALSE

\* ---- batch verifier: Batch.tla with no key expansion and cofactored entries only
VARIABLES l, entries, anyInvalid, anyCofactorless, anyNotExpanded, out
B == INSTANCE Batch WITH ExpandLimit <- 0
Ev == Trace[l]
Kind(single, adm) == [keyOk |-> TRUE, keyAdm |-> adm, sigAdm |-> adm, eqCof |-> single, eqCl |-> FALSE, cl |-> FALSE]
BatchStep ==
  \/ Ev.op = "srbnew" /\ B!Reset
  \/ Ev.op = "srbreset" /\ B!Reset
  \/ Ev.op = "srbadd" /\ B!AddPlain(Kind(Ev.single, Ev.kind \in {"valid", "wrongmsg"}))
  \/ Ev.op = "srbverify" /\ B!Verify /\ out'[2] = Ev.all /\ out'[3] = Ev.vec /\ B!OutputsMatch'
  \/ Ev.op = "srbonly" /\ B!VerifyBatchOnly /\ out'[2] = Ev.res /\ B!OutputsMatch'
Stateless(e) ==
  CASE e.op = "srexpand" -> ExpandOK(e)
    [] e.op = "srsign" -> SignOK(e)
    [] e.op = "srverify" -> VerifyOK(e)
    [] e.op = "srdecode" -> DecodeOK(e)
    \* length sweep: a signature verifies on the transcript it was made for and on no transcript whose context or message
    \* differs (the framing commits to every byte and to both lengths: Merlin.tla / MC_C13 injectivity); verdict by class
    [] e.op = "srfresh" -> e.ok = TRUE        \* marshalled values are the caller's own copies
    [] e.op = "srsweep" -> e.same = TRUE /\ e.ctxlast = FALSE /\ e.msglast = FALSE /\ e.split = FALSE /\ e.failed = TRUE
    [] e.op = "srgen" -> LET key == ModL(FromBytes(SubSeq(e.entropy, 1, 64)))
                             skb == ToBytes(key, 32) \o SubSeq(e.entropy, 65, 96)
                         IN /\ e.mini = SubSeq(e.entropy, 1, 32)
                            /\ e.sk = skb
                            /\ e.pair = skb \o REnc(PMul(key, 253, BasePt))
    [] OTHER -> FALSE
TraceInit == l = 1 /\ B!Init
TraceNext == /\ l <= Len(Trace)
             /\ l' = l + 1
             /\ IF Ev.op \in {"srbnew", "srbreset", "srbadd", "srbverify", "srbonly"} THEN BatchStep
                ELSE /\ UNCHANGED <<entries, anyInvalid, anyCofactorless, anyNotExpanded, out>>
                     /\ Stateless(Ev) \/ PrintT(<<"REJECT", l, Ev.seq>>)
Spec == TraceInit /\ [][TraceNext]_<<l, entries, anyInvalid, anyCofactorless, anyNotExpanded, out>>
=============================================================================
