----------------------------- MODULE Trace_C01c -----------------------------
(***************************************************************************)
(* C01, class layer: every request that the Go replayer constructed with a *)
(* known class (torsion indices, encoding kinds, S range, k mod 8, prime-  *)
(* order equation) was sent through VerifyWithOptions and                  *)
(* VerifyExpandedWithOptions (and crypto/ed25519 under the StdLib preset); *)
(* the recorded decision must be ClassVerdict(options, class) - the        *)
(* function that MC_C01 proves equal to the declarative Accept on every    *)
(* toy request.                                                            *)
(***************************************************************************)
EXTENDS Integers, Sequences, TraceBase

\* the group parameters are irrelevant for ClassVerdict; instantiate with dummies
E == INSTANCE Ed25519 WITH GDecode <- LAMBDA s : <<FALSE, 0>>, GCanonical <- LAMBDA s : FALSE, GEncode <- LAMBDA p : 0,
                           GAdd <- LAMBDA p, q : 0, GNeg <- LAMBDA p : 0, GMulS <- LAMBDA n, p : 0,
                           GSmallOrder <- LAMBDA p : FALSE, GBase <- 0, SBelowL <- LAMBDA s : FALSE, SVal <- LAMBDA s : 0

StdLibOpts(o) == o = E!StdLib
\* results are logged as strings "true" / "false" / "error" (TLC cannot compare a boolean with a string)
ClassOK(e) ==
  LET v == IF E!Incompatible(e.o) THEN "error" ELSE IF E!ClassVerdict(e.o, e.c) THEN "true" ELSE "false" IN
  /\ e.res = v                                        \* "error" = the documented panic on the incompatible pair
  /\ e.resx = v \/ (e.resx = "nokey" /\ ~e.c.aDec)     \* expanded-key path; NewExpandedPublicKey fails iff A does not decode
  /\ Has(e, "std") => e.std = v

\* honest signatures from the library's signer verify under every legal option vector; with any one
\* signature bit flipped they are rejected
EventOK(e) ==
  CASE e.op = "vclass" -> ClassOK(e)
    [] e.op = "vhonest" -> e.res = (IF E!Incompatible(e.o) THEN "error" ELSE "true")
    [] e.op = "vmut" -> e.res = (IF E!Incompatible(e.o) THEN "error" ELSE "false")
    [] OTHER -> FALSE

VARIABLE l
Init == l = 1
Next == /\ l <= Len(Trace)
        /\ l' = l + 1
        /\ EventOK(Trace[l]) \/ PrintT(<<"REJECT", l, Trace[l].seq>>)
Spec == Init /\ [][Next]_l
=============================================================================
