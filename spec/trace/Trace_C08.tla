----------------------------- MODULE Trace_C08 -----------------------------
(***************************************************************************)
(* C08: the observations of the instrumented library (one line per         *)
(* operation and secret) must be a behaviour of the non-interference       *)
(* monitor ConstTime.tla.  A rejected line is a secret whose control /     *)
(* index signature differs from the first one seen for the operation.      *)
(***************************************************************************)
EXTENDS ConstTime, TraceBase
VARIABLE l
Ev == Trace[l]
TraceInit == l = 1 /\ CTInit
TraceNext == /\ l <= Len(Trace)
             /\ l' = l + 1
             /\ \/ Run(Ev.name, Ev.control, <<Ev.sig, Ev.n>>)
                \/ /\ ~ENABLED Run(Ev.name, Ev.control, <<Ev.sig, Ev.n>>)
                   /\ PrintT(<<"REJECT", l, Ev.secret>>)
                   /\ UNCHANGED ctvars
Spec == TraceInit /\ [][TraceNext]_<<l, ctvars>>
\* evaluated in the last state (all lines consumed)
Sensitive == l = Len(Trace) + 1 => ControlsSensitive
=============================================================================
