----------------------------- MODULE Trace_C02 -----------------------------
(***************************************************************************)
(* C02: key generation and signing.                                        *)
(*  signopt  - the complete option-validation lattice: error iff           *)
(*             Ed25519!OptionError, never a signature on an error tuple;   *)
(*  sign     - public key and signature bytes recomputed at real scale     *)
(*             from the seed exactly as RFC 8032 5.1.5 / 5.1.6 (and the    *)
(*             package's documented added-randomness nonce framing);       *)
(*             SHA-512 by hash table, inputs rebuilt by the specification; *)
(*  sigcheck - every produced signature verifies under every preset and in *)
(*             a mixed batch, and fails after any flip.                    *)
(***************************************************************************)
EXTENDS C25519, TraceBase

Dom2Prefix == <<83, 105, 103, 69, 100, 50, 53, 53, 49, 57, 32, 110, 111, 32, 69, 100, 50, 53, 53, 49, 57, 32, 99, 111, 108, 108, 105, 115, 105, 111, 110, 115>>
Dom2(f, ctx) == IF f = "pure" THEN <<>> ELSE Dom2Prefix \o <<IF f = "ph" THEN 1 ELSE 0, Len(ctx)>> \o ctx
E == INSTANCE Ed25519 WITH GDecode <- DecodePoint, GCanonical <- CanonicalStr, GEncode <- EncodePoint,
                           GAdd <- ExtAdd, GNeg <- ExtNeg, GMulS <- LAMBDA s, PP : ExtMulBits(NatBits(s, 253), PP),
                           GSmallOrder <- ExtIsSmallOrder, GBase <- BasePt,
                           SBelowL <- LAMBDA bs : Lt(FromBytes(bs), LL), SVal <- LAMBDA bs : FromBytes(bs)

\* hash table lookup: the digest logged for exactly this input, <<>> if absent
Sha(e, in) == LET hit == SelectSeq(e.sha, LAMBDA x : x.in = in) IN IF hit = <<>> THEN <<>> ELSE hit[1].out
Clamp(h32) == [i \in 1..32 |-> IF i = 1 THEN h32[1] - (h32[1] % 8)
                                ELSE IF i = 32 THEN (h32[32] % 64) + 64 ELSE h32[i]]
Zeros(n) == [i \in 1..n |-> 0]
SignOK(e) ==
  LET h0 == Sha(e, e.seed)
      a == FromBytes(Clamp(SubSeq(h0, 1, 32)))              \* 255-bit clamped integer, not reduced
      prefix == SubSeq(h0, 33, 64)
      A == ExtMulBits(NatBits(a, 255), BasePt)
      As == EncodePoint(A)
      dom == Dom2(e.f, e.ctx)
      nin == IF e.addRand THEN dom \o e.z \o prefix \o Zeros(1024 - (Len(dom) + 64)) \o e.msg
             ELSE dom \o prefix \o e.msg
      hr == Sha(e, nin)
      r == ModL(FromBytes(hr))
      Rs == EncodePoint(ExtMulBits(NatBits(r, 253), BasePt))
      hk == Sha(e, dom \o Rs \o As \o e.msg)
      k == ModL(FromBytes(hk))
      S == ScAdd(r, ScMul(k, ModL(a)))
  IN /\ Len(h0) = 64 /\ Len(hr) = 64 /\ Len(hk) = 64        \* every hash input the spec builds is in the table
     /\ e.pk = As
     /\ e.sig = Rs \o ToBytes(S, 32)
     /\ Has(e, "std") => (e.std = e.sig /\ e.stdpk = e.pk)   \* crypto/ed25519 is the named reference
     /\ CanonicalStr(Rs) /\ Lt(S, LL)

EventOK(e) ==
  CASE e.op = "signopt" ->
         LET err == E!OptionError(e.hash, e.ctxLen, e.msgLen, e.privLen, e.addRand, e.entropyFails, e.vonil, e.vo)
         IN e.err = err /\ e.gotsig = ~err /\ ~Has(e, "panic")
    [] e.op = "sign" -> SignOK(e)
    [] e.op = "sigcheck" -> \A i \in 1..Len(e.res) : e.res[i] = (e.kind = "accept")
    [] OTHER -> FALSE

VARIABLE l
Init == l = 1
Next == /\ l <= Len(Trace)
        /\ l' = l + 1
        /\ EventOK(Trace[l]) \/ PrintT(<<"REJECT", l, Trace[l].seq>>)
Spec == Init /\ [][Next]_l
=============================================================================
