----------------------------- MODULE Trace_C07 -----------------------------
(***************************************************************************)
(* C07: recorded X25519 calls against the RFC 7748 ladder (Montgomery.tla, *)
(* the definition) evaluated at real scale: clamping, u masking (bit 255   *)
(* ignored, values >= p reduced), the all-zero/low-order error of the      *)
(* checked entry point, length errors, the fixed-base routine, and the     *)
(* Ed25519 -> X25519 key conversions.                                      *)
(***************************************************************************)
EXTENDS C25519, TraceBase

Mo == INSTANCE Montgomery WITH A24 <- FInt(121665), APLUS2OVER4 <- FInt(121666)
Clamp(bs) == [i \in 1..32 |-> IF i = 1 THEN bs[1] - (bs[1] % 8) ELSE IF i = 32 THEN (bs[32] % 64) + 64 ELSE bs[i]]
X25519(sc, pt) == FToBytes(Mo!LadderRFC(NatBits(FromBytes(Clamp(sc)), 255), FFromBytes(pt)))
Zero32 == [i \in 1..32 |-> 0]
Nine == [i \in 1..32 |-> IF i = 1 THEN 9 ELSE 0]
Sha(e, in) == LET hit == SelectSeq(e.sha, LAMBDA x : x.in = in) IN IF hit = <<>> THEN <<>> ELSE hit[1].out

EventOK(e) ==
  CASE e.op = "x25519" ->          \* checked entry point X25519(scalar, point)
         IF Len(e.scalar) # 32 \/ Len(e.point) # 32 THEN e.err
         ELSE LET out == X25519(e.scalar, e.point) IN
              IF out = Zero32 THEN e.err ELSE ~e.err /\ e.out = out
    [] e.op = "scalarmult" -> e.out = X25519(e.scalar, e.point)      \* ScalarMult / DiffieHellman: no error channel
    [] e.op = "basemult" -> e.out = X25519(e.scalar, Nine)           \* ScalarBaseMult / X25519(s, Basepoint) / Public()
    [] e.op = "edpriv" -> LET h == Sha(e, e.seed) IN Len(h) = 64 /\ e.out = Clamp(SubSeq(h, 1, 32))
    [] e.op = "edpub" ->
         IF Len(e.pk) # 32 THEN ~e.ok
         ELSE LET d == DecompressWithCert(StrY(e.pk), StrSign(e.pk), FZero)
                  y == d[2][2]
              IN /\ e.ok = d[1]
                 /\ e.ok => e.out = FToBytes(FMul(FAdd(FOne, y), FInv(FSub(FOne, y))))
    [] e.op = "check" -> e.ok                                       \* DH symmetry, key-pair conversion consistency
    [] OTHER -> FALSE

VARIABLE l
Init == l = 1
Next == /\ l <= Len(Trace)
        /\ l' = l + 1
        /\ EventOK(Trace[l]) \/ PrintT(<<"REJECT", l, Trace[l].seq>>)
Spec == Init /\ [][Next]_l
=============================================================================
