---------------------------- MODULE Trace_C04w ----------------------------
(***************************************************************************)
(* C04, word level: every bound-transfer instance recorded from the shadow  *)
(* execution of the real radix-2^51 backend (overlay/shadow: each Element   *)
(* carries an upper bound per limb; the rewritten field_u64.go calls one    *)
(* hook per operation) must satisfy FieldWords.tla at real scale:           *)
(*   - Pre(op, bounds in): no 64-bit or 128-bit intermediate of the         *)
(*     operation can wrap and no subtraction can go below zero for ANY      *)
(*     element under the bounds (soundness of that step: MC_C04w);          *)
(*   - the bound the recorder attached to the result is at least Post(op).  *)
(* An "exceed" event (a concrete limb above its bound) is never accepted.   *)
(* By induction over the executed operations every bound is a true bound,   *)
(* so every representation the library produced on the executed paths is    *)
(* inside the no-wrap region, whatever the concrete values were.            *)
(***************************************************************************)
EXTENDS BigNat, TraceBase

Two55 == Shl(FromInt(1), 55)
KPv == <<Sub(Two55, FromInt(304)), Sub(Two55, FromInt(16)), Sub(Two55, FromInt(16)), Sub(Two55, FromInt(16)), Sub(Two55, FromInt(16))>>
FW == INSTANCE FieldWords WITH NL <- 5, LB <- 51, W <- 64, CF <- FromInt(19), KP <- KPv, M66 <- FromInt(121666),
        P <- LAMBDA x, y : Add(x, y), T <- LAMBDA x, y : Mul(x, y), LE <- LAMBDA x, y : Le(x, y),
        SHR <- LAMBDA x, k : Shr(x, k), LOW <- LAMBDA x, k : LowBits(x, k), POW2 <- LAMBDA k : Shl(FromInt(1), k),
        MONUS <- LAMBDA x, y : Sub(x, y), Z <- Zero, ONE <- FromInt(1)

Vec(ls) == TLCEval([i \in 1..5 |-> FromBytes(ls[i])])
EventOK(e) ==
  /\ e.op # "exceed"
  /\ LET a == Vec(e.a)  b == Vec(e.b)  out == Vec(e.out) IN
     /\ FW!Pre(e.op, a, b, e.k)
     /\ FW!LeVec(FW!Post(e.op, a, b, e.k), out)

VARIABLE l
Init == l = 1
Next == /\ l <= Len(Trace)
        /\ l' = l + 1
        /\ EventOK(Trace[l]) \/ PrintT(<<"REJECT", l, Trace[l].seq>>)
Spec == Init /\ [][Next]_l
=============================================================================
