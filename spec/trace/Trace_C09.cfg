CONSTANTS ExpandLimit = 94
SPECIFICATION Spec
POSTCONDITION AllConsumed
INVARIANT FlagsExact
INVARIANT NoNilKeyOnPrecomputedPath
CHECK_DEADLOCK FALSE
