----------------------------- MODULE ConstTime -----------------------------
(***************************************************************************)
(* Non-interference monitor for property C08 (2-safety over observed       *)
(* runs).  An observation build of the library reports, for one operation  *)
(* run on one secret, the signature of the sequence of (site, value) of    *)
(* every index, slice bound and branch condition it evaluated.  For each   *)
(* operation (= one public shape: the operation, the lengths, the public   *)
(* operands are fixed by the driver) the first signature is stored; Run is *)
(* enabled only if the signature of the next secret is equal.  Variable-   *)
(* time routines are run as sensitivity controls: their signatures MUST    *)
(* differ between secrets, which shows the observation is able to see a    *)
(* dependence.                                                             *)
(***************************************************************************)
EXTENDS Integers, Sequences, FiniteSets

VARIABLES sigOf,      \* operation name -> the signature <<hash, count>> first seen
          ctlSigs     \* control operation -> set of signatures seen
ctvars == <<sigOf, ctlSigs>>
CTInit == sigOf = <<>> /\ ctlSigs = <<>>
Known(f, k) == k \in DOMAIN f
Put(f, k, v) == [x \in DOMAIN f \cup {k} |-> IF x = k THEN v ELSE f[x]]
Run(name, control, sg) ==
  IF control
  THEN /\ ctlSigs' = Put(ctlSigs, name, (IF Known(ctlSigs, name) THEN ctlSigs[name] ELSE {}) \cup {sg})
       /\ sigOf' = sigOf
  ELSE /\ (Known(sigOf, name) => sigOf[name] = sg)          \* equal public shape => equal control and index signature
       /\ sigOf' = Put(sigOf, name, sg)
       /\ ctlSigs' = ctlSigs
\* at the end of a trace: every control operation showed at least two signatures
ControlsSensitive == \A k \in DOMAIN ctlSigs : Cardinality(ctlSigs[k]) >= 2
=============================================================================
