----------------------------- MODULE Robustness -----------------------------
(***************************************************************************)
(* The API contract behind property C19, as a table: for every entry point *)
(* that takes externally supplied bytes, the admissible length range of    *)
(* each argument, how malformed input is signalled (error / false), and    *)
(* the only documented panics.  An observed call is allowed iff            *)
(*   - it did not panic, except for a documented panic in its documented   *)
(*     situation;                                                          *)
(*   - with any argument outside its length range it signalled failure;    *)
(*   - after a failure the receiver / result is in its neutral state       *)
(*     (identity, zero, nil), never stale.                                 *)
(* Functional correctness on well-formed input is the business of the      *)
(* other properties' specifications.                                       *)
(***************************************************************************)
EXTENDS Integers, Sequences

Any == <<0, 1000000>>
Ex(n) == <<n, n>>
\* api -> <<sequence of length ranges, failure signal>>
Contract(api) ==
  CASE api \in {"curve.CompressedEdwardsY.SetBytes", "curve.CompressedEdwardsY.UnmarshalBinary", "curve.NewCompressedEdwardsYFromBytes",
                "curve.EdwardsPoint.UnmarshalBinary", "curve.CompressedRistretto.SetBytes", "curve.CompressedRistretto.UnmarshalBinary",
                "curve.RistrettoPoint.UnmarshalBinary", "curve.MontgomeryPoint.SetBytes", "scalar.SetBytesModOrder",
                "scalar.SetCanonicalBytes", "scalar.SetBits", "scalar.UnmarshalBinary", "ed25519.NewExpandedPublicKey",
                "sr25519.NewPublicKeyFromBytes", "sr25519.NewMiniSecretKeyFromBytes"} -> <<<<Ex(32)>>, "error">>
    [] api \in {"curve.RistrettoPoint.SetUniformBytes", "scalar.SetBytesModOrderWide", "sr25519.NewSecretKeyFromBytes",
                "sr25519.NewSecretKeyFromEd25519Bytes", "sr25519.NewSignatureFromBytes"} -> <<<<Ex(64)>>, "error">>
    [] api = "sr25519.NewKeyPairFromBytes" -> <<<<Ex(96)>>, "error">>
    [] api = "scalar.ScMinimalVartime" -> <<<<Ex(32)>>, "false">>
    [] api \in {"ed25519.Verify", "ed25519.BatchVerifier.Add", "ed25519.BatchVerifier.AddNoExpand", "cache.Verifier.Verify",
                "cache.Verifier.Add"} -> <<<<Ex(32), Any, Ex(64)>>, "false">>
    [] api = "ed25519.VerifyWithOptions.ph" -> <<<<Ex(32), Ex(64), Ex(64)>>, "false">>
    [] api = "ed25519.VerifyExpanded" -> <<<<Any, Ex(64)>>, "false">>
    [] api = "cache.Verifier.AddPublicKey" -> <<<<Any>>, "none">>
    [] api = "ed25519.PrivateKey.Sign" -> <<<<Ex(64), Any>>, "error">>
    [] api \in {"ecvrf.Verify", "ecvrf.Verify_v10"} -> <<<<Ex(32), Ex(80), Any>>, "false">>
    [] api = "ecvrf.VerifyGoodKey" -> <<<<Ex(80), Any>>, "false">>
    [] api = "ecvrf.ProofToHash" -> <<<<Ex(80)>>, "error">>
    [] api = "ecvrf.ProveWithAddedRandomness" -> <<<<Ex(64), Any>>, "error">>
    [] api = "sr25519.Verify" -> <<<<Ex(32), Ex(64), Any>>, "false">>
    [] api = "x25519.X25519" -> <<<<Ex(32), Ex(32)>>, "error">>
    [] api = "x25519.EdPublicKeyToX25519" -> <<<<Ex(32)>>, "false">>
    \* expand_message: output length 1 .. 255 * digest size (XMD, SHA-512: 16320) / 1 .. 65535 (XOF); zero length refused
    [] api = "h2c.ExpandMessageXMD" -> <<<<<<1, 16320>>, Any, Any>>, "error">>
    [] api = "h2c.ExpandMessageXOF" -> <<<<<<1, 65535>>, Any, Any>>, "error">>
    [] api \in {"h2c.Edwards25519_XMD_SHA512_ELL2_RO", "h2c.Ristretto255_XOF_R255MAP_RO"} -> <<<<Any, Any>>, "error">>
    [] api = "merlin.Transcript" -> <<<<Any, Any, Any>>, "error">>
    \* entropy sources that deliver k bytes and then fail (the argument is what the reader delivers): an error unless the
    \* source yields what the operation needs; a result made from a short read is never returned
    [] api \in {"entropy.ed25519.GenerateKey", "entropy.x25519.GenerateKey", "entropy.sr25519.GenerateMiniSecretKey",
                "entropy.merlin.Finalize", "entropy.ed25519.Sign.AddedRandomness", "entropy.sr25519.Sign",
                "entropy.ecvrf.ProveWithAddedRandomness", "entropy.ecvrf.ProveWithAddedRandomness_v10"} -> <<<<<<32, 1000000>>>>, "error">>
    [] api = "entropy.scalar.SetRandom" -> <<<<<<64, 1000000>>>>, "error">>
    [] api \in {"entropy.sr25519.GenerateSecretKey", "entropy.sr25519.GenerateKeyPair"} -> <<<<<<96, 1000000>>>>, "error">>
    [] OTHER -> <<<<>>, "unknown">>

InRange(n, rg) == n >= rg[1] /\ n <= rg[2]
LensOK(api, lens) == LET c == Contract(api)[1] IN Len(lens) = Len(c) /\ \A i \in 1..Len(c) : InRange(lens[i], c[i])
Success == {"ok", "true"}
Failure == {"error", "false"}

\* the documented panics (doc comments of ed25519.Verify / VerifyWithOptions): wrong public-key length; wrong
\* pre-hash length.  msgclass is the recorder's classification of the panic text by its documented prefix.
DocumentedPanic(api, lens, msgclass) ==
  \/ api \in {"ed25519.Verify", "ed25519.VerifyWithOptions.ph"} /\ msgclass = "badpklen" /\ lens[1] # 32
  \/ api = "ed25519.VerifyWithOptions.ph" /\ msgclass = "badhashlen" /\ lens[2] # 64

\* overrun: the callee wrote past the end of a byte slice it was given (into the caller's spare capacity)
Allowed(api, lens, outcome, after, msgclass, overrun) ==
  /\ Contract(api)[2] # "unknown"
  /\ after # "stale"
  /\ ~overrun
  /\ IF outcome = "panic" THEN DocumentedPanic(api, lens, msgclass)
     ELSE IF LensOK(api, lens) THEN outcome \in Success \cup Failure
     ELSE outcome = Contract(api)[2]                       \* malformed length: the documented failure signal
=============================================================================
