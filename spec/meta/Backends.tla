------------------------------ MODULE Backends ------------------------------
(***************************************************************************)
(* Configuration-equivalence monitor for property C06.  A workload is a    *)
(* sequence of steps (one exported operation on given inputs each); every  *)
(* configuration {default (amd64 assembly + AVX2), AVX2 disabled, purego,  *)
(* force32bit} executes the same workload and reports, per step, a digest  *)
(* of everything a caller can observe (output bytes, accept/reject         *)
(* decisions, error classes).  ref is the digest first seen for the step   *)
(* under observation; Observe is enabled only if the new digest agrees.    *)
(* Observations of one step are consecutive in the merged trace, so one    *)
(* reference suffices.  Invariant by construction of the action: a step    *)
(* has one output across configurations.                                   *)
(***************************************************************************)
EXTENDS Integers, Sequences

VARIABLES ref,       \* <<workload, step, digest>> of the step under observation, or <<>>
          seenCfgs   \* configurations that have reported the current step
bkvars == <<ref, seenCfgs>>
BInit == ref = <<>> /\ seenCfgs = {}
Observe(wl, step, cfg, d) ==
  IF ref # <<>> /\ ref[1] = wl /\ ref[2] = step
  THEN /\ d = ref[3]                 \* same step: the observation must be identical
       /\ cfg \notin seenCfgs
       /\ seenCfgs' = seenCfgs \cup {cfg}
       /\ ref' = ref
  ELSE /\ ref' = <<wl, step, d>>     \* first report of a new step
       /\ seenCfgs' = {cfg}
=============================================================================
