------------------------------- MODULE Field -------------------------------
(***************************************************************************)
(* Field-level algorithms shared by every instance (toy primes with native *)
(* integers, 2^255-19 with BigNat limbs).  The carrier operations are      *)
(* CONSTANT operators; elements are canonical, so = is field equality.     *)
(* p = 5 (mod 8) in every instance, so the square-root algorithm is the    *)
(* same text at toy scale (where TLC checks it against the declarative     *)
(* definition on every (u, v)) and at real scale (where it is the oracle   *)
(* for traces recorded from internal/field).                               *)
(***************************************************************************)
EXTENDS Integers, Sequences, SequencesExt

CONSTANTS FAdd(_, _), FSub(_, _), FMul(_, _), FNeg(_), FInv(_), FPowP58(_), FIsNeg(_),
          FZero, FOne, FSqrtM1

FSq_(a) == FMul(a, a)
FAbs(a) == IF FIsNeg(a) THEN FNeg(a) ELSE a

(***************************************************************************)
(* sqrt_ratio_i of RFC 9496 4.2 / internal/field SqrtRatioI:               *)
(*   <<TRUE,  +sqrt(u/v)>>   if u/v is a non-zero square                   *)
(*   <<TRUE,  0>>            if u = 0                                      *)
(*   <<FALSE, 0>>            if v = 0 and u # 0                            *)
(*   <<FALSE, +sqrt(i*u/v)>> if u/v is a non-square                        *)
(* This is the algorithm (as the code computes it).                        *)
(***************************************************************************)
SqrtRatioI(u, v) ==
  LET v3 == FMul(FSq_(v), v)
      v7 == FMul(FSq_(v3), v)
      r0 == FMul(FMul(u, v3), FPowP58(FMul(u, v7)))
      chk == FMul(v, FSq_(r0))
      nu == FNeg(u)
      correct == chk = u
      flipped == chk = nu
      flippedI == chk = FMul(nu, FSqrtM1)
      r1 == IF flipped \/ flippedI THEN FMul(FSqrtM1, r0) ELSE r0
  IN <<correct \/ flipped, FAbs(r1)>>

\* certificate form: r is claimed to be SqrtRatioI(u, v)[2] with flag ok.
\* Sound without computing the exponentiation: the conditions determine (ok, r).
SqrtRatioCertOK(u, v, ok, r) ==
  /\ ~FIsNeg(r)
  /\ IF u = FZero THEN ok /\ r = FZero
     ELSE IF v = FZero THEN ~ok /\ r = FZero
     ELSE IF ok THEN FMul(v, FSq_(r)) = u
     ELSE FMul(v, FSq_(r)) = FMul(FSqrtM1, u)

InvSqrt(v) == SqrtRatioI(FOne, v)
=============================================================================
