----------------------------- MODULE ScMinimal -----------------------------
(***************************************************************************)
(* The fast minimality test curve/scalar/sc_minimal.go:ScMinimalVartime as *)
(* an algorithm over four W-bit words, for an order ELLW = 2^(4W-4) + C    *)
(* (the shape of L = 2^252 + c with 64-bit words):                         *)
(*   top four bits clear            -> accept                              *)
(*   any of the top three bits set  -> reject                              *)
(*   otherwise compare word by word from the top; equal everywhere -> reject*)
(***************************************************************************)
EXTENDS Integers, Sequences

CONSTANTS W, C
NBITS == 4 * W
ELLW == 2 ^ (NBITS - 4) + C
Word(v, i) == (v \div (2 ^ (W * i))) % (2 ^ W)          \* i = 0..3
Top4(v) == v \div (2 ^ (NBITS - 4))

RECURSIVE Cmp(_, _)
Cmp(v, i) == IF Word(v, i) > Word(ELLW, i) THEN FALSE
             ELSE IF Word(v, i) < Word(ELLW, i) THEN TRUE
             ELSE IF i = 0 THEN FALSE
             ELSE Cmp(v, i - 1)
MinimalAlg(v) == IF Top4(v) = 0 THEN TRUE
                 ELSE IF Top4(v) \div 2 # 0 THEN FALSE
                 ELSE Cmp(v, 3)
MinimalDecl(v) == v < ELLW
=============================================================================
