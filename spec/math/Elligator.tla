----------------------------- MODULE Elligator -----------------------------
(***************************************************************************)
(* RFC 9380 map_to_curve_elligator2 for a Montgomery curve K t^2 = s^3 +   *)
(* J s^2 + s with K = 1 (section 6.7.1, the straight-line DEFINITION with  *)
(* is_square / sqrt / sgn0 / inv0) followed by the rational map to the     *)
(* twisted Edwards form (appendix D.1, with its exceptional cases), as     *)
(* section 6.8.2 prescribes for edwards25519.  Parametric in the field so  *)
(* that TLC can check it on every element of the toy fields.               *)
(***************************************************************************)
EXTENDS Integers, Sequences

CONSTANTS FAdd(_, _), FSub(_, _), FMul(_, _), FNeg(_), FInv(_), FIsNeg(_), FZero, FOne,
          IsSquare(_),        \* field element -> BOOLEAN (0 counts as square)
          Sqrt(_),            \* a square -> one of its roots (which one is fixed below by sgn0)
          JJ,                 \* Montgomery J (486662)
          ZZ,                 \* the non-square Z of the suite (2)
          C1                  \* sqrt(-(J + 2)) with sgn0(C1) = 0: the scaling of the rational map (sqrt(-486664))

Sq(a) == FMul(a, a)
Sgn0(a) == IF FIsNeg(a) THEN 1 ELSE 0
Inv0(a) == FInv(a)            \* 0 -> 0 in every instance
\* Montgomery curve: g(x) = x^3 + J x^2 + x
G(x) == FAdd(FAdd(FMul(Sq(x), x), FMul(JJ, Sq(x))), x)
\* <<s, t>> on the Montgomery curve
MapToMontgomery(u) ==
  LET x1a == FMul(FNeg(JJ), Inv0(FAdd(FOne, FMul(ZZ, Sq(u)))))
      x1 == IF x1a = FZero THEN FNeg(JJ) ELSE x1a
      gx1 == G(x1)
      x2 == FSub(FNeg(x1), JJ)
      gx2 == G(x2)
      e2 == IsSquare(gx1)
      x == IF e2 THEN x1 ELSE x2
      y0 == IF e2 THEN Sqrt(gx1) ELSE Sqrt(gx2)
      \* sgn0(y) must be 1 when gx1 is square and 0 otherwise
      y == IF (Sgn0(y0) = 1) = e2 THEN y0 ELSE FNeg(y0)
  IN <<x, y>>
\* appendix D.1 rational map, exceptional cases -> (0, 1)
MontgomeryToEdwards(st) ==
  LET s == st[1]  t == st[2]
      tv1 == FAdd(s, FOne)
      tv2 == FMul(tv1, t)
  IN IF tv2 = FZero THEN <<FZero, FOne>>
     ELSE <<FMul(FMul(C1, s), FInv(t)), FMul(FSub(s, FOne), FInv(tv1))>>
\* affine Edwards point <<v, w>>
MapToCurve(u) == MontgomeryToEdwards(MapToMontgomery(u))
=============================================================================
