----------------------------- MODULE FieldWords -----------------------------
(***************************************************************************)
(* Word-level model of the radix-2^LB field backend (internal/field/        *)
(* field_u64.go: NL = 5 limbs of LB = 51 bits in W = 64-bit words, 2W-bit   *)
(* accumulators, fold constant CF = 19, K*p added before subtracting).      *)
(*                                                                         *)
(* C04 says "no intermediate quantity silently wraps a machine word ... for *)
(* every element value in every internal representation the library can     *)
(* itself produce".  The representations are described by BOUND VECTORS: m  *)
(* bounds an element x when x[i] <= m[i] for every limb.  For every         *)
(* operation the module defines                                             *)
(*   Pre(op, ma, mb)  - every single-word / double-word intermediate of the *)
(*                      code, evaluated at the bounds, fits its word, and   *)
(*                      no subtraction goes below zero;                     *)
(*   Post(op, ma, mb) - a bound vector for the result.                      *)
(* All intermediates of the code are monotone in the limbs (sums and        *)
(* products of naturals, shifts; masked values are bounded by the mask), so *)
(* Pre at the bounds implies no wrap for every element under the bounds.    *)
(* MC_C04w proves exactly that on a complete toy instance, against WORD     *)
(* SEMANTICS WITH WRAP-AROUND (the Impl operators below): Pre => the        *)
(* wrapping algorithm returns limbs <= Post whose value is the exact        *)
(* result mod p.  At real scale (carrier = BigNat) Trace_C04w applies Pre   *)
(* and Post to the bound-transfer instances recorded from a shadow          *)
(* execution of the real library.                                           *)
(*                                                                         *)
(* The carrier (native integers for the toy instance, BigNat at real scale) *)
(* is supplied through operator constants.                                  *)
(***************************************************************************)
EXTENDS Integers, Sequences, TLC

CONSTANTS NL, LB, W, CF, KP, M66,      \* KP: limbs of the multiple of p added by Sub/Neg; M66: 121666
          P(_, _), T(_, _), LE(_, _), SHR(_, _), LOW(_, _), POW2(_), MONUS(_, _), Z, ONE

Idx == 1..NL
MAXW == MONUS(POW2(W), ONE)
MAXD == MONUS(POW2(2 * W), ONE)
MASK == MONUS(POW2(LB), ONE)
FitsW(x) == LE(x, MAXW)
FitsD(x) == LE(x, MAXD)
MaxC(x, y) == IF LE(x, y) THEN y ELSE x
LeVec(a, b) == \A i \in Idx : LE(a[i], b[i])
RECURSIVE SumTo(_, _)
SumTo(f, n) == IF n = 0 THEN Z ELSE P(SumTo(f, n - 1), f[n])

\* ---------------------------------------------------------------- multiplication
\* column j (1-based) of the schoolbook product with the fold: a[i] * b[j-i+1], or a[i] * (CF*b[NL+j-i+1]) when wrapped
MulCol(a, b, j) ==
  SumTo(TLCEval([i \in Idx |-> IF j >= i THEN T(a[i], b[j - i + 1]) ELSE T(a[i], T(CF, b[NL + j - i + 1]))]), NL)
\* the carry chain of the weak reduction: col[j+1] += col[j] >> LB; returns <<cols after carry-in, carries>>
RECURSIVE Chain(_, _, _)
Chain(cols, j, cin) ==       \* cols: the raw columns j..NL
  IF j > NL THEN <<>> ELSE LET c == P(cols[j], cin) IN <<c>> \o Chain(cols, j + 1, SHR(c, LB))
ChainOK(cols) ==
  LET ch == Chain(cols, 1, Z) IN
  /\ \A j \in Idx : FitsD(ch[j]) /\ FitsW(SHR(ch[j], LB))
  /\ FitsW(P(MASK, T(SHR(ch[NL], LB), CF)))
ChainPost(cols) ==
  LET ch == Chain(cols, 1, Z)
      f0 == P(MASK, T(SHR(ch[NL], LB), CF))
  IN TLCEval([i \in Idx |-> IF i = 2 THEN P(MASK, SHR(f0, LB)) ELSE MASK])
MulCols(a, b) == TLCEval([j \in Idx |-> MulCol(a, b, j)])
MulPre(a, b) == /\ \A i \in 2..NL : FitsW(T(CF, b[i]))
                /\ ChainOK(MulCols(a, b))
MulPost(a, b) == ChainPost(MulCols(a, b))

\* squaring (one iteration of fePow2k): doubles of the limbs in SQ2, CF-multiples of those in SQ19, same columns
SQ2 == (1..(NL - 2)) \cup {NL}
SQ19 == {NL - 1, NL}
SqPre(a) == /\ \A i \in SQ2 : FitsW(T(P(ONE, ONE), a[i]))
            /\ \A i \in SQ19 : FitsW(T(CF, a[i]))
            /\ ChainOK(MulCols(a, a))
SqPost(a) == ChainPost(MulCols(a, a))
\* k squarings; the iteration stops at a fixed point of the bound (reached after two or three steps)
EqVec(a, b) == LeVec(a, b) /\ LeVec(b, a)
RECURSIVE PowPre(_, _)
PowPre(a, k) == SqPre(a) /\ (k <= 1 \/ LET s == SqPost(a) IN EqVec(s, a) \/ PowPre(s, k - 1))
RECURSIVE PowPost(_, _)
PowPost(a, k) == LET s == SqPost(a) IN IF k <= 1 \/ EqVec(s, a) THEN s ELSE PowPost(s, k - 1)

\* multiplication by the small constant M66: one product per limb, same chain
M66Cols(a) == TLCEval([j \in Idx |-> T(a[j], M66)])
M66Pre(a) == ChainOK(M66Cols(a))
M66Post(a) == ChainPost(M66Cols(a))

\* ---------------------------------------------------------------- weak reduction, subtraction, negation
RedPost(l) == TLCEval([i \in Idx |-> IF i = 1 THEN P(MASK, T(SHR(l[NL], LB), CF)) ELSE P(MASK, SHR(l[i - 1], LB))])
RedPre(l) == (\A i \in Idx : FitsW(l[i])) /\ FitsW(RedPost(l)[1])
\* (a[i] + KP[i]) - b[i]: the sum must fit, the difference must not go below zero for any a >= 0
SubPre(a, b) == /\ \A i \in Idx : FitsW(P(a[i], KP[i])) /\ LE(b[i], KP[i])
                /\ RedPre(TLCEval([i \in Idx |-> P(a[i], KP[i])]))
SubPost(a, b) == RedPost(TLCEval([i \in Idx |-> P(a[i], KP[i])]))
ZeroVec == TLCEval([i \in Idx |-> Z])
NegPre(a) == SubPre(ZeroVec, a)
NegPost(a) == SubPost(ZeroVec, a)

AddPre(a, b) == \A i \in Idx : FitsW(P(a[i], b[i]))
AddPost(a, b) == TLCEval([i \in Idx |-> P(a[i], b[i])])
Sq2Pre(a) == SqPre(a) /\ \A i \in Idx : FitsW(T(P(ONE, ONE), SqPost(a)[i]))
Sq2Post(a) == TLCEval([i \in Idx |-> T(P(ONE, ONE), SqPost(a)[i])])
JoinPost(a, b) == TLCEval([i \in Idx |-> MaxC(a[i], b[i])])     \* conditional select / swap / assign

\* decoding: masked limbs; wide decoding: lo + 2*CF*hi (+ CF + 2*CF*CF in limb 1 for the two top bits), then reduce
BytesPost == TLCEval([i \in Idx |-> MASK])
WidePreRed == TLCEval([i \in Idx |-> LET t == P(MASK, T(T(P(ONE, ONE), CF), MASK))
                                      IN IF i = 1 THEN P(t, P(CF, T(P(ONE, ONE), T(CF, CF)))) ELSE t])
WidePre == RedPre(WidePreRed)
WidePost == RedPost(WidePreRed)
\* encoding: weak reduction of the limbs as they are, then h + 19 and the carry chain on limbs <= MASK + small
ToBytesPre(a) == /\ RedPre(a)
                 /\ LET r == RedPost(a) IN \A i \in Idx : FitsW(P(P(r[i], T(CF, ONE)), POW2(W - LB)))

\* one table for the trace specification
Pre(op, a, b, k) ==
  CASE op = "mul" -> MulPre(a, b) [] op = "square" -> SqPre(a) [] op = "pow2k" -> PowPre(a, k)
    [] op = "square2" -> Sq2Pre(a) [] op = "mul121666" -> M66Pre(a) [] op = "add" -> AddPre(a, b)
    [] op = "sub" -> SubPre(a, b) [] op = "neg" -> NegPre(a) [] op = "join" -> TRUE
    [] op = "setbytes" -> TRUE [] op = "setbyteswide" -> WidePre [] op = "tobytes" -> ToBytesPre(a)
    [] op = "const" -> \A i \in Idx : FitsW(a[i])
    [] OTHER -> FALSE
Post(op, a, b, k) ==
  CASE op = "mul" -> MulPost(a, b) [] op = "square" -> SqPost(a) [] op = "pow2k" -> PowPost(a, k)
    [] op = "square2" -> Sq2Post(a) [] op = "mul121666" -> M66Post(a) [] op = "add" -> AddPost(a, b)
    [] op = "sub" -> SubPost(a, b) [] op = "neg" -> NegPost(a) [] op = "join" -> JoinPost(a, b)
    [] op = "setbytes" -> BytesPost [] op = "setbyteswide" -> WidePost [] op = "tobytes" -> a
    [] op = "const" -> a

\* ---------------------------------------------------------------- the algorithms with wrap-around (word semantics)
WW(x) == LOW(x, W)            \* a single-word result
WD(x) == LOW(x, 2 * W)        \* a double-word accumulator
ImplChain(cols) ==            \* cols already wrapped to double words
  LET step(j, cin) == WD(P(cols[j], cin))
      RECURSIVE Go(_, _)
      Go(j, cin) == IF j > NL THEN <<>> ELSE LET c == step(j, cin) IN <<c>> \o Go(j + 1, WW(SHR(c, LB)))
      ch == Go(1, Z)
      carry == WW(SHR(ch[NL], LB))
      f0 == WW(P(LOW(ch[1], LB), WW(T(carry, CF))))
  IN TLCEval([i \in Idx |-> IF i = 1 THEN LOW(f0, LB)
                            ELSE IF i = 2 THEN WW(P(LOW(ch[2], LB), SHR(f0, LB))) ELSE LOW(ch[i], LB)])
RECURSIVE SumWD(_, _)
SumWD(f, n) == IF n = 0 THEN Z ELSE WD(P(SumWD(f, n - 1), f[n]))
ImplMul(a, b) ==
  LET b19 == TLCEval([i \in Idx |-> WW(T(CF, b[i]))])
      col(j) == SumWD(TLCEval([i \in Idx |-> IF j >= i THEN T(a[i], b[j - i + 1]) ELSE T(a[i], b19[NL + j - i + 1])]), NL)
  IN ImplChain(TLCEval([j \in Idx |-> col(j)]))
ImplSquare(a) ==
  LET d == TLCEval([i \in Idx |-> WW(T(P(ONE, ONE), a[i]))])
      a19 == TLCEval([i \in Idx |-> WW(T(CF, a[i]))])
      \* term for the limb pair i <= k contributing to column j
      term(i, k) == IF i = k THEN T(a[i], IF 2 * i - 1 > NL THEN a19[i] ELSE a[i])
                    ELSE LET dbl == IF i = NL - 1 /\ k = NL THEN k ELSE i
                             oth == IF dbl = i THEN k ELSE i
                         IN T(d[dbl], IF i + k - 1 > NL THEN a19[oth] ELSE a[oth])
      colOf(i, k) == LET s == i + k - 1 IN IF s > NL THEN s - NL ELSE s
      pairs(j) == {pr \in Idx \X Idx : pr[1] <= pr[2] /\ colOf(pr[1], pr[2]) = j}
      RECURSIVE SumSet(_)
      SumSet(S) == IF S = {} THEN Z ELSE LET pr == CHOOSE q \in S : TRUE IN WD(P(SumSet(S \ {pr}), term(pr[1], pr[2])))
  IN ImplChain(TLCEval([j \in Idx |-> SumSet(pairs(j))]))
ImplM66(a) == ImplChain(TLCEval([j \in Idx |-> WD(T(a[j], M66))]))
ImplReduce(l) ==
  TLCEval([i \in Idx |-> IF i = 1 THEN WW(P(LOW(l[1], LB), WW(T(SHR(l[NL], LB), CF)))) ELSE WW(P(LOW(l[i], LB), SHR(l[i - 1], LB)))])
\* x - y on words: wraps below zero
WSub(x, y) == IF LE(y, x) THEN MONUS(x, y) ELSE MONUS(P(x, POW2(W)), y)
ImplSub(a, b) == ImplReduce(TLCEval([i \in Idx |-> WSub(WW(P(a[i], KP[i])), b[i])]))
ImplNeg(a) == ImplReduce(TLCEval([i \in Idx |-> WSub(KP[i], a[i])]))
ImplAdd(a, b) == TLCEval([i \in Idx |-> WW(P(a[i], b[i]))])
ImplSquare2(a) == LET s == ImplSquare(a) IN TLCEval([i \in Idx |-> WW(T(P(ONE, ONE), s[i]))])
=============================================================================
