----------------------------- MODULE ScalarMul -----------------------------
(***************************************************************************)
(* The scalar-multiplication routines of package curve as loops over an    *)
(* abstract group (GAdd, GNeg, GId) and over DIGIT SEQUENCES (produced by  *)
(* the recodings of Recoding.tla):                                         *)
(*   VarBase        scalar_mul_variable_base.go  (radix 16, table [1..8]P) *)
(*   BasepointMul   scalar_mul_basepoint.go      (radix 16, 256^j tables,  *)
(*                                                odd digits, x16, even)   *)
(*   StrausCT       scalar_mul_straus.go         (radix 16, constant time) *)
(*   StrausVT       scalar_mul_straus.go         (NAF, odd multiples)      *)
(*   DoubleBase     scalar_mul_vartime_double_base.go (NAF w_a / w_b,      *)
(*                                                starting index)          *)
(*   Pippenger      scalar_mul_pippenger.go      (radix 2^w buckets with   *)
(*                                                the two running sums)    *)
(*   AbglsvPornin   scalar_mul_abglsv_pornin.go  (signs of the short       *)
(*                                                vector, split of d1*b,   *)
(*                                                four-table Straus)       *)
(* with the lookup conventions of window.go.  MC_C03 checks on complete    *)
(* toy groups that each routine returns sum [s_i]P_i for every scalar,     *)
(* given digit sequences that satisfy the postconditions MC_C17 proves of  *)
(* the recoders.                                                           *)
(***************************************************************************)
EXTENDS Integers, Sequences, SequencesExt, TLC

CONSTANTS GAdd(_, _), GNeg(_), GId

GSub(p, q) == GAdd(p, GNeg(q))
GDbl(p) == GAdd(p, p)
Down(n) == TLCEval([i \in 1..n |-> n + 1 - i])          \* n, n-1, ..., 1
Up(n) == TLCEval([i \in 1..n |-> i])
Pow2Mul(p, k) == FoldLeft(LAMBDA acc, i : GDbl(acc), p, Up(k))
AbsI(x) == IF x < 0 THEN 0 - x ELSE x

\* window.go: lookup table [1P, 2P, ..., nP] built by repeated addition
MulTable(P, n) == FoldLeft(LAMBDA t, i : Append(t, GAdd(t[i - 1], P)), <<P>>, TLCEval([i \in 1..(n - 1) |-> i + 1]))
\* constant-time signed lookup: |x| selects (0 gives the identity), negated when x < 0
Lookup(tbl, x) == LET a == AbsI(x)
                      pt == IF a = 0 THEN GId ELSE tbl[a]
                  IN IF x < 0 THEN GNeg(pt) ELSE pt
\* NAF lookup table [1P, 3P, 5P, ...] (n entries); Lookup(x) for odd x > 0 is entry x div 2 (0-based)
OddTable(P, n) == LET P2 == GDbl(P)
                  IN FoldLeft(LAMBDA t, i : Append(t, GAdd(t[i - 1], P2)), <<P>>, TLCEval([i \in 1..(n - 1) |-> i + 1]))
NafLookup(tbl, x) == tbl[(x \div 2) + 1]
\* one NAF term of the vartime loops
NafStep(t, tbl, d) == IF d > 0 THEN GAdd(t, NafLookup(tbl, d)) ELSE IF d < 0 THEN GSub(t, NafLookup(tbl, 0 - d)) ELSE t

---------------------------------------------------------------------------
\* variable base, serial: the first iteration is unrolled (identity + lookup), then 16*acc + lookup
VarBase(d, P) ==
  LET n == Len(d)
      tbl == MulTable(P, 8)
      first == GAdd(GId, Lookup(tbl, d[n]))
  IN FoldLeft(LAMBDA acc, i : GAdd(Pow2Mul(acc, 4), Lookup(tbl, d[i])), first, TLCEval([k \in 1..(n - 1) |-> n - k]))
\* variable base, vector backend: uniform loop
VarBaseVec(d, P) ==
  LET tbl == MulTable(P, 8)
  IN FoldLeft(LAMBDA acc, i : GAdd(Pow2Mul(acc, 4), Lookup(tbl, d[i])), GId, Down(Len(d)))

\* fixed base: tables for B, 256B, 256^2 B, ...; odd digits, multiply by 16, even digits
BaseTables(B, m) ==
  FoldLeft(LAMBDA st, j : <<Append(st[1], MulTable(st[2], 8)), Pow2Mul(st[2], 8)>>, <<<<>>, B>>, Up(m))[1]
BasepointMul(d, B) ==
  LET n == Len(d)                    \* even
      T == BaseTables(B, n \div 2)
      \* code index i (0-based) = k - 1; table i/2
      odd == FoldLeft(LAMBDA acc, k : IF k % 2 = 0 THEN GAdd(acc, Lookup(T[((k - 1) \div 2) + 1], d[k])) ELSE acc, GId, Up(n))
      sh == Pow2Mul(odd, 4)
  IN FoldLeft(LAMBDA acc, k : IF k % 2 = 1 THEN GAdd(acc, Lookup(T[((k - 1) \div 2) + 1], d[k])) ELSE acc, sh, Up(n))

\* Straus, constant time: ds[j] radix-16 digits of scalar j
StrausCT(ds, Ps) ==
  LET m == Len(Ps)
      tbls == TLCEval([j \in 1..m |-> MulTable(Ps[j], 8)])
      n == IF m = 0 THEN 0 ELSE Len(ds[1])
  IN FoldLeft(LAMBDA acc, i :
                FoldLeft(LAMBDA a2, j : GAdd(a2, Lookup(tbls[j], ds[j][i])), Pow2Mul(acc, 4), Up(m)),
              GId, Down(n))
\* Straus, variable time: nafs[j] width-w NAF of scalar j; tables of 2^(w-2) odd multiples
StrausVT(nafs, Ps, w, nbits) ==
  LET m == Len(Ps)
      tbls == TLCEval([j \in 1..m |-> OddTable(Ps[j], 2 ^ (w - 2))])
  IN FoldLeft(LAMBDA r, i :
                FoldLeft(LAMBDA t, j : NafStep(t, tbls[j], nafs[j][i]), GDbl(r), Up(m)),
              GId, Down(nbits))

\* double base, variable time: [a]A + [b]B with NAF widths wa (dynamic table) and wb (constant table);
\* the loop starts at the highest index where either NAF is non-zero (index 0 if both are zero)
DoubleBase(aNaf, bNaf, A, B, wa, wb) ==
  LET n == Len(aNaf)
      nz == {j \in 1..n : aNaf[j] # 0 \/ bNaf[j] # 0}
      start == IF nz = {} THEN 1 ELSE CHOOSE j \in nz : \A k \in nz : k <= j
      tA == OddTable(A, 2 ^ (wa - 2))
      tB == OddTable(B, 2 ^ (wb - 2))
  IN FoldLeft(LAMBDA r, i : NafStep(NafStep(GDbl(r), tA, aNaf[i]), tB, bNaf[i]), GId, Down(start))

\* Pippenger: ds[j] radix-2^w digits (cnt of them are used); buckets 1..2^(w-1)
Column(ds, Ps, w, idx) ==
  LET nb == 2 ^ (w - 1)
      empty == TLCEval([b \in 1..nb |-> GId])
      filled == FoldLeft(LAMBDA bk, j :
                           LET dg == ds[j][idx] IN
                           IF dg > 0 THEN [bk EXCEPT ![dg] = GAdd(@, Ps[j])]
                           ELSE IF dg < 0 THEN [bk EXCEPT ![0 - dg] = GSub(@, Ps[j])]
                           ELSE bk,
                         empty, Up(Len(Ps)))
      \* two running sums from the last bucket down: st = <<intermediate, sum>>
      rs == FoldLeft(LAMBDA st, b : LET im == GAdd(st[1], filled[b]) IN <<im, GAdd(st[2], im)>>,
                     <<filled[nb], filled[nb]>>, TLCEval([k \in 1..(nb - 1) |-> nb - k]))
  IN rs[2]
Pippenger(ds, Ps, w, cnt) ==
  FoldLeft(LAMBDA sum, i : GAdd(Pow2Mul(sum, w), Column(ds, Ps, w, i)),
           Column(ds, Ps, w, cnt), TLCEval([k \in 1..(cnt - 1) |-> cnt - k]))

\* ABGLSV-Pornin: [d0]A + [d1 b]B - [d1]C from the short vector (d0, d1); NAF(x, w) is the recoder,
\* ELLV the group order, HB the split position of d1*b (code: 128), B2 = [2^HB]B (a precomputed table),
\* wa / wb the NAF widths for the dynamic / constant tables (code: 5 / 8)
AbglsvPornin(d0, d1, A, b, C, B, B2, ELLV, HB, NAF(_, _), nbits, wa, wb) ==
  LET d0neg == d0 < 0
      sb == IF d1 < 0 THEN (0 - b) % ELLV ELSE b % ELLV
      negC == IF d1 < 0 THEN C ELSE GNeg(C)
      m0 == AbsI(d0)
      m1 == AbsI(d1)
      db == (sb * m1) % ELLV
      e0 == db % (2 ^ HB)
      e1 == db \div (2 ^ HB)
      n0 == NAF(m0, wa)  n1 == NAF(m1, wa)  f0 == NAF(e0, wb)  f1 == NAF(e1, wb)
      nz == {j \in 1..nbits : n0[j] # 0 \/ n1[j] # 0 \/ f0[j] # 0 \/ f1[j] # 0}
      start == IF nz = {} THEN 1 ELSE CHOOSE j \in nz : \A k \in nz : k <= j
      tA == OddTable(A, 2 ^ (wa - 2))  tC == OddTable(negC, 2 ^ (wa - 2))  tB == OddTable(B, 2 ^ (wb - 2))  tB2 == OddTable(B2, 2 ^ (wb - 2))
      \* a negative d0 swaps addition and subtraction for the A table
      stepA(t, d) == IF d0neg THEN NafStep(t, tA, 0 - d) ELSE NafStep(t, tA, d)
  IN FoldLeft(LAMBDA r, i : NafStep(NafStep(NafStep(stepA(GDbl(r), n0[i]), tB, f0[i]), tB2, f1[i]), tC, n1[i]),
              GId, Down(start))
=============================================================================
