------------------------------ MODULE Recoding ------------------------------
(***************************************************************************)
(* Digit recodings of curve/scalar/scalar.go.                              *)
(*  - POSTCONDITIONS (the property C17): predicates over a digit sequence  *)
(*    and a reconstruction function; used at real scale on recorded digit  *)
(*    arrays (the value comparison is done by the instance, with BigNat)   *)
(*    and at toy scale as the declarative side.                            *)
(*  - ALGORITHMS: NonAdjacentForm, ToRadix16 and ToRadix2w transcribed     *)
(*    with their word-window extraction (words of WS bits, NW words, the   *)
(*    top bit of the scalar clear), over native integers; MC_C17 checks    *)
(*    ALGORITHM => POSTCONDITIONS for every scalar of the toy size.        *)
(***************************************************************************)
EXTENDS Integers, Sequences, SequencesExt

Abs(x) == IF x < 0 THEN 0 - x ELSE x
\* ---- postconditions (scale independent)
BitsOK(d) == \A i \in 1..Len(d) : d[i] \in {0, 1}
NafOK(d, w) ==
  /\ \A i \in 1..Len(d) : d[i] # 0 => (d[i] % 2 = 1 /\ Abs(d[i]) < 2 ^ (w - 1))
  /\ \A i \in 1..Len(d) : d[i] # 0 => \A j \in (i + 1)..(i + w - 1) : j <= Len(d) => d[j] = 0
Radix16OK(d) ==
  /\ \A i \in 1..(Len(d) - 1) : d[i] >= -8 /\ d[i] < 8
  /\ d[Len(d)] >= -8 /\ d[Len(d)] <= 8
Radix2wOK(d, w, hint) ==
  /\ \A i \in 1..Len(d) : i <= hint => (d[i] >= 0 - 2 ^ (w - 1) /\ d[i] < 2 ^ (w - 1))
  /\ \A i \in 1..Len(d) : i > hint => d[i] = 0

\* ---- algorithms over native integers (toy sizes)
\* v: the scalar value (< 2^(WS*NW-1)); x[i] = i-th word, x[NW+1] = 0 as in the code's [5]uint64
WordOf(v, i, WS, NW) == IF i > NW THEN 0 ELSE (v \div (2 ^ (WS * (i - 1)))) % (2 ^ WS)
\* truncating uint arithmetic on WS-bit words
ShrW(x, k) == x \div (2 ^ k)
ShlW(x, k, WS) == (x * (2 ^ k)) % (2 ^ WS)
OrDisjoint(a, b) == a + b               \* the two operands never overlap in the code's use

\* NonAdjacentForm(w): returns the digit sequence of length WS*NW
NafAlg(v, w, WS, NW) ==
  LET total == WS * NW
      width == 2 ^ w
      \* state <<pos, carry, digits>> iterated at most total times
      step(st, k) ==
        LET pos == st[1]  carry == st[2]  digs == st[3] IN
        IF pos >= total THEN st
        ELSE LET idx == pos \div WS
                 bitIdx == pos % WS
                 bitBuf == IF bitIdx < WS - w THEN ShrW(WordOf(v, idx + 1, WS, NW), bitIdx)
                           ELSE OrDisjoint(ShrW(WordOf(v, idx + 1, WS, NW), bitIdx),
                                           ShlW(WordOf(v, idx + 2, WS, NW), WS - bitIdx, WS))
                 window == carry + (bitBuf % width)
             IN IF window % 2 = 0 THEN <<pos + 1, carry, digs>>
                ELSE IF window < width \div 2 THEN <<pos + w, 0, [digs EXCEPT ![pos + 1] = window]>>
                ELSE <<pos + w, 1, [digs EXCEPT ![pos + 1] = window - width]>>
      res == FoldLeft(step, <<0, 0, [i \in 1..total |-> 0]>>, [k \in 1..total |-> k])
  IN res[3]

\* ToRadix16: nibbles, then recentre with carry into the next digit; the last digit is not recentred
Radix16Alg(v, WS, NW) ==
  LET n == (WS * NW) \div 4
      nib == [i \in 1..n |-> (v \div (16 ^ (i - 1))) % 16]
      step(st, i) ==      \* st = <<digits so far, carry>>
        LET cur == nib[i] + st[2] IN
        IF i = n THEN <<Append(st[1], cur), 0>>
        ELSE LET c == (cur + 8) \div 16 IN <<Append(st[1], cur - 16 * c), c>>
  IN FoldLeft(step, <<<<>>, 0>>, [i \in 1..n |-> i])[1]

\* ToRadix2w(w): digitsCount = ceil((total-2)/w); terminal carry goes to an extra digit when
\* extraDigit (the code: w = 8), else it is folded onto the last digit
Radix2wCount(w, WS, NW) == (WS * NW - 2 + w - 1) \div w
Radix2wAlg(v, w, WS, NW, extraDigit, outLen) ==
  LET radix == 2 ^ w
      cnt == Radix2wCount(w, WS, NW)
      step(st, i) ==       \* st = <<digits, carry>>, i = 0-based digit index + 1
        LET bitOffset == (i - 1) * w
            idx == bitOffset \div WS
            bitIdx == bitOffset % WS
            bitBuf == IF bitIdx < WS - w \/ idx = NW - 1 THEN ShrW(WordOf(v, idx + 1, WS, NW), bitIdx)
                      ELSE OrDisjoint(ShrW(WordOf(v, idx + 1, WS, NW), bitIdx),
                                      ShlW(WordOf(v, idx + 2, WS, NW), WS - bitIdx, WS))
            coef == st[2] + (bitBuf % radix)
            carry == (coef + radix \div 2) \div radix
        IN <<[st[1] EXCEPT ![i] = coef - carry * radix], carry>>
      res == FoldLeft(step, <<[i \in 1..outLen |-> 0], 0>>, [i \in 1..cnt |-> i])
  IN IF extraDigit THEN [res[1] EXCEPT ![cnt + 1] = @ + res[2]]
     ELSE [res[1] EXCEPT ![cnt] = @ + res[2] * radix]

\* reconstruction over native integers: digit i (1-based) has weight 2^(w*(i-1))
ReconInt(d, w) == FoldLeft(LAMBDA acc, i : IF d[i] = 0 THEN acc ELSE acc + d[i] * (2 ^ (w * (i - 1))), 0, [i \in 1..Len(d) |-> i])
=============================================================================
