----------------------------- MODULE Ristretto -----------------------------
(***************************************************************************)
(* ristretto255-style prime-order group encoding over the instance's       *)
(* Edwards curve (a = -1), RFC 9496 section 4.3 verbatim: Decode, Encode,  *)
(* Equals, the element-derivation MAP and the one-way map.  Field elements *)
(* are canonical; points are extended <<X, Y, Z, T>>.  The square-root     *)
(* routine is a parameter so that the real-scale trace specification can   *)
(* use certificate-assisted roots; the toy instances pass Field!SqrtRatioI.*)
(* MC_C11 checks on complete toy curves: exactly the group's order many    *)
(* strings decode, Encode(Decode(s)) = s, all four coset representatives   *)
(* in every scaling encode identically and compare equal, distinct         *)
(* elements never do, and the map lands on valid points coset-consistently.*)
(***************************************************************************)
EXTENDS Integers, Sequences

CONSTANTS FAdd(_, _), FSub(_, _), FMul(_, _), FNeg(_), FIsNeg(_), FZero, FOne, FSqrtM1, FD,
          SqrtRI(_, _),        \* (u, v) -> <<was_square, non-negative root of u/v or of i*u/v>>
          InvSqrtAMinusD,      \* 1 / sqrt(a - d), non-negative
          SqrtAdMinusOne       \* sqrt(a*d - 1), the negative root (RFC 9496 constant is odd)

Sq(a) == FMul(a, a)
Abs(a) == IF FIsNeg(a) THEN FNeg(a) ELSE a
FTwo == FAdd(FOne, FOne)
OneMinusDSq == FSub(FOne, Sq(FD))
DMinusOneSq == Sq(FSub(FD, FOne))

\* Decode: s a field element that is already known canonical and non-negative (the byte-level checks are the
\* instance's); returns <<ok, point>>
DecodeField(s) ==
  LET ss == Sq(s)
      u1 == FSub(FOne, ss)
      u2 == FAdd(FOne, ss)
      u2sqr == Sq(u2)
      v == FSub(FNeg(FMul(FD, Sq(u1))), u2sqr)
      sr == SqrtRI(FOne, FMul(v, u2sqr))
      denx == FMul(sr[2], u2)
      deny == FMul(FMul(sr[2], denx), v)
      x == Abs(FMul(FMul(FTwo, s), denx))
      y == FMul(u1, deny)
      t == FMul(x, y)
  IN <<sr[1] /\ ~FIsNeg(t) /\ y # FZero, <<x, y, FOne, t>>>>

\* Encode: the canonical non-negative field element s
EncodeField(P) ==
  LET x0 == P[1]  y0 == P[2]  z0 == P[3]  t0 == P[4]
      u1 == FMul(FAdd(z0, y0), FSub(z0, y0))
      u2 == FMul(x0, y0)
      isr == SqrtRI(FOne, FMul(u1, Sq(u2)))[2]
      den1 == FMul(isr, u1)
      den2 == FMul(isr, u2)
      zinv == FMul(FMul(den1, den2), t0)
      ix0 == FMul(x0, FSqrtM1)
      iy0 == FMul(y0, FSqrtM1)
      ench == FMul(den1, InvSqrtAMinusD)
      rotate == FIsNeg(FMul(t0, zinv))
      x == IF rotate THEN iy0 ELSE x0
      y1 == IF rotate THEN ix0 ELSE y0
      deninv == IF rotate THEN ench ELSE den2
      y == IF FIsNeg(FMul(x, zinv)) THEN FNeg(y1) ELSE y1
  IN Abs(FMul(deninv, FSub(z0, y)))

REquals(P, Q) == FMul(P[1], Q[2]) = FMul(P[2], Q[1]) \/ FMul(P[2], Q[2]) = FMul(P[1], Q[1])

\* MAP of the element-derivation function (Elligator, Ristretto flavour)
Map(t) ==
  LET r == FMul(FSqrtM1, Sq(t))
      u == FMul(FAdd(r, FOne), OneMinusDSq)
      v == FMul(FSub(FNeg(FOne), FMul(r, FD)), FAdd(r, FD))
      sr == SqrtRI(u, v)
      sprime == FNeg(Abs(FMul(sr[2], t)))
      s == IF sr[1] THEN sr[2] ELSE sprime
      c == IF sr[1] THEN FNeg(FOne) ELSE r
      n == FSub(FMul(FMul(c, FSub(r, FOne)), DMinusOneSq), v)
      w0 == FMul(FMul(FTwo, s), v)
      w1 == FMul(n, SqrtAdMinusOne)
      w2 == FSub(FOne, Sq(s))
      w3 == FAdd(FOne, Sq(s))
  IN <<FMul(w0, w3), FMul(w2, w1), FMul(w1, w3), FMul(w0, w2)>>
=============================================================================
