------------------------------ MODULE Lattice ------------------------------
(***************************************************************************)
(* Pornin's algorithm 4 (eprint 2020/454) as internal/lattice/              *)
(* lattice_reduction.go runs it: Lagrange reduction of the lattice         *)
(* {(d0, d1) : d0 = d1 k mod ELL} with shifts, tracking the squared norms  *)
(* N_u, N_v and the inner product p.  A state machine over EXACT integers  *)
(* (toy orders with native TLC integers):                                  *)
(*    Swap    - exchange u and v when N_u < N_v                            *)
(*    Return  - len(N_v) <= T: v is the answer                             *)
(*    Reduce  - u <- u -/+ (v << s), s = max(0, len(p) - len(N_v))         *)
(* BitLenS is the two's-complement length of int512.BitLen.  The code's    *)
(* machine representation (512/384-bit N and p, 128-bit truncated          *)
(* coordinates) is exact as long as WidthOK holds, which is an invariant.  *)
(* POSTCONDITION (the property C16, scale independent): Short(k, d0, d1).  *)
(***************************************************************************)
EXTENDS Integers

CONSTANTS ELL,      \* group order
          LENL      \* bit length of ELL

T == LENL + 1
RECURSIVE BL(_)
BL(x) == IF x = 0 THEN 0 ELSE 1 + BL(x \div 2)
BitLenS(x) == IF x >= 0 THEN BL(x) ELSE BL(0 - x - 1)
Pow2(n) == 2 ^ n
MaxI(a, b) == IF a > b THEN a ELSE b

VARIABLES k, u0, u1, v0, v1, Nu, Nv, p, pc, steps
lvars == <<k, u0, u1, v0, v1, Nu, Nv, p, pc, steps>>

Start(kk) == /\ k = kk /\ u0 = ELL /\ u1 = 0 /\ v0 = kk /\ v1 = 1
             /\ Nu = ELL * ELL /\ Nv = kk * kk + 1 /\ p = ELL * kk
             /\ pc = "loop" /\ steps = 0

Swap == /\ pc = "loop" /\ Nu < Nv
        /\ u0' = v0 /\ v0' = u0 /\ u1' = v1 /\ v1' = u1 /\ Nu' = Nv /\ Nv' = Nu
        /\ pc' = "test"
        /\ UNCHANGED <<k, p, steps>>
NoSwap == /\ pc = "loop" /\ ~(Nu < Nv) /\ pc' = "test"
          /\ UNCHANGED <<k, u0, u1, v0, v1, Nu, Nv, p, steps>>
Return == /\ pc = "test" /\ BitLenS(Nv) <= T /\ pc' = "done"
          /\ UNCHANGED <<k, u0, u1, v0, v1, Nu, Nv, p, steps>>
Reduce == /\ pc = "test" /\ BitLenS(Nv) > T
          /\ LET s == MaxI(0, BitLenS(p) - BitLenS(Nv))
                 sh == Pow2(s)
             IN IF p >= 0
                THEN /\ u0' = u0 - v0 * sh /\ u1' = u1 - v1 * sh
                     /\ Nu' = Nu + Nv * sh * sh - p * 2 * sh
                     /\ p' = p - Nv * sh
                ELSE /\ u0' = u0 + v0 * sh /\ u1' = u1 + v1 * sh
                     /\ Nu' = Nu + Nv * sh * sh + p * 2 * sh
                     /\ p' = p + Nv * sh
          /\ pc' = "loop" /\ steps' = steps + 1
          /\ UNCHANGED <<k, v0, v1, Nv>>
LNext == Swap \/ NoSwap \/ Return \/ Reduce

\* ---- invariants of the reduction
NormsExact == Nu = u0 * u0 + u1 * u1 /\ Nv = v0 * v0 + v1 * v1 /\ p = u0 * v0 + u1 * v1
InLattice == (u0 - u1 * k) % ELL = 0 /\ (v0 - v1 * k) % ELL = 0
Basis == LET det == u0 * v1 - u1 * v0 IN det = ELL \/ det = 0 - ELL
StepBound == steps <= 4 * LENL
\* ---- the postcondition, on any (k, d0, d1)
Short(kk, d0, d1) == /\ ~(d0 = 0 /\ d1 = 0)
                     /\ (d0 - d1 * kk) % ELL = 0
                     /\ d1 % ELL # 0
\* the returned coordinates fit the signed width that T implies (real: 128 bits for T = 254)
HalfWidth == (T + 1) \div 2 + 1
Fits(x) == x < Pow2(HalfWidth) /\ x > 0 - Pow2(HalfWidth)
Post == pc = "done" => Short(k, v0, v1) /\ Fits(v0) /\ Fits(v1)
=============================================================================
