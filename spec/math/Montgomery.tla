----------------------------- MODULE Montgomery -----------------------------
(***************************************************************************)
(* x-only arithmetic on the Montgomery form v^2 = u^3 + A u^2 + u.         *)
(*  - DEFINITION: RFC 7748 section 5 ladder, verbatim (conditional swaps   *)
(*    driven by swap ^= k_t, a24 = (A - 2) / 4, result x_2 * z_2^(p-2)).   *)
(*  - ALGORITHM of curve/montgomery.go: Costello-Smith algorithm 8 -       *)
(*    bits via Scalar.Bits (256 entries), swap on bits[i+1] xor bits[i],   *)
(*    differential add-and-double with the affine difference, final swap   *)
(*    on bits[0], dehomogenise with 0^-1 = 0.                              *)
(* MC_C07 checks ALGORITHM = DEFINITION = u([k]P) on a complete toy curve. *)
(***************************************************************************)
EXTENDS Integers, Sequences, SequencesExt

CONSTANTS FAdd(_, _), FSub(_, _), FMul(_, _), FInv(_), FZero, FOne,
          A24,          \* (A - 2) / 4   (121665)
          APLUS2OVER4   \* (A + 2) / 4   (121666), the constant the code multiplies by

Sq(a) == FMul(a, a)
\* RFC 7748: k given as little-endian bit sequence of length nbits; processes t = nbits-1 .. 0
LadderRFC(kbits, u) ==
  LET n == Len(kbits)
      step(st, i) ==        \* st = <<x2, z2, x3, z3, swap>>
        LET kt == kbits[n + 1 - i]
            sw == (st[5] + kt) % 2
            x2 == IF sw = 1 THEN st[3] ELSE st[1]
            x3 == IF sw = 1 THEN st[1] ELSE st[3]
            z2 == IF sw = 1 THEN st[4] ELSE st[2]
            z3 == IF sw = 1 THEN st[2] ELSE st[4]
            a == FAdd(x2, z2)   aa == Sq(a)
            b == FSub(x2, z2)   bb == Sq(b)
            e == FSub(aa, bb)
            c == FAdd(x3, z3)   d == FSub(x3, z3)
            da == FMul(d, a)    cb == FMul(c, b)
        IN <<FMul(aa, bb), FMul(e, FAdd(aa, FMul(A24, e))), Sq(FAdd(da, cb)), FMul(u, Sq(FSub(da, cb))), kt>>
      r == FoldLeft(step, <<FOne, FZero, u, FOne, 0>>, [i \in 1..n |-> i])
      x2f == IF r[5] = 1 THEN r[3] ELSE r[1]
      z2f == IF r[5] = 1 THEN r[4] ELSE r[2]
  IN FMul(x2f, FInv(z2f))

\* montgomery.go: montgomeryDifferentialAddAndDouble(P, Q, affine_PmQ): P <- [2]P, Q <- P + Q
DiffAddDouble(PU, PW, QU, QW, d) ==
  LET t0 == FAdd(PU, PW)  t1 == FSub(PU, PW)
      t2 == FAdd(QU, QW)  t3 == FSub(QU, QW)
      t4 == Sq(t0)        t5 == Sq(t1)
      t6 == FSub(t4, t5)
      t7 == FMul(t0, t3)  t8 == FMul(t1, t2)
      t9 == FAdd(t7, t8)  t10 == FSub(t7, t8)
      t11 == Sq(t9)       t12 == Sq(t10)
      t13 == FMul(APLUS2OVER4, t6)
      t14 == FMul(t4, t5)
      t15 == FAdd(t13, t5)
      t16 == FMul(t6, t15)
      t17 == FMul(d, t12)
  IN <<t14, t16, t11, t17>>
\* bits: (n+1)-entry sequence as Scalar.Bits (index 1 = bit 0, real n = 255); loop i = n-1 .. 0 on bits[i+1] ^ bits[i]
LadderCode(bits, u) ==
  LET n == Len(bits) - 1
      step(st, j) ==          \* j = 1..n -> i = n - j
        LET i == n - j
            choice == (bits[i + 2] + bits[i + 1]) % 2
            x0U == IF choice = 1 THEN st[3] ELSE st[1]
            x0W == IF choice = 1 THEN st[4] ELSE st[2]
            x1U == IF choice = 1 THEN st[1] ELSE st[3]
            x1W == IF choice = 1 THEN st[2] ELSE st[4]
        IN DiffAddDouble(x0U, x0W, x1U, x1W, u)
      r == FoldLeft(step, <<FOne, FZero, u, FOne>>, [j \in 1..n |-> j])
      fU == IF bits[1] = 1 THEN r[3] ELSE r[1]
      fW == IF bits[1] = 1 THEN r[4] ELSE r[2]
  IN FMul(fU, FInv(fW))
=============================================================================
