------------------------------ MODULE Edwards ------------------------------
(***************************************************************************)
(* Twisted Edwards curve -x^2 + y^2 = 1 + d x^2 y^2 over the instance's    *)
(* field.  Two layers:                                                     *)
(*  - the DEFINITION: the affine group law, OnCurve, order predicates;     *)
(*  - the ALGORITHMS: extended/projective formulas shaped like             *)
(*    curve/models.go, decompression as curve/edwards.go SetCompressedY,   *)
(*    compression, projective equality and the predicates of edwards.go.   *)
(* MC_Edwards (toy instances) checks ALGORITHM = DEFINITION for every      *)
(* point pair / string; at real scale only the inversion-free algorithms   *)
(* are affordable and serve as the oracle for recorded traces.             *)
(* Strings are abstract: the instance says how to split a string into a    *)
(* y value and a sign bit.                                                 *)
(***************************************************************************)
EXTENDS Integers, Sequences, SequencesExt

CONSTANTS FAdd(_, _), FSub(_, _), FMul(_, _), FNeg(_), FInv(_), FPowP58(_), FIsNeg(_),
          FZero, FOne, FSqrtM1, FD

INSTANCE Field

FTwo == FAdd(FOne, FOne)
FD2 == FAdd(FD, FD)

---------------------------------------------------------------------------
\* DEFINITION: affine points <<x, y>>
OnCurve(x, y) == FSub(FMul(y, y), FMul(x, x)) = FAdd(FOne, FMul(FD, FMul(FMul(x, x), FMul(y, y))))
AffId == <<FZero, FOne>>
AffNeg(p) == <<FNeg(p[1]), p[2]>>
AffAdd(p, q) ==
  LET x1 == p[1]  y1 == p[2]  x2 == q[1]  y2 == q[2]
      t == FMul(FD, FMul(FMul(x1, x2), FMul(y1, y2)))
  IN <<FMul(FAdd(FMul(x1, y2), FMul(x2, y1)), FInv(FAdd(FOne, t))),
       FMul(FAdd(FMul(y1, y2), FMul(x1, x2)), FInv(FSub(FOne, t)))>>
AffSub(p, q) == AffAdd(p, AffNeg(q))
AffDbl(p) == AffAdd(p, p)
\* [n]p for a small natural n (definition by repeated addition)
RECURSIVE AffMulN(_, _)
AffMulN(n, p) == IF n = 0 THEN AffId ELSE AffAdd(AffMulN(n - 1, p), p)

---------------------------------------------------------------------------
\* ALGORITHMS: extended coordinates <<X, Y, Z, T>>, x = X/Z, y = Y/Z, T = XY/Z
ExtId == <<FZero, FOne, FOne, FZero>>
FromAffine(p) == <<p[1], p[2], FOne, FMul(p[1], p[2])>>
ToAffine(P) == LET zi == FInv(P[3]) IN <<FMul(P[1], zi), FMul(P[2], zi)>>
ExtNeg(P) == <<FNeg(P[1]), P[2], P[3], FNeg(P[4])>>
\* scale a representation by a non-zero lambda (the same point)
ExtScale(P, l) == <<FMul(P[1], l), FMul(P[2], l), FMul(P[3], l), FMul(P[4], l)>>
ExtValid(P) == /\ P[3] # FZero
               /\ FMul(P[1], P[2]) = FMul(P[3], P[4])
               /\ FSub(FMul(P[2], P[2]), FMul(P[1], P[1]))
                    = FAdd(FMul(P[3], P[3]), FMul(FD, FMul(P[4], P[4])))

\* models.go: projective Niels form of Q: (Y+X, Y-X, Z, 2dT)
ToPNiels(Q) == <<FAdd(Q[2], Q[1]), FSub(Q[2], Q[1]), Q[3], FMul(Q[4], FD2)>>
\* models.go: affine Niels form (y+x, y-x, 2dxy)
ToANiels(Q) == LET a == ToAffine(Q) IN <<FAdd(a[2], a[1]), FSub(a[2], a[1]), FMul(FMul(a[1], a[2]), FD2)>>
\* completed point (X:Z, Y:T) -> extended  (models.go: setCompleted)
FromCompleted(c) == <<FMul(c[1], c[4]), FMul(c[2], c[3]), FMul(c[3], c[4]), FMul(c[1], c[2])>>
\* models.go: completedPoint.AddEdwardsProjectiveNiels / Sub...
AddPNielsC(P, n) ==
  LET ypx == FAdd(P[2], P[1])  ymx == FSub(P[2], P[1])
      pp == FMul(ypx, n[1])  mm == FMul(ymx, n[2])
      tt2d == FMul(P[4], n[4])  zz == FMul(P[3], n[3])  zz2 == FAdd(zz, zz)
  IN <<FSub(pp, mm), FAdd(pp, mm), FAdd(zz2, tt2d), FSub(zz2, tt2d)>>
SubPNielsC(P, n) ==
  LET ypx == FAdd(P[2], P[1])  ymx == FSub(P[2], P[1])
      pm == FMul(ypx, n[2])  mp == FMul(ymx, n[1])
      tt2d == FMul(P[4], n[4])  zz == FMul(P[3], n[3])  zz2 == FAdd(zz, zz)
  IN <<FSub(pm, mp), FAdd(pm, mp), FSub(zz2, tt2d), FAdd(zz2, tt2d)>>
AddANielsC(P, n) ==
  LET ypx == FAdd(P[2], P[1])  ymx == FSub(P[2], P[1])
      pp == FMul(ypx, n[1])  mm == FMul(ymx, n[2])
      txy2d == FMul(P[4], n[3])  z2 == FAdd(P[3], P[3])
  IN <<FSub(pp, mm), FAdd(pp, mm), FAdd(z2, txy2d), FSub(z2, txy2d)>>
SubANielsC(P, n) ==
  LET ypx == FAdd(P[2], P[1])  ymx == FSub(P[2], P[1])
      pm == FMul(ypx, n[2])  mp == FMul(ymx, n[1])
      txy2d == FMul(P[4], n[3])  z2 == FAdd(P[3], P[3])
  IN <<FSub(pm, mp), FAdd(pm, mp), FSub(z2, txy2d), FAdd(z2, txy2d)>>
\* models.go: completedPoint.Double(projective)
DblC(P) ==
  LET xx == FMul(P[1], P[1])  yy == FMul(P[2], P[2])  zz2 == FAdd(FMul(P[3], P[3]), FMul(P[3], P[3]))
      xpy == FAdd(P[1], P[2])  xpy2 == FMul(xpy, xpy)
      yypxx == FAdd(yy, xx)  yymxx == FSub(yy, xx)
  IN <<FSub(xpy2, yypxx), yypxx, yymxx, FSub(zz2, yymxx)>>

ExtAdd(P, Q) == FromCompleted(AddPNielsC(P, ToPNiels(Q)))
ExtSub(P, Q) == FromCompleted(SubPNielsC(P, ToPNiels(Q)))
ExtDbl(P) == FromCompleted(DblC(P))
ExtAddA(P, Q) == FromCompleted(AddANielsC(P, ToANiels(Q)))      \* mixed addition
ExtSubA(P, Q) == FromCompleted(SubANielsC(P, ToANiels(Q)))
ExtMulPow2(P, k) == FoldLeft(LAMBDA acc, i : ExtDbl(acc), P, [i \in 1..k |-> i])
ExtMulCofactor(P) == ExtMulPow2(P, 3)

\* edwards.go Equal / IsIdentity / IsSmallOrder: projective cross-multiplication
ExtEq(P, Q) == FMul(P[1], Q[3]) = FMul(Q[1], P[3]) /\ FMul(P[2], Q[3]) = FMul(Q[2], P[3])
ExtIsId(P) == ExtEq(P, ExtId)
ExtIsSmallOrder(P) == ExtIsId(ExtMulCofactor(P))

\* [s]P, s given as a little-endian bit sequence; left-to-right double and add
ExtMulBits(bits, P) ==
  LET n == Len(bits)
  IN FoldLeft(LAMBDA acc, i : LET d == ExtDbl(acc) IN IF bits[n + 1 - i] = 1 THEN ExtAdd(d, P) ELSE d,
              ExtId, [i \in 1..n |-> i])
\* sum of a sequence of points
ExtSum(ps) == FoldLeft(LAMBDA acc, q : ExtAdd(acc, q), ExtId, ps)
\* multiscalar: sum [s_i]P_i, scalars as bit sequences
ExtMSM(bitss, ps) == FoldLeft(LAMBDA acc, i : ExtAdd(acc, ExtMulBits(bitss[i], ps[i])), ExtId, [i \in 1..Len(ps) |-> i])

---------------------------------------------------------------------------
\* decompression (edwards.go SetCompressedY): y a field element, sign in {0,1}
\* returns <<ok, extended point>>
Decompress(y, sign) ==
  LET yy == FMul(y, y)
      u == FSub(yy, FOne)
      v == FAdd(FMul(yy, FD), FOne)
      sr == SqrtRatioI(u, v)
      x0 == sr[2]
      x == IF sign = 1 THEN FNeg(x0) ELSE x0      \* conditional negate: -0 = 0
  IN <<sr[1], <<x, y, FOne, FMul(x, y)>>>>
\* declarative acceptance: some x with (x, y) on the curve
DecodableY(y, Elems) == \E x \in Elems : OnCurve(x, y)
\* compression: <<y, sign of x>>
Compress(P) == LET a == ToAffine(P) IN <<a[2], IF FIsNeg(a[1]) THEN 1 ELSE 0>>
\* certificate form of decompression: x0 claimed to be the non-negative root (see Field!SqrtRatioCertOK)
DecompressCertOK(y, ok, x0) ==
  LET yy == FMul(y, y) IN SqrtRatioCertOK(FSub(yy, FOne), FAdd(FMul(yy, FD), FOne), ok, x0)
\* decompression driven by an UNTRUSTED certificate for the square root: if the certificate satisfies the
\* (sound, toy-scale-proved) certificate conditions it replaces the exponentiation, otherwise the algorithm runs
DecompressWithCert(y, sign, cert) ==
  LET yy == FMul(y, y)
      u == FSub(yy, FOne)
      v == FAdd(FMul(yy, FD), FOne)
      sr == IF SqrtRatioCertOK(u, v, TRUE, cert) THEN <<TRUE, cert>>
            ELSE IF SqrtRatioCertOK(u, v, FALSE, cert) THEN <<FALSE, cert>>
            ELSE SqrtRatioI(u, v)
      x == IF sign = 1 THEN FNeg(sr[2]) ELSE sr[2]
  IN <<sr[1], <<x, y, FOne, FMul(x, y)>>>>
=============================================================================
