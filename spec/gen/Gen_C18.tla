------------------------------ MODULE Gen_C18 ------------------------------
(***************************************************************************)
(* Behaviour generator for C18: every lock-level schedule of Clients each  *)
(* performing MaxOps upserts over Keys on a cache of the given Capacity.   *)
(* hist records only the critical sections (client, "get"/"put", key) in   *)
(* the order they take effect, plus the result the specification predicts  *)
(* (hit / evicted key).  At each terminal state the history is printed;    *)
(* the Go replayer drives real goroutines through exactly that order using *)
(* the pre-lock gate hook and compares the recorded critical sections.     *)
(***************************************************************************)
EXTENDS Cache, TLC
VARIABLE hist
gvars == <<vars, hist>>
GInit == Init /\ hist = <<>>
GNext == \E c \in Clients :
           \/ (\E k \in AllKeys : Begin(c, k)) /\ hist' = hist
           \/ Get(c) /\ hist' = Append(hist, <<c, "get", key[c], key[c] \in index, -1>>)
           \/ ExpandKey(c) /\ hist' = hist
           \/ Put(c) /\ hist' = Append(hist, <<c, "put", key[c], key[c] \in index, PutVictim(order, key[c], Capacity)>>)
           \/ Finish(c) /\ hist' = hist
GSpec == GInit /\ [][GNext]_gvars
Done == \A c \in Clients : pc[c] = "idle" /\ ops[c] = MaxOps
Emit == Done => PrintT(<<"OUT", hist>>)
=============================================================================
