CONSTANTS Keys = {1, 2} BadKeys = {} Capacity = 1 Clients = {101, 102} MaxOps = 2 Atomic = TRUE
SPECIFICATION GSpec
INVARIANT Emit
CHECK_DEADLOCK FALSE
