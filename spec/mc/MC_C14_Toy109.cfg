CONSTANTS P = 109 D = 11 ELL = 13 NB = 8 SB = 5
SPECIFICATION Spec
INVARIANT MapOK
INVARIANT ExpandOK
CHECK_DEADLOCK FALSE
