CONSTANTS Keys = {1, 2, 3} BadKeys = {9} Capacity = 2 Clients = {101, 102, 103} MaxOps = 2 Atomic = TRUE
SPECIFICATION Spec
INVARIANT BoundedInv
INVARIANT NoDupInv
INVARIANT IndexConsistent
INVARIANT RightKey
INVARIANT UsesRightKey
PROPERTY LRUStep
CHECK_DEADLOCK FALSE
