------------------------------- MODULE MC_C17 -------------------------------
(***************************************************************************)
(* Every scalar of the toy size (WS-bit words, NW words, top bit clear):   *)
(* each recoding algorithm reconstructs the value and satisfies its digit  *)
(* bounds.  WS = 8, NW = 2 gives 15-bit scalars with a word seam that the  *)
(* windows cross; window widths are those for which ceil((total-2)/w)*w    *)
(* covers all bits, and w = 4 plays the part of the code's w = 8 (w        *)
(* divides the word size, so the terminal carry needs the extra digit).    *)
(***************************************************************************)
EXTENDS Recoding, TLC
CONSTANTS WS, NW, NafWs, R2Ws, R2Extra
VARIABLE v
Init == v = -1
Next == v = -1 /\ v' \in 0..(2 ^ (WS * NW - 1) - 1)
Spec == Init /\ [][Next]_v
OutLen == (WS * NW) \div 2
\* Folding the terminal carry onto the last digit (code: w = 6, 7) is only sound when the top digit
\* has at least two spare bits; otherwise (code: w = 8) the extra digit is needed.  The real sizes
\* (255-bit scalars: 43*6-255 = 3, 37*7-255 = 4, 32*8-255 = 1) satisfy this; so must the toy ones.
ASSUME \A w \in R2Ws : LET spare == Radix2wCount(w, WS, NW) * w - (WS * NW - 1)
                      IN IF w \in R2Extra THEN spare \in {0, 1} ELSE spare >= 2
Inv ==
  v >= 0 =>
    /\ \A w \in NafWs : LET d == NafAlg(v, w, WS, NW) IN ReconInt(d, 1) = v /\ NafOK(d, w)
    /\ LET d == Radix16Alg(v, WS, NW) IN ReconInt(d, 4) = v /\ Radix16OK(d)
    /\ \A w \in R2Ws :
         LET ex == w \in R2Extra
             hint == Radix2wCount(w, WS, NW) + (IF ex THEN 1 ELSE 0)
             d == Radix2wAlg(v, w, WS, NW, ex, OutLen)
         IN ReconInt(d, w) = v /\ Radix2wOK(d, w, hint)
=============================================================================
