CONSTANTS P = 29 D = 27 ELL = 5 NB = 6 SB = 5 Quick = TRUE
SPECIFICATION Spec
INVARIANT Inv
CHECK_DEADLOCK FALSE
