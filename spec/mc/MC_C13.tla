------------------------------- MODULE MC_C13 -------------------------------
(***************************************************************************)
(* Toy-scale model for C13 with an UNINTERPRETED permutation.              *)
(* Cells are symbolic: <<"k", c>> a known byte c, <<"f", c>> an unknown    *)
(* byte produced by the permutation xor the absorbed constant c.  The      *)
(* permutation appends the complete pre-state to the state's sponge        *)
(* transcript tr and returns all-unknown cells.  Under the ideal-          *)
(* permutation assumption two histories yield the same challenge bytes     *)
(* only if their transcripts are equal, so "histories that differ in any   *)
(* label, message, length split or ordering give different challenges"     *)
(* becomes: Term is injective on the history universe.  TLC decides it by  *)
(* comparing cardinalities.  The same run checks the cursor invariant of   *)
(* every intermediate state and that equal histories give equal terms      *)
(* (determinism is syntactic), and that a clone taken at any point and     *)
(* continued with the same operations equals the original (value copy).    *)
(***************************************************************************)
EXTENDS Integers, Sequences, SequencesExt, FiniteSets, Bitwise, TLC

CONSTANTS R0,          \* toy STROBE rate before the two reserved bytes (real: 168)
          MaxDepth     \* number of operations before the final extraction

NCells == R0 + 1
SXorIn(c, d) == <<c[1], c[2] ^^ d>>
SSetTo(d) == <<"k", d>>
SOutOf(c, d) == <<c, d>>
SRunPerm(s) == [s EXCEPT !.tr = Append(s.tr, s.st), !.st = [i \in 1..NCells |-> <<"f", 0>>]]
M == INSTANCE Merlin WITH XorIn <- SXorIn, SetTo <- SSetTo, OutOf <- SOutOf, RunPerm <- SRunPerm

S0 == [st |-> [i \in 1..NCells |-> <<"k", 0>>], pos |-> 0, posBegin |-> 0, cur |-> 0, r |-> R0, init |-> FALSE, tr |-> <<>>]
T0 == TLCEval(M!NewTranscript(S0, R0, <<>>))

\* ---- the history universe
Labels == {<<>>, <<1>>, <<1, 2>>, <<2>>}
Rep(b, n) == [i \in 1..n |-> b]
Msgs == {<<>>} \cup {Rep(b, n) : b \in {1, 2}, n \in 1..(R0 + 1)} \cup {<<2, 1>>, <<1, 2>>}
Ops == {<<"append", lb, m>> : lb \in Labels, m \in Msgs} \cup {<<"extract", lb, n>> : lb \in Labels, n \in {1, 2, R0 - 1}}
Apply(t, op) == IF op[1] = "append" THEN M!AppendMessage(t, op[2], op[3]) ELSE M!ExtractBytes(t, op[2], op[3])[1]
Run(h) == FoldLeft(Apply, T0, h)
\* the symbolic challenge: transcript at extraction time and the cells read
Term(h) == LET r == M!ExtractBytes(Run(h), <<3>>, 2) IN <<r[1].tr, r[2]>>

RECURSIVE Hist(_)
Hist(d) == IF d = 0 THEN {<<>>} ELSE LET P == Hist(d - 1) IN P \cup {Append(h, op) : h \in {x \in P : Len(x) = d - 1}, op \in Ops}
H == TLCEval(Hist(MaxDepth))

VARIABLE done
Init == done = FALSE
Next == ~done /\ done' = TRUE
Spec == Init /\ [][Next]_done

Injective == done => Cardinality({Term(h) : h \in H}) = Cardinality(H)
Cursors == done => \A h \in H : M!CursorOK(Run(h))
\* a clone continued with the same operation equals the original continued with it (value semantics),
\* and continuing the clone leaves the original untouched (trivially: values)
CloneOK == done => \A h \in {x \in H : Len(x) < MaxDepth} : \A op \in Ops : Apply(Run(h), op) = Run(Append(h, op))
=============================================================================
