CONSTANTS NBits = 8 Leaky = TRUE
SPECIFICATION Spec
INVARIANT NonInterference
CHECK_DEADLOCK FALSE
