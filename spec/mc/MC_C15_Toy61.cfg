CONSTANTS P = 61 D = 2 ELL = 7 NB = 7 SB = 4
SPECIFICATION Spec
INVARIANT Inv
CHECK_DEADLOCK FALSE
