------------------------------- MODULE MC_C01 -------------------------------
(***************************************************************************)
(* Toy-scale exhaustive check for C01 (and the equation half of C16):      *)
(*  (1) the implementation-shaped verification - ordered admission checks  *)
(*      as in unpackPublicKey/unpackSignature, R not decompressed when     *)
(*      cofactorless and small-order R is allowed, the delta-scaled triple *)
(*      multiplication with ANY admissible short vector followed by the    *)
(*      small-order test, byte comparison for cofactorless - equals the    *)
(*      declarative Accept of Ed25519.tla;                                 *)
(*  (2) the three preset equivalences (StdLib, FIPS 186-5, ZIP-215);       *)
(*  (3) Accept is a function of the request's CLASS (torsion components,   *)
(*      encoding kinds, S range, k mod 8, whether the prime-order equation *)
(*      holds): ClassVerdict(ClassOf(x)) = Accept(x).  (3) licenses the    *)
(*      replay of classes at real scale (Gen_C01 + the Go replayer).       *)
(* for EVERY A string x R string x S string x challenge residue x option   *)
(* vector of the toy instance.                                             *)
(***************************************************************************)
EXTENDS Toy

Opts == [soA : BOOLEAN, soR : BOOLEAN, ncA : BOOLEAN, ncR : BOOLEAN, cl : BOOLEAN]
TDecode(s) == IF Decode(s) = NoPt THEN <<FALSE, GId>> ELSE <<TRUE, Decode(s)>>
\* byte-level canonicity as in IsCanonicalVartime: y < p and not one of the two x = 0 / sign-bit strings
TCanonical(s) == EncYRaw(s) < P /\ s # MkStr(1, 1) /\ s # MkStr(P - 1, 1)

E == INSTANCE Ed25519 WITH GDecode <- TDecode, GCanonical <- CanonicalDecl, GEncode <- Encode,
                           GAdd <- GAdd, GNeg <- GNeg, GMulS <- GMul, GSmallOrder <- GSmallOrder, GBase <- Bpt,
                           SBelowL <- LAMBDA s : s < ELL, SVal <- LAMBDA s : s

\* ---- implementation-shaped verification
\* admissible short vectors for k (postcondition of the lattice reduction, see Lattice.tla):
\* (d0, d1) # 0, d0 = d1 k (mod ELL), d1 invertible; small signed range
Shorts(k) == {dd \in (-3..3) \X (-3..3) : dd # <<0, 0>> /\ (dd[1] - dd[2] * k) % ELL = 0 /\ dd[2] % ELL # 0}
VerifyImpl(o, lenOK, As, Rs, Ss, k) ==
  IF o.ncR /\ o.cl THEN "error" ELSE
  LET A == Decode(As) IN
  IF A = NoPt THEN FALSE                                        \* unpackPublicKey
  ELSE IF ~o.soA /\ GSmallOrder(A) THEN FALSE
  ELSE IF ~o.ncA /\ ~TCanonical(As) THEN FALSE
  ELSE IF ~lenOK THEN FALSE                                     \* unpackSignature
  ELSE IF ~(Ss < ELL) THEN FALSE
  ELSE LET needR == ~(o.cl /\ o.soR)
           R == IF needR THEN Decode(Rs) ELSE GId
       IN IF needR /\ R = NoPt THEN FALSE
          ELSE IF needR /\ ~o.soR /\ GSmallOrder(R) THEN FALSE
          ELSE IF ~o.ncR /\ ~TCanonical(Rs) THEN FALSE
          ELSE LET kk == k
                   nA == GNeg(A)
               IN IF o.cl THEN Encode(GAdd(GMul(Ss % ELL, Bpt), GMul(kk, nA))) = Rs
                  ELSE \* [d0](-A) + [d1 S]B - [d1]R, then IsSmallOrder; must not depend on the short vector chosen
                       LET res == {GSmallOrder(GAdd(GAdd(GMul(dd[1], nA), GMul(dd[2] * (Ss % ELL), Bpt)), GNeg(GMul(dd[2], R)))) : dd \in Shorts(kk)}
                       IN IF Cardinality(res) = 1 THEN (CHOOSE b \in res : TRUE) ELSE "ambiguous"

\* ---- classes
T8 == TLCEval(CHOOSE t \in Torsion : GMul(4, t) # GId)                 \* a generator of E[8]
\* decomposition of a point: <<a, i>> with P = [a]B + [i]T8
DecompT == TLCEval([p \in Pts |-> CHOOSE ai \in (0..(ELL - 1)) \X (0..7) : GAdd(GMul(ai[1], Bpt), GMul(ai[2], T8)) = p])
\* what the Go replayer knows about a request by construction
ClassOf(lenOK, As, Rs, Ss, k) ==
  LET A == Decode(As)  R == Decode(Rs)
      da == IF A = NoPt THEN <<0, 0>> ELSE DecompT[A]
      dr == IF R = NoPt THEN <<0, 0>> ELSE DecompT[R]
  IN [lenOK |-> lenOK, sLt |-> Ss < ELL,
      aDec |-> A # NoPt, aCanon |-> TCanonical(As), aZero |-> da[1] = 0, tA |-> da[2],
      rDec |-> R # NoPt, rCanon |-> TCanonical(Rs), rZero |-> dr[1] = 0, tR |-> dr[2],
      k8 |-> k % 8,
      \* prime-order part of [S]B - [k]A - R vanishes
      eqPrime |-> (Ss - k * da[1] - dr[1]) % ELL = 0]
ClassVerdict(o, c) == E!ClassVerdict(o, c)

\* one initial state per A string, so that the successor states (R string, options) spread over the workers
VARIABLE st
Init == \E As \in Strs : st = <<"a", As>>
Next == /\ st[1] = "a"
        /\ \E Rs \in Strs, o \in Opts : st' = <<"req", st[2], Rs, o>>
Spec == Init /\ [][Next]_st

Inv ==
  st[1] = "req" =>
    LET As == st[2]  Rs == st[3]  o == st[4] IN
    \* k: the challenge AFTER reduction mod the group order (the property: k = SHA-512(..) mod L), used as an integer
    \A Ss \in SStrs, k \in 0..(ELL - 1), lenOK \in BOOLEAN :
      LET acc == E!Accept(o, lenOK, As, Rs, Ss, k) IN
      /\ VerifyImpl(o, lenOK, As, Rs, Ss, k) = acc
      /\ ClassVerdict(o, ClassOf(lenOK, As, Rs, Ss, k)) = acc
      /\ o = E!StdLib => acc = E!StdLibAccept(lenOK, As, Rs, Ss, k)
      /\ o = E!Fips1865 => acc = E!Fips1865Accept(lenOK, As, Rs, Ss, k)
      /\ o = E!Zip215 => acc = E!Zip215Accept(lenOK, As, Rs, Ss, k)
\* the byte-level canonicity test equals the declarative one on every string
CanonInv == st[1] = "a" => TCanonical(st[2]) = CanonicalDecl(st[2])
=============================================================================
