------------------------------- MODULE MC_C05 -------------------------------
\* all 4W-bit strings, all admissible C (incl. C whose words tie with the string's)
EXTENDS Integers, TLC
CONSTANTS W
VARIABLE c
Init == c = -1
Next == c = -1 /\ c' \in 0..(2 ^ (4 * W - 4) - 1)
Spec == Init /\ [][Next]_c
M(cc) == INSTANCE ScMinimal WITH C <- cc
Inv == c >= 0 => \A v \in 0..(2 ^ (4 * W) - 1) : M(c)!MinimalAlg(v) = M(c)!MinimalDecl(v)
=============================================================================
