------------------------------ MODULE MC_C04w ------------------------------
(***************************************************************************)
(* Soundness of the bound calculus of FieldWords.tla against word          *)
(* semantics WITH wrap-around, on a complete toy instance: NL limbs of LB   *)
(* bits in W-bit words, p = 2^(NL*LB) - CF.  For every operation and every  *)
(* pair of limb vectors with limbs in 0..LIM (taken as their own bounds):   *)
(*   Sound    - Pre => the wrapping algorithm returns limbs <= Post whose   *)
(*              value is the exact result modulo p;                         *)
(*   Monotone - Pre and Post are monotone in every limb (so Pre at a bound  *)
(*              vector covers every element under it);                      *)
(*   Tight    - whenever a word of the wrapping algorithm really wraps,     *)
(*              Pre is false (checked through the exact value: a wrong      *)
(*              result never has Pre).                                      *)
(* With Weak = TRUE the carry-fits-a-word condition is dropped from Pre and *)
(* TLC must find a counterexample (self-test of the model).                 *)
(***************************************************************************)
EXTENDS Integers, Sequences, TLC

CONSTANTS NL, LB, W, CF, K, M66, LIM, Weak

PP == 2 ^ (NL * LB) - CF
Idx == 1..NL
\* limbs of K*p: K*(2^LB - CF) in limb 1, K*(2^LB - 1) elsewhere
KPv == [i \in Idx |-> IF i = 1 THEN K * (2 ^ LB - CF) ELSE K * (2 ^ LB - 1)]

FW == INSTANCE FieldWords WITH KP <- KPv,
        P <- LAMBDA x, y : x + y, T <- LAMBDA x, y : x * y, LE <- LAMBDA x, y : x <= y,
        SHR <- LAMBDA x, k : x \div (2 ^ k), LOW <- LAMBDA x, k : x % (2 ^ k), POW2 <- LAMBDA k : 2 ^ k,
        MONUS <- LAMBDA x, y : x - y, Z <- 0, ONE <- 1

RECURSIVE ValTo(_, _)
ValTo(x, n) == IF n = 0 THEN 0 ELSE ValTo(x, n - 1) + x[n] * 2 ^ (LB * (n - 1))
Val(x) == ValTo(x, NL)
Cong(x, y) == (x - y) % PP = 0

Vecs == [Idx -> 0..LIM]
Ops == {"mul", "square", "square2", "mul121666", "add", "sub", "neg", "pow2k"}
Binary(op) == op \in {"mul", "add", "sub"}

VARIABLES lvl, op, a, b
vars == <<lvl, op, a, b>>
Zv == [i \in Idx |-> 0]
Init == lvl = 0 /\ op \in Ops /\ a \in {x \in Vecs : \A i \in 2..NL : x[i] = 0} /\ b = Zv
Next == /\ lvl = 0 /\ lvl' = 1 /\ op' = op
        /\ a' \in {x \in Vecs : x[1] = a[1]}
        /\ b' \in IF Binary(op) THEN Vecs ELSE {Zv}
Spec == Init /\ [][Next]_vars

KK == 3      \* repeated squaring depth of the toy pow2k
Impl == CASE op = "mul" -> FW!ImplMul(a, b) [] op = "square" -> FW!ImplSquare(a)
          [] op = "square2" -> FW!ImplSquare2(a) [] op = "mul121666" -> FW!ImplM66(a)
          [] op = "add" -> FW!ImplAdd(a, b) [] op = "sub" -> FW!ImplSub(a, b) [] op = "neg" -> FW!ImplNeg(a)
          [] op = "pow2k" -> FW!ImplSquare(FW!ImplSquare(FW!ImplSquare(a)))
Exact == CASE op = "mul" -> Val(a) * Val(b) [] op = "square" -> Val(a) * Val(a)
           [] op = "square2" -> 2 * Val(a) * Val(a) [] op = "mul121666" -> Val(a) * M66
           [] op = "add" -> Val(a) + Val(b) [] op = "sub" -> Val(a) - Val(b) [] op = "neg" -> 0 - Val(a)
           [] op = "pow2k" -> (((Val(a) * Val(a)) % PP) * ((Val(a) * Val(a)) % PP) % PP) * ((((Val(a) * Val(a)) % PP) * ((Val(a) * Val(a)) % PP)) % PP)
\* the weakened precondition of the self-test: the conditions on the carries are dropped
PreW(o, x, y) ==
  IF ~Weak THEN FW!Pre(o, x, y, KK)
  ELSE CASE o = "mul" -> \A i \in 2..NL : FW!FitsW(CF * y[i])
         [] o = "sub" -> \A i \in Idx : FW!FitsW(x[i] + KPv[i])
         [] OTHER -> FW!Pre(o, x, y, KK)
PreH == PreW(op, a, b)
PostH == FW!Post(op, a, b, KK)

Sound == lvl = 1 /\ PreH => FW!LeVec(Impl, PostH) /\ Cong(Val(Impl), Exact)
\* one-limb increments inside the domain
Up(x, i) == [x EXCEPT ![i] = @ + 1]
Monotone == lvl = 1 =>
  /\ \A i \in Idx : a[i] < LIM /\ PreW(op, Up(a, i), b) =>
        PreH /\ FW!LeVec(PostH, FW!Post(op, Up(a, i), b, KK))
  /\ Binary(op) => \A i \in Idx : b[i] < LIM /\ PreW(op, a, Up(b, i)) =>
        PreH /\ FW!LeVec(PostH, FW!Post(op, a, Up(b, i), KK))
\* non-vacuity is read off the coverage of these two (both must be reached): printed once per operation
Inv == Sound /\ Monotone
\* non-vacuity (must be VIOLATED): the precondition admits multiplications / subtractions / squarings whose every limb is beyond
\* the nominal width, i.e. Sound says something about unreduced representations
NonVac == ~(lvl = 1 /\ op \in {"mul", "sub", "square"} /\ PreH
            /\ \A i \in Idx : a[i] >= 2 ^ LB /\ (Binary(op) => b[i] >= 2 ^ LB))
=============================================================================
