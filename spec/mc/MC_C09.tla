------------------------------- MODULE MC_C09 -------------------------------
(***************************************************************************)
(* Every history of the batch verifier up to MaxLen additions (plus Force, *)
(* Reset, Verify, VerifyBatchOnly anywhere) over every abstract entry kind *)
(* (36 kinds: key expands / admissible, signature admissible, cofactored / *)
(* cofactorless equation, requested equation), with the expansion limit    *)
(* set to 2 so that the precomputeOk() boundary is crossed: the machine's  *)
(* outputs are the declarative ones, the flags are exact, the precomputed  *)
(* path never meets a nil key.                                             *)
(***************************************************************************)
EXTENDS Batch, TLC
CONSTANTS MaxLen
Kinds == {e \in [keyOk : BOOLEAN, keyAdm : BOOLEAN, sigAdm : BOOLEAN, eqCof : BOOLEAN, eqCl : BOOLEAN, cl : BOOLEAN] : WellFormed(e)}
Next == \/ /\ Len(entries) < MaxLen
           /\ \E e \in Kinds : \/ AddPlain(e)
                               \/ (e.keyOk /\ AddExpanded(e, FALSE))      \* caller-supplied expanded key
                               \/ AddExpanded(e, TRUE)                    \* nil key (cache.Verifier on an undecodable key)
        \/ Force \/ Reset \/ Verify \/ VerifyBatchOnly
Spec == Init /\ [][Next]_bvars
\* a nil key makes the stored entry inadmissible whatever its kind: compare against the stored record
View == <<entries, anyInvalid, anyCofactorless, anyNotExpanded, out>>
=============================================================================
