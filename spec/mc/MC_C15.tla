------------------------------- MODULE MC_C15 -------------------------------
(***************************************************************************)
(* Toy-scale algebra behind C15, for EVERY secret x (Y = [x]B of large     *)
(* order), every input point H of the prime-order subgroup, every nonce k  *)
(* and every challenge value c:                                            *)
(*  completeness - the honest proof (Gamma = [x]H, s = k + c x) makes the  *)
(*     verifier recompute exactly U = [k]B and V = [k]H, so whatever the   *)
(*     hash is, it returns the same challenge and the proof verifies;      *)
(*  torsion - a torsion-shifted Gamma' = Gamma + T changes V by -[c]T:     *)
(*     the recomputed transcript is the honest one exactly when [c]T = 0,  *)
(*     and the output point [8]Gamma' never changes;                       *)
(*  uniqueness - two proofs that lead the verifier to the same (U, V) with *)
(*     the same invertible challenge have the same output point;           *)
(*  admission - small-order keys and s >= l are refused.                   *)
(***************************************************************************)
EXTENDS Toy
TDecode(s) == IF Decode(s) = NoPt THEN <<FALSE, GId>> ELSE <<TRUE, Decode(s)>>
V == INSTANCE Ecvrf WITH GDecode <- TDecode, GCanonical <- CanonicalDecl, GEncode <- Encode, GAdd <- GAdd, GNeg <- GNeg,
                         GMulS <- GMul, GSmallOrder <- GSmallOrder, GMul8 <- LAMBDA p : GMul(8, p), GBase <- Bpt,
                         SBelowL <- LAMBDA s : s < ELL, SVal <- LAMBDA s : s
Prime == TLCEval({p \in Pts : GTorsionFree(p)})
VARIABLE st
Init == \E x \in 1..(ELL - 1) : st = <<"key", x>>
Next == st[1] = "key" /\ \E h \in 1..(ELL - 1), k \in 0..(ELL - 1) : st' = <<"run", st[2], h, k>>
Spec == Init /\ [][Next]_st
Inv ==
  st[1] = "run" =>
    LET x == st[2]  H == GMul(st[3], Bpt)  k == st[4]
        Y == GMul(x, Bpt)  Gamma == GMul(x, H)
    IN \A c \in 0..(ELL - 1) :
         LET s == (k + c * x) % ELL
             honest == V!UV(Y, H, Gamma, c, s)
         IN /\ honest = <<GMul(k, Bpt), GMul(k, H)>>
            /\ V!AdmitKey(Encode(Y)) /\ V!AdmitProof(Encode(Gamma), s)
            /\ \A T \in Torsion :
                 LET G2 == GAdd(Gamma, T) IN
                 /\ (V!UV(Y, H, G2, c, s) = honest) <=> (GMul(c, T) = GId)
                 /\ GMul(8, G2) = GMul(8, Gamma)
            \* uniqueness: any other (Gamma2, s2) reaching the same (U, V) under an invertible c has the same output point
            /\ (c # 0) => \A g2 \in Pts, s2 \in 0..(ELL - 1) :
                 V!UV(Y, H, g2, c, s2) = honest => GMul(8, g2) = GMul(8, Gamma)
            /\ ~V!AdmitProof(Encode(Gamma), s + ELL)
            /\ \A T \in Torsion : ~V!AdmitKey(Encode(T))
=============================================================================
