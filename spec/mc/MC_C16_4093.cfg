CONSTANTS ELL = 4093 LENL = 12 KB = 13
SPECIFICATION Spec
INVARIANT NormsExact
INVARIANT InLattice
INVARIANT Basis
INVARIANT StepBound
INVARIANT Post
PROPERTY Terminates
CHECK_DEADLOCK FALSE
