CONSTANTS WS = 4 NW = 4 NafWs = {2,3} R2Ws = {3} R2Extra = {3}
SPECIFICATION Spec
INVARIANT Inv
CHECK_DEADLOCK FALSE
