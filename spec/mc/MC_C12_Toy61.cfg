CONSTANTS P = 61 D = 2 ELL = 7 NB = 7 SB = 4
SPECIFICATION SSpec
INVARIANT SInv
CHECK_DEADLOCK FALSE
