CONSTANTS ELL = 67 LENL = 7 KB = 8
SPECIFICATION Spec
INVARIANT NormsExact
INVARIANT InLattice
INVARIANT Basis
INVARIANT StepBound
INVARIANT Post
PROPERTY Terminates
CHECK_DEADLOCK FALSE
