----------------------------- MODULE MC_Edwards -----------------------------
(***************************************************************************)
(* Toy-scale exhaustive check that the ALGORITHMS of Field.tla/Edwards.tla *)
(* (the texts that serve as the real-scale oracle for C03/C04/C10 traces)  *)
(* equal the DEFINITIONS, for every field pair, every point pair in every  *)
(* projective scaling from Zs, every encoding string and every scalar      *)
(* string.  One TLC state per point / string / field element so that the   *)
(* work spreads over the workers.                                          *)
(***************************************************************************)
EXTENDS Toy

VARIABLE st
Zs == {1, 2, P - 1, (P + 1) \div 2}

Init == st = <<"init", 0>>
Next == /\ st[1] = "init"
        /\ \/ \E p \in Pts : st' = <<"pt", p>>
           \/ \E s \in Strs : st' = <<"str", s>>
           \/ \E u \in Fp : st' = <<"fld", u>>
Spec == Init /\ [][Next]_st

\* ---- field: sqrt_ratio_i algorithm = declarative contract, for all (u, v)
SqrtDecl(u, v) ==
  IF u = 0 THEN <<TRUE, 0>>
  ELSE IF v = 0 THEN <<FALSE, 0>>
  ELSE LET q == FMul(u, FInv(v)) IN
       IF IsSquare(q) THEN <<TRUE, CHOOSE r \in Fp : FMul(r, r) = q /\ ~FIsNeg(r)>>
       ELSE <<FALSE, CHOOSE r \in Fp : FMul(r, r) = FMul(FSqrtM1, q) /\ ~FIsNeg(r)>>
FieldOK(u) ==
  /\ \A v \in Fp : /\ SqrtRatioI(u, v) = SqrtDecl(u, v)
                   /\ \A ok \in BOOLEAN, r \in Fp : SqrtRatioCertOK(u, v, ok, r) <=> <<ok, r>> = SqrtDecl(u, v)
  /\ FInv(u) = (IF u = 0 THEN 0 ELSE CHOOSE b \in Fp : FMul(u, b) = 1)
  /\ FMul(FSqrtM1, FSqrtM1) = P - 1

\* ---- points: formulas = affine law, in every scaling
Sc(p, z) == ExtScale(FromAffine(p), z)
PointOK(p) ==
  /\ \A q \in Pts :
       /\ AffAdd(p, q) \in Pts
       /\ \A z1 \in Zs, z2 \in Zs :
            LET PP == Sc(p, z1)  QQ == Sc(q, z2) IN
            /\ ExtValid(ExtAdd(PP, QQ)) /\ ToAffine(ExtAdd(PP, QQ)) = AffAdd(p, q)
            /\ ExtValid(ExtSub(PP, QQ)) /\ ToAffine(ExtSub(PP, QQ)) = AffSub(p, q)
            /\ ToAffine(ExtAddA(PP, QQ)) = AffAdd(p, q)
            /\ ToAffine(ExtSubA(PP, QQ)) = AffSub(p, q)
            /\ ExtEq(PP, QQ) <=> p = q
  /\ \A z \in Zs :
       LET PP == Sc(p, z) IN
       /\ ExtValid(ExtDbl(PP)) /\ ToAffine(ExtDbl(PP)) = AffAdd(p, p)
       /\ ToAffine(ExtNeg(PP)) = AffNeg(p)
       /\ ExtIsId(PP) <=> p = AffId
       /\ ExtIsSmallOrder(PP) <=> AffMulN(8, p) = AffId
       /\ ToAffine(ExtMulCofactor(PP)) = AffMulN(8, p)
       /\ Compress(PP) = <<p[2], p[1] % 2>>
       /\ \A n \in SStrs : ToAffine(ExtMulBits(Bits(n, SB), PP)) = GMul(n, p)
  /\ AffAdd(p, AffNeg(p)) = AffId /\ AffAdd(p, AffId) = p
  /\ GMul(N, p) = GId

\* ---- strings: decompression algorithm = declarative acceptance
StrOK(s) ==
  LET y == EncYRaw(s) % P
      sg == EncSign(s)
      r == Decompress(y, sg)
  IN /\ r[1] <=> DecodableY(y, Fp)
     /\ r[1] => /\ ExtValid(r[2]) /\ ToAffine(r[2]) \in Pts /\ ToAffine(r[2])[2] = y
                /\ (ToAffine(r[2])[1] # 0 => ToAffine(r[2])[1] % 2 = sg)
                /\ (Encode(ToAffine(r[2])) = s) <=> CanonicalDecl(s)
     /\ \A ok \in BOOLEAN, x0 \in Fp : DecompressCertOK(y, ok, x0) => (ok = r[1] /\ (ok => x0 = FAbs(r[2][1])))
     /\ \A cert \in Fp : DecompressWithCert(y, sg, cert)[1] = r[1]
                         /\ (r[1] => DecompressWithCert(y, sg, cert) = r)

Inv == CASE st[1] = "pt" -> PointOK(st[2])
         [] st[1] = "str" -> StrOK(st[2])
         [] st[1] = "fld" -> FieldOK(st[2])
         [] OTHER -> Cardinality(Pts) = N /\ Cardinality(Torsion) = 8
=============================================================================
