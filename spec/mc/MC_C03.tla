------------------------------- MODULE MC_C03 -------------------------------
(***************************************************************************)
(* Every scalar-multiplication routine of ScalarMul.tla (the loops of      *)
(* package curve) on a complete toy group, fed with the digit sequences    *)
(* the recoders of Recoding.tla produce for 15-bit scalars (8-bit words,   *)
(* two words: the window extraction crosses a word seam), returns          *)
(* sum [s_i]P_i:                                                           *)
(*   - single scalar: every scalar (quick: three windows of the range) x   *)
(*     every point (torsion, prime                                         *)
(*     order, mixed) for the variable-base routines and the table-driven   *)
(*     fixed-base routine (built for every point as base);                 *)
(*   - two scalars: the same first scalars x every first point against a   *)
(*     family of second terms (boundary scalars x torsion / prime-order /  *)
(*     mixed points) for both Straus variants, the double-base routine     *)
(*     and Pippenger at two window widths (with and without extra digit);  *)
(*   - ABGLSV-Pornin: signed pairs (d0, d1) read off the state's scalar    *)
(*     x b x points.                                                       *)
(* One TLC state per first scalar.                                         *)
(***************************************************************************)
EXTENDS Toy

CONSTANTS Quick          \* TRUE: a smaller family of first scalars and second terms
WS == 8
NW == 2
TotalBits == WS * NW
Rc == INSTANCE Recoding
SM == INSTANCE ScalarMul

VARIABLE v
VAll == 0..(2 ^ (TotalBits - 1) - 1)
\* first scalars: quick - a window at the bottom, one around the word-seam carry 2^14 and one at the top of the
\* range; thorough - every 15-bit scalar
VSet == IF Quick THEN (0..1023) \cup ((2 ^ 14 - 256)..(2 ^ 14 + 255)) \cup ((2 ^ 15 - 512)..(2 ^ 15 - 1))
        ELSE VAll
ASSUME VSet \subseteq VAll
\* TLC checks the successors of one state on one worker: a layer of 64 bucket states (v = -2-k) spreads the scalars
NBuckets == 64
Init == v = -1
Next == \/ v = -1 /\ v' \in {0 - 2 - k : k \in 0..(NBuckets - 1)}
        \/ v < -1 /\ v' \in {x \in VSet : x % NBuckets = 0 - v - 2}
Spec == Init /\ [][Next]_v

R16(x) == Rc!Radix16Alg(x, WS, NW)
Naf(x, w) == Rc!NafAlg(x, w, WS, NW)
R2wLen == TotalBits \div 2
R2w(x, w, ex) == Rc!Radix2wAlg(x, w, WS, NW, ex, R2wLen)
R2wCnt(w, ex) == Rc!Radix2wCount(w, WS, NW) + (IF ex THEN 1 ELSE 0)

\* second terms: boundary scalars (carry chains, all ones, multiples of the order) x three kinds of point
T8 == CHOOSE p \in Torsion : GMul(4, p) # GId            \* order exactly 8
Mixed == GAdd(Bpt, T8)
Seconds == IF Quick THEN {<<1, T8>>, <<30583, Mixed>>, <<2 ^ 15 - 1, Bpt>>}
           ELSE {<<0, Bpt>>, <<1, T8>>, <<30583, Mixed>>, <<2 ^ 15 - 1, Bpt>>, <<8 * ELL - 1, Mixed>>}
Expect2(a, PP, b, QQ) == GAdd(GMul(a, PP), GMul(b, QQ))

\* the recodings of the state's scalar and of the second scalars are computed once per state
SecondsSeq == SetToSeq(Seconds)
SingleOK ==
  LET r16 == TLCEval(R16(v))  n5 == TLCEval(Naf(v, 5)) IN
  \A PP \in Pts :
    LET want == GMul(v, PP) IN
    /\ SM!VarBase(r16, PP) = want
    /\ SM!VarBaseVec(r16, PP) = want
    /\ SM!BasepointMul(r16, PP) = want
    /\ SM!StrausVT(<<n5>>, <<PP>>, 5, TotalBits) = want
    /\ SM!StrausCT(<<r16>>, <<PP>>) = want
PairOK ==
  LET r16 == TLCEval(R16(v))  n3 == TLCEval(Naf(v, 3))  n5 == TLCEval(Naf(v, 5))  n7 == TLCEval(Naf(v, 7))
      p6 == TLCEval(R2w(v, 6, FALSE))  p4 == TLCEval(R2w(v, 4, TRUE))
  IN
  \A k \in 1..Len(SecondsSeq) :
    LET b == SecondsSeq[k][1]  QQ == SecondsSeq[k][2]
        br16 == TLCEval(R16(b))  bn3 == TLCEval(Naf(b, 3))  bn5 == TLCEval(Naf(b, 5))
        bp6 == TLCEval(R2w(b, 6, FALSE))  bp4 == TLCEval(R2w(b, 4, TRUE))
    IN
    \A PP \in Pts :
      LET want == Expect2(v, PP, b, QQ) IN
      /\ SM!StrausCT(<<r16, br16>>, <<PP, QQ>>) = want
      /\ SM!StrausCT(<<br16, r16>>, <<QQ, PP>>) = want
      /\ SM!StrausVT(<<n5, bn5>>, <<PP, QQ>>, 5, TotalBits) = want
      /\ SM!StrausVT(<<bn3, n3>>, <<QQ, PP>>, 3, TotalBits) = want
      /\ SM!DoubleBase(n3, bn5, PP, QQ, 3, 5) = want
      /\ SM!DoubleBase(bn5, n7, QQ, PP, 5, 7) = want
      /\ SM!Pippenger(<<p6, bp6>>, <<PP, QQ>>, 6, R2wCnt(6, FALSE)) = want
      /\ SM!Pippenger(<<bp4, p4, bp4>>, <<QQ, PP, PP>>, 4, R2wCnt(4, TRUE)) = GAdd(want, GMul(b, PP))
\* zero terms and the identity
EmptyOK == /\ SM!StrausCT(<<>>, <<>>) = GId
           /\ SM!StrausVT(<<>>, <<>>, 5, TotalBits) = GId

\* ABGLSV-Pornin on the state's scalar read as a pair of signed 7-bit values (d0, d1) and a multiplier b
HBits == 2
B2pt == GMul(2 ^ HBits, Bpt)
AbglsvOK ==
  LET d0 == (v % 128) - 64
      d1 == ((v \div 128) % 128) - 64
  IN v < 2 ^ 14 =>
     \A AA \in {Bpt, Mixed, T8}, CC \in {Mixed, GId, Bpt}, b \in {0, 1, ELL - 1, 3} :
       SM!AbglsvPornin(d0, d1, AA, b, CC, Bpt, B2pt, ELL, HBits, Naf, TotalBits, 3, 5)
         = GAdd(GAdd(GMul(d0, AA), GMul(d1 * b, Bpt)), GNeg(GMul(d1, CC)))

Inv == v >= 0 => SingleOK /\ PairOK /\ EmptyOK /\ AbglsvOK
=============================================================================
