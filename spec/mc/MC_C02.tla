------------------------------- MODULE MC_C02 -------------------------------
(***************************************************************************)
(* Toy-scale check behind C02: for every secret scalar a (with A = [a]B of *)
(* large order), every nonce r and every reduced challenge k, the          *)
(* signature (R, S) = ([r]B, r + k a mod l) has a canonical R and S < l,   *)
(* is accepted by the declarative predicate under all 31 legal option      *)
(* vectors, and is rejected once S is replaced by any other S' < l or the  *)
(* challenge changes (a different message / key / context under an         *)
(* injective hash).                                                        *)
(***************************************************************************)
EXTENDS Toy
Opts == [soA : BOOLEAN, soR : BOOLEAN, ncA : BOOLEAN, ncR : BOOLEAN, cl : BOOLEAN]
TDecode(s) == IF Decode(s) = NoPt THEN <<FALSE, GId>> ELSE <<TRUE, Decode(s)>>
E == INSTANCE Ed25519 WITH GDecode <- TDecode, GCanonical <- CanonicalDecl, GEncode <- Encode,
                           GAdd <- GAdd, GNeg <- GNeg, GMulS <- GMul, GSmallOrder <- GSmallOrder, GBase <- Bpt,
                           SBelowL <- LAMBDA s : s < ELL, SVal <- LAMBDA s : s
VARIABLE st
Init == \E a \in 1..(N - 1) : st = <<"key", a>>
Next == st[1] = "key" /\ \E r \in 0..(ELL - 1), k \in 0..(ELL - 1) : st' = <<"sig", st[2], r, k>>
Spec == Init /\ [][Next]_st
Inv ==
  st[1] = "sig" =>
    LET a == st[2]  r == st[3]  k == st[4]
        A == GMul(a, Bpt)  As == Encode(A)
        Rs == Encode(GMul(r, Bpt))
        S == (r + k * a) % ELL
    IN (a % ELL # 0) =>
       /\ CanonicalDecl(Rs) /\ CanonicalDecl(As) /\ S < ELL
       /\ \A o \in Opts : ~E!Incompatible(o) =>
            \* the nonce r = 0 gives R = identity, which options that forbid small-order R reject; every preset allows it
            /\ E!Accept(o, TRUE, As, Rs, S, k) = (o.soR \/ r # 0)
            /\ o \in {E!Default, E!StdLib, E!Fips1865, E!Zip215} => E!Accept(o, TRUE, As, Rs, S, k)
            /\ \A S2 \in 0..(ELL - 1) : S2 # S => ~E!Accept(o, TRUE, As, Rs, S2, k)
            /\ \A k2 \in 0..(ELL - 1) : k2 # k => ~E!Accept(o, TRUE, As, Rs, S, k2)
            /\ ~E!Accept(o, FALSE, As, Rs, S, k)
=============================================================================
