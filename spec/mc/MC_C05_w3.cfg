CONSTANTS W = 3
SPECIFICATION Spec
INVARIANT Inv
CHECK_DEADLOCK FALSE
