CONSTANTS Keys = {1, 2, 3} BadKeys = {9} Capacity = 2 Clients = {101, 102} MaxOps = 2 Atomic = FALSE
SPECIFICATION Spec
INVARIANT BoundedInv
INVARIANT NoDupInv
INVARIANT IndexConsistent
INVARIANT RightKey
INVARIANT UsesRightKey
PROPERTY LRUStep
CHECK_DEADLOCK FALSE
