CONSTANTS P = 29 D = 27 ELL = 5 NB = 6 SB = 4
SPECIFICATION SSpec
INVARIANT SInv
CHECK_DEADLOCK FALSE
