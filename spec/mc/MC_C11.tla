------------------------------- MODULE MC_C11 -------------------------------
(***************************************************************************)
(* Complete toy curves (all carry Ristretto: -(1+d) is a square):          *)
(*  - over ALL strings: decoding accepts exactly ELL of them, each         *)
(*    accepted string re-encodes to itself, decoded points are valid and   *)
(*    in the even subgroup 2E;                                             *)
(*  - over ALL points P of 2E... every element: the four coset             *)
(*    representatives P + T (T in E[4]) in every scaling from Zs encode to *)
(*    the same string, compare Equal, decode back to an Equal point;       *)
(*    points of different cosets never compare Equal nor share a string;   *)
(*  - the MAP of the one-way function yields, for EVERY field element, a   *)
(*    valid point of 2E.                                                   *)
(***************************************************************************)
EXTENDS Toy

F == INSTANCE Field
InvSqrtAMD == TLCEval(F!SqrtRatioI(1, FSub(FNeg(1), D))[2])
SqrtADM1 == TLCEval(FNeg(F!SqrtRatioI(FSub(FNeg(D), 1), 1)[2]))
Ri == INSTANCE Ristretto WITH SqrtRI <- F!SqrtRatioI, InvSqrtAMinusD <- InvSqrtAMD, SqrtAdMinusOne <- SqrtADM1

\* strings: NB bits; bit NB-1 (the "255th") must be clear, value canonical (< P) and non-negative
RDecode(s) ==
  IF s >= 2 ^ (NB - 1) \/ s >= P \/ s % 2 = 1 THEN <<FALSE, ExtId>>
  ELSE Ri!DecodeField(s)
REncode(PP) == Ri!EncodeField(PP)

E4 == TLCEval({t \in Pts : GMul(4, t) = GId})
Even == TLCEval({GMul(2, p) : p \in Pts})                  \* the subgroup 2E, of order 2 ELL... (index 4 cosets of E[4])
Zs == {1, 2, P - 1}
Sc(p, z) == ExtScale(FromAffine(p), z)
Accepted == TLCEval({s \in Strs : RDecode(s)[1]})

VARIABLE st
Init == st = <<"init">>
Next == st[1] = "init" /\ (\E p \in Pts : st' = <<"pt", p>>) 
Spec == Init /\ [][Next]_st

Global == st[1] = "init" =>
  /\ Cardinality(Accepted) = ELL
  /\ \A s \in Accepted : LET d == RDecode(s)[2] IN ExtValid(d) /\ REncode(d) = s /\ ToAffine(d) \in Even
  /\ \A t \in Fp : LET m == Ri!Map(t) IN ExtValid(m) /\ ToAffine(m) \in Even
PerPoint == st[1] = "pt" =>
  LET p == st[2] IN
  p \in Even =>
    LET s0 == REncode(FromAffine(p)) IN
    /\ s0 \in Accepted
    /\ Ri!REquals(RDecode(s0)[2], FromAffine(p))
    /\ \A t \in E4, z \in Zs :
         LET Q == Sc(GAdd(p, t), z) IN REncode(Q) = s0 /\ Ri!REquals(Q, FromAffine(p))
    /\ \A q \in Even : (\A t \in E4 : q # GAdd(p, t)) => (~Ri!REquals(FromAffine(p), FromAffine(q)) /\ REncode(FromAffine(q)) # s0)
=============================================================================
