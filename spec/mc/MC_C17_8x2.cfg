CONSTANTS WS = 8 NW = 2 NafWs = {2,3,4,5,6,7} R2Ws = {4,6} R2Extra = {4}
SPECIFICATION Spec
INVARIANT Inv
CHECK_DEADLOCK FALSE
