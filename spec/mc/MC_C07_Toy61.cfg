CONSTANTS P = 61 D = 2 ELL = 7 NB = 7 SB = 6
SPECIFICATION Spec
INVARIANT Inv
INVARIANT DH
CHECK_DEADLOCK FALSE
