CONSTANTS ExpandLimit = 2 MaxLen = 3
SPECIFICATION Spec
INVARIANT OutputsMatch
INVARIANT FlagsExact
INVARIANT NoNilKeyOnPrecomputedPath
CHECK_DEADLOCK FALSE
