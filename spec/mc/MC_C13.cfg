CONSTANTS R0 = 6 MaxDepth = 2
SPECIFICATION Spec
INVARIANT Injective
INVARIANT Cursors
INVARIANT CloneOK
CHECK_DEADLOCK FALSE
