------------------------------- MODULE MC_C08 -------------------------------
(***************************************************************************)
(* The control skeletons that C08 expects of the code, as functions from   *)
(* a secret to the sequence of labels / touched indices it produces, for   *)
(* ALL toy secrets:                                                        *)
(*   Lookup   - the masked scan of a signed-digit table (window.go          *)
(*              Lookup): touches every entry, then a conditional negate;   *)
(*   Radix16  - the fixed-length signed radix-16 loop (variable-base and   *)
(*              fixed-base multiplication): one lookup and one addition    *)
(*              per digit, zero digits included;                           *)
(*   Ladder   - the Montgomery ladder: a conditional swap and a            *)
(*              differential step for every bit position, leading zeros    *)
(*              included.                                                  *)
(* NonInterference: the emitted sequence is the same for all secrets.      *)
(* With Leaky = TRUE the skeletons contain the three classic mistakes      *)
(* (direct indexing, early exit on a zero digit, skipping leading zero     *)
(* bits) and TLC must find the dependence - the non-vacuity half.          *)
(* This model states the intended shape; it is bound to the code only by   *)
(* the observation build checked through Trace_C08.                        *)
(***************************************************************************)
EXTENDS Integers, Sequences, SequencesExt
CONSTANTS NBits, Leaky
Secrets == 0..(2 ^ NBits - 1)
Bit(s, i) == (s \div (2 ^ i)) % 2
\* signed radix-4 digits (toy stand-in for radix 16): digits in -2..1
NDig == NBits \div 2
Digit(s, i) == LET d == (s \div (4 ^ i)) % 4 IN IF d >= 2 THEN d - 4 ELSE d
Abs(x) == IF x < 0 THEN 0 - x ELSE x
Lookup(d) == IF Leaky THEN <<<<"idx", Abs(d)>>>>
             ELSE [j \in 1..2 |-> <<"idx", j>>] \o <<<<"cneg">>>>
Radix16(s) ==
  FoldLeft(LAMBDA acc, i : IF Leaky /\ Digit(s, i - 1) = 0 THEN acc
                           ELSE acc \o Lookup(Digit(s, i - 1)) \o <<<<"add", i>>>>, <<>>, [i \in 1..NDig |-> i])
Top(s) == IF s = 0 THEN 0 ELSE CHOOSE i \in 0..(NBits - 1) : Bit(s, i) = 1 /\ \A j \in (i + 1)..(NBits - 1) : Bit(s, j) = 0
Ladder(s) ==
  LET n == IF Leaky THEN Top(s) + 1 ELSE NBits
  IN FoldLeft(LAMBDA acc, i : acc \o <<<<"cswap", i>>, <<"step", i>>>>, <<>>, [i \in 1..n |-> i])
VARIABLE s
Init == s \in Secrets
Next == UNCHANGED s
Spec == Init /\ [][Next]_s
NonInterference == Radix16(s) = Radix16(0) /\ Ladder(s) = Ladder(0)
=============================================================================
