CONSTANTS NL = 2 LB = 3 W = 8 CF = 3 K = 4 M66 = 5 LIM = 15 Weak = FALSE
SPECIFICATION Spec
INVARIANT NonVac
CHECK_DEADLOCK FALSE
