------------------------------- MODULE MC_C14 -------------------------------
(***************************************************************************)
(* Toy checks behind C14.                                                  *)
(* (1) For EVERY element u of the toy field the RFC 9380 Elligator 2 map   *)
(*     (straight-line definition, Z = 2, which is a non-square because     *)
(*     p = 5 mod 8) lands on the Montgomery curve, its rational image lies *)
(*     on the Edwards curve, and after multiplication by the cofactor it   *)
(*     is in the prime-order subgroup; exceptional inputs included.        *)
(* (2) expand_message_xmd with an arbitrary (injective-free) toy hash:     *)
(*     the output has exactly the requested length, the abort condition is *)
(*     exactly ell > 255 (or a zero / oversize request), and the block     *)
(*     counter byte never exceeds 255 when no abort is signalled.          *)
(***************************************************************************)
EXTENDS Toy
MJ == TLCEval(FMul(FMul(2, FSub(1, D)), FInv(FAdd(1, D))))          \* Montgomery J = 2(1-d)/(1+d)
TSqrt(a) == CHOOSE r \in Fp : FMul(r, r) = a
C1v == TLCEval(LET r == TSqrt(FNeg(FAdd(MJ, 2))) IN IF r % 2 = 0 THEN r ELSE FNeg(r))
El == INSTANCE Elligator WITH IsSquare <- IsSquare, Sqrt <- TSqrt, JJ <- MJ, ZZ <- 2, C1 <- C1v
OnMont(st) == FMul(st[2], st[2]) = El!G(st[1])

\* toy hash: digest of BS bytes depending on the input in some arbitrary way
BS == 32
TH(x) == LET h == (Len(x) * 7 + FoldLeft(LAMBDA a, b : (a * 3 + b) % 251, 1, x)) % 256 IN [i \in 1..BS |-> (h + i) % 256]
TX(x, n) == [i \in 1..n |-> (i + Len(x)) % 256]
HC == INSTANCE H2C WITH H <- TH, XOF <- TX

VARIABLE st
Init == st = <<"init">>
Next == st[1] = "init" /\ ((\E u \in Fp : st' = <<"u", u>>) \/ (\E n \in {0, 1, 31, 32, 33, 64, 65, 8159, 8160, 8161, 65535, 65536} : st' = <<"len", n>>))
Spec == Init /\ [][Next]_st
MapOK == st[1] = "u" =>
  LET u == st[2]
      m == El!MapToMontgomery(u)
      e == El!MapToCurve(u)
  IN /\ OnMont(m)
     /\ e \in Pts
     /\ GTorsionFree(GMul(8, e))
ExpandOK == st[1] = "len" =>
  LET n == st[2] IN
  /\ HC!XmdAborts(n, BS) = (n = 0 \/ n > 255 * BS)          \* ell > 255 is the only size abort below 65536
  /\ HC!XmdAborts(n, 28)                                     \* a 28-byte digest (SHA-224) is below the security bound
  /\ ~HC!XmdAborts(n, BS) => Len(HC!Xmd(<<1, 2>>, <<3>>, n, BS, 4)) = n
  /\ (n > 0 /\ n <= 65535) => Len(HC!Xof(<<1, 2>>, <<3>>, n)) = n
=============================================================================
