CONSTANTS ELL = 509 LENL = 9 KB = 10
SPECIFICATION Spec
INVARIANT NormsExact
INVARIANT InLattice
INVARIANT Basis
INVARIANT StepBound
INVARIANT Post
PROPERTY Terminates
CHECK_DEADLOCK FALSE
