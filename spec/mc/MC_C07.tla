------------------------------- MODULE MC_C07 -------------------------------
(***************************************************************************)
(* Toy-scale check behind C07, on the Montgomery form of the toy curve:    *)
(* for EVERY u string (u >= p, ignored top bit, twist points, low-order    *)
(* points) and EVERY scalar string:                                        *)
(*  - the code's ladder (Costello-Smith, Montgomery.tla) equals the RFC    *)
(*    7748 ladder;                                                         *)
(*  - for u on the curve it equals u([clamp(s)]P) computed with the        *)
(*    Edwards group law through the birational map (either sign), with the *)
(*    identity mapped to 0;                                                *)
(*  - low-order inputs give the all-zero output;                           *)
(*  - the fixed-base route through the Edwards group equals the ladder on  *)
(*    the base u; Diffie-Hellman is symmetric.                             *)
(***************************************************************************)
EXTENDS Toy
MA == TLCEval(FMul(FMul(2, FSub(1, D)), FInv(FAdd(1, D))))              \* Montgomery A = 2(1-d)/(1+d)
Mo == INSTANCE Montgomery WITH A24 <- FMul(FSub(MA, 2), FInv(4)), APLUS2OVER4 <- FMul(FAdd(MA, 2), FInv(4))

UBits == NB                                  \* u strings: NB bits, the top bit is ignored
UStrs == 0..(2 ^ NB - 1)
UOf(us) == (us % (2 ^ (NB - 1))) % P         \* mask the top bit, reduce
\* clamp on SB-bit scalar strings: clear the low three bits, clear the top bit, set the bit below it
Clamp(s) == LET v == s % (2 ^ (SB - 1)) IN (v - (v % 8)) + (IF (v \div (2 ^ (SB - 2))) % 2 = 1 THEN 0 ELSE 2 ^ (SB - 2))
KBits(k) == Bits(k, SB)                      \* SB entries: bit SB-1 is zero after clamping
\* birational map
MontU(p) == IF p = GId THEN 0 ELSE FMul(FAdd(1, p[2]), FInv(FSub(1, p[2])))
EdOfU(u) == {p \in Pts : p # GId /\ MontU(p) = u}     \* the (up to two) Edwards points above u
BaseU == MontU(Bpt)

VARIABLE st
Init == st = -1
Next == st = -1 /\ st' \in UStrs
Spec == Init /\ [][Next]_st

Inv ==
  st >= 0 =>
    LET u == UOf(st) IN
    \A s \in SStrs :
      LET k == Clamp(s)
          viaCode == Mo!LadderCode(KBits(k), u)
          viaRFC == Mo!LadderRFC(Bits(k, SB - 1), u)
      IN /\ viaCode = viaRFC
         /\ \A p \in EdOfU(u) : viaRFC = MontU(GMul(k, p))
         /\ (u = 0 \/ \E p \in EdOfU(u) : GSmallOrder(p)) => viaRFC = 0
\* fixed base and Diffie-Hellman symmetry (independent of st)
DH == st = -1 =>
        \A s1 \in SStrs, s2 \in SStrs :
          LET k1 == Clamp(s1)  k2 == Clamp(s2)
              pub1 == MontU(GMul(k1, Bpt))  pub2 == MontU(GMul(k2, Bpt))
          IN /\ pub1 = Mo!LadderRFC(Bits(k1, SB - 1), BaseU)
             /\ Mo!LadderRFC(Bits(k1, SB - 1), pub2) = Mo!LadderRFC(Bits(k2, SB - 1), pub1)
=============================================================================
