CONSTANTS P = 109 D = 11 ELL = 13 NB = 8 SB = 7
SPECIFICATION Spec
INVARIANT Inv
INVARIANT DH
CHECK_DEADLOCK FALSE
