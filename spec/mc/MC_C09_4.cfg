CONSTANTS ExpandLimit = 2 MaxLen = 4
SPECIFICATION Spec
INVARIANT OutputsMatch
INVARIANT FlagsExact
INVARIANT NoNilKeyOnPrecomputedPath
CHECK_DEADLOCK FALSE
