CONSTANTS NL = 2 LB = 3 W = 8 CF = 3 K = 4 M66 = 5 LIM = 31 Weak = TRUE
SPECIFICATION Spec
INVARIANT Inv
CHECK_DEADLOCK FALSE
