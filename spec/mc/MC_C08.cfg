CONSTANTS NBits = 8 Leaky = FALSE
SPECIFICATION Spec
INVARIANT NonInterference
CHECK_DEADLOCK FALSE
