------------------------------- MODULE MC_C16 -------------------------------
(***************************************************************************)
(* Every scalar k below 2^KB (reduced or not) for a toy prime order: the   *)
(* reduction keeps its invariants (exact norms and inner product, both     *)
(* vectors in the lattice, determinant +-ELL), terminates within the step  *)
(* bound, and returns a vector satisfying the postcondition Short.         *)
(* MC_C01 uses only that postcondition for the delta-scaled equation.      *)
(***************************************************************************)
EXTENDS Lattice
CONSTANTS KB
Init == \E kk \in 0..(2 ^ KB - 1) : Start(kk)
Spec == Init /\ [][LNext]_lvars /\ WF_lvars(LNext)
Terminates == <>(pc = "done")
=============================================================================
