CONSTANTS NL = 3 LB = 3 W = 8 CF = 3 K = 4 M66 = 5 LIM = 11 Weak = FALSE
SPECIFICATION Spec
INVARIANT Inv
CHECK_DEADLOCK FALSE
