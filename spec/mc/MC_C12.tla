------------------------------- MODULE MC_C12 -------------------------------
(***************************************************************************)
(* Toy Schnorr over the Ristretto quotient of the toy curve (the algebra   *)
(* of sr25519 verification: [s]B - [k]A - R is the identity ELEMENT, i.e.  *)
(* lies in E[4]), for EVERY key, nonce and challenge value:                *)
(*  - the honest signature verifies, also when R or A is given by any      *)
(*    other representative of its coset (R + T, T in E[4]);                *)
(*  - any other s, any other challenge (a changed context, message or key  *)
(*    under an injective transcript hash) is rejected;                     *)
(*  - the encodings of A and R are canonical (decode o encode = identity). *)
(***************************************************************************)
EXTENDS MC_C11
SchnorrOK(As, Rp, s, k) == Ri!REquals(ExtSub(ExtSub(FromAffine(GMul(s, Bpt)), FromAffine(GMul(k, ToAffine(RDecode(As)[2])))), Rp), ExtId)
VARIABLE sx
SInit == st = <<"unused">> /\ \E a \in 1..(ELL - 1) : sx = <<"key", a>>
SNext == sx[1] = "key" /\ UNCHANGED st /\ \E r \in 0..(ELL - 1), k \in 0..(ELL - 1) : sx' = <<"sig", sx[2], r, k>>
SSpec == SInit /\ [][SNext]_<<sx, st>>
SInv ==
  sx[1] = "sig" =>
    LET a == sx[2]  r == sx[3]  k == sx[4]
        As == REncode(FromAffine(GMul(a, Bpt)))
        R == GMul(r, Bpt)
        s == (k * a + r) % ELL
    IN /\ RDecode(As)[1] /\ REncode(RDecode(As)[2]) = As
       /\ \A T \in E4 : SchnorrOK(As, FromAffine(GAdd(R, T)), s, k)
       /\ \A s2 \in 0..(ELL - 1) : s2 # s => ~SchnorrOK(As, FromAffine(R), s2, k)
       /\ \A k2 \in 0..(ELL - 1) : k2 # k => ~SchnorrOK(As, FromAffine(R), s, k2)
=============================================================================
