CONSTANTS W = 4
SPECIFICATION Spec
INVARIANT Inv
CHECK_DEADLOCK FALSE
